//! Translator targets owned by property C02.
//!
//! `layout` → `Generated/LayoutGen.lean`: the layout arithmetic of
//! `src/runtime/layout.rs`, transliterated function by function:
//! the two structs (field order), the `assert!`s of `Layout::new`,
//! `Layout::{new, is_zero_sized, size, align, union}` and
//! `LayoutBuilder::{new, add, finish}`.
//!
//! `layoutloops` → `Generated/LayoutLoops.lean`: the constants the five
//! independently written enum loops start from — the `Layout::of::<uN>()` tag
//! each of `Pool::layout_of`, `Lowerer::location`,
//! `generate_{clone,drop,eq}_body_enum` adds first — and `layout_of`'s layout
//! of `()`. The model's loops use their own constant; the theorems need them
//! equal, so changing one of them in the source breaks the proofs.
//!
//! `layoutdecide` → `Generated/LayoutDecide.lean`: the two small decision
//! functions every other answer of the lowerer hangs on —
//! `Pool::is_reference_type` (src/mir/ty.rs) and `Lowerer::lower_type`
//! (src/lir/lower.rs) — translated statement by statement over the model's
//! type kinds (`RotoV.LayoutKind.Kind`): the zero-sized guard (an `&&` / `!`
//! / `matches!` / `layout_of(..)?.size() == 0` condition, with the
//! short-circuit and the `?` kept), the `match self.get(ty)` arms, the
//! `if let … = ty_kind { return … }` chain of `lower_type` (evaluated for
//! every concrete `Ty` / `Primitive` a kind stands for; a kind whose members
//! are treated differently is an extraction failure), and the class of each
//! `IrType` (from the `match ir_ty` of `call_eq_of`, src/lir/lower/eq.rs).
//!
//! `layoutlisteq` → `Generated/LayoutListEq.lean`: the runtime side of `==`
//! on lists (src/value/list.rs) — `impl PartialEq for ErasedList` (behind
//! `==` / `!=` on Roto lists), `RawList::contains`, `RawList::index`,
//! `RawList::get` and `RawList::offset_of` — statement by statement as a list
//! of the steps of `RotoV.Layout.ListStep` (Model/LayoutListStd.lean): the
//! `Arc::ptr_eq` shortcut, taking both locks, the length test, the loop that
//! hands every pair of element ADDRESSES to the element type's `eq_fn`, the
//! final value. Any other statement (for instance a shortcut that compares the
//! element buffers as bytes) is outside the subset: extraction failure.
//!
//! `usize` is rendered as `Nat` (no wrap-around: layouts of real types are far
//! below 2^64; stated as an assumption of C02). A `&mut self` method returns
//! the pair `(self', result)`. Std methods get their meaning once, in
//! `RotoV/Model/LayoutStd.lean`. Anything outside this tiny subset is an
//! extraction failure, never a default.
#[allow(unused_imports)]
use super::{Gen, Target};
use crate::find;
use quote::ToTokens;
use std::path::Path;

pub const TARGETS: &[Target] = &[
    ("layout", "LayoutGen", layout as Gen),
    ("layoutloops", "LayoutLoops", layoutloops as Gen),
    ("layoutdecide", "LayoutDecide", layoutdecide as Gen),
    ("layoutlisteq", "LayoutListEq", layoutlisteq as Gen),
    ("matchexaminee", "ValueMatchGen", matchexaminee as Gen),
];

type R = Result<String, String>;

fn norm<T: ToTokens>(t: &T) -> String {
    t.to_token_stream().to_string().replace(' ', "")
}

fn expr(e: &syn::Expr) -> R {
    use syn::Expr as E;
    Ok(match e {
        E::Paren(p) => expr(&p.expr)?,
        E::Reference(r) => expr(&r.expr)?,
        E::Lit(l) => match &l.lit {
            syn::Lit::Int(i) => i.base10_digits().to_string(),
            other => return Err(format!("unsupported literal {}", norm(other))),
        },
        E::Path(p) => {
            let s = norm(&p.path);
            if s.contains("::") {
                return Err(format!("unsupported path {s}"));
            }
            s
        }
        E::Field(f) => {
            let base = expr(&f.base)?;
            let m = match &f.member {
                syn::Member::Named(i) => i.to_string(),
                syn::Member::Unnamed(_) => return Err("tuple field".into()),
            };
            format!("{base}.{m}")
        }
        E::Binary(b) => {
            let l = expr(&b.left)?;
            let r = expr(&b.right)?;
            match &b.op {
                syn::BinOp::Add(_) => format!("({l} + {r})"),
                syn::BinOp::Gt(_) => format!("(decide ({l} > {r}))"),
                syn::BinOp::Eq(_) => format!("(decide ({l} = {r}))"),
                other => return Err(format!("unsupported operator {}", norm(other))),
            }
        }
        E::MethodCall(m) => {
            let r = expr(&m.receiver)?;
            let args: Result<Vec<String>, String> = m.args.iter().map(expr).collect();
            let args = args?;
            let name = m.method.to_string();
            match (name.as_str(), args.len()) {
                ("max", 1) => format!("(Nat.max {r} {})", args[0]),
                ("next_multiple_of", 1) => format!("(nextMultipleOf {r} {})", args[0]),
                ("is_multiple_of", 1) => format!("(isMultipleOf {r} {})", args[0]),
                ("is_power_of_two", 0) => format!("(isPowerOfTwo {r})"),
                ("size", 0) => format!("(Layout.get_size {r})"),
                ("align", 0) => format!("(Layout.get_align {r})"),
                _ => return Err(format!("unsupported method .{name}/{}", args.len())),
            }
        }
        E::Call(c) => {
            let f = norm(&c.func);
            let args: Result<Vec<String>, String> = c.args.iter().map(expr).collect();
            let args = args?;
            match f.as_str() {
                "Layout::new" | "Self::new" => format!("(Layout.new {})", args.join(" ")),
                _ => return Err(format!("unsupported call {f}")),
            }
        }
        E::Struct(s) => {
            let p = norm(&s.path);
            if p != "Self" && p != "Layout" && p != "LayoutBuilder" {
                return Err(format!("unsupported struct literal {p}"));
            }
            if s.rest.is_some() {
                return Err("struct update syntax".into());
            }
            let mut fs = vec![];
            for f in &s.fields {
                let n = match &f.member {
                    syn::Member::Named(i) => i.to_string(),
                    _ => return Err("tuple struct literal".into()),
                };
                fs.push(format!("{n} := {}", expr(&f.expr)?));
            }
            format!("{{ {} }}", fs.join(", "))
        }
        other => return Err(format!("unsupported expression `{}`", norm(other))),
    })
}

/// (lean body, asserts) of a function body in the subset.
fn body(block: &syn::Block, mut_self: bool) -> Result<(String, Vec<String>), String> {
    let mut lines = vec![];
    let mut asserts = vec![];
    let mut result: Option<String> = None;
    for (i, st) in block.stmts.iter().enumerate() {
        let last = i + 1 == block.stmts.len();
        if result.is_some() {
            return Err("statement after the result expression".into());
        }
        match st {
            syn::Stmt::Local(l) => {
                let name = match &l.pat {
                    syn::Pat::Ident(p) if p.subpat.is_none() && p.by_ref.is_none() => {
                        p.ident.to_string()
                    }
                    other => return Err(format!("unsupported let pattern {}", norm(other))),
                };
                let init = l.init.as_ref().ok_or("let without initialiser")?;
                if init.diverge.is_some() {
                    return Err("let-else".into());
                }
                lines.push(format!("  let {name} := {}", expr(&init.expr)?));
            }
            syn::Stmt::Macro(m) => {
                let name = norm(&m.mac.path);
                if name != "assert" {
                    return Err(format!("unsupported macro {name}!"));
                }
                let e: syn::Expr = m
                    .mac
                    .parse_body()
                    .map_err(|e| format!("assert! body: {e}"))?;
                asserts.push(expr(&e)?);
            }
            syn::Stmt::Expr(e, semi) => {
                if let syn::Expr::Assign(a) = e {
                    // self.f = e;
                    let syn::Expr::Field(f) = &*a.left else {
                        return Err(format!("unsupported assignment target {}", norm(&a.left)));
                    };
                    if norm(&f.base) != "self" || !mut_self {
                        return Err("assignment to something other than a field of &mut self".into());
                    }
                    let m = norm(&f.member);
                    lines.push(format!(
                        "  let self := {{ self with {m} := {} }}",
                        expr(&a.right)?
                    ));
                } else if semi.is_none() && last {
                    result = Some(expr(e)?);
                } else {
                    return Err(format!("unsupported statement `{}`", norm(e)));
                }
            }
            syn::Stmt::Item(_) => return Err("nested item".into()),
        }
    }
    let res = result.ok_or("function without a result expression")?;
    let res = if mut_self { format!("(self, {res})") } else { res };
    lines.push(format!("  {res}"));
    Ok((lines.join("\n"), asserts))
}

fn struct_fields(file: &syn::File, name: &str) -> Result<Vec<(String, String)>, String> {
    for it in &file.items {
        if let syn::Item::Struct(s) = it {
            if s.ident == name {
                let mut out = vec![];
                for f in &s.fields {
                    let n = f.ident.as_ref().ok_or("tuple struct")?.to_string();
                    let t = norm(&f.ty);
                    if t != "usize" {
                        return Err(format!("field {name}.{n} has type {t}, expected usize"));
                    }
                    out.push((n, "Nat".to_string()));
                }
                return Ok(out);
            }
        }
    }
    Err(format!("struct {name} not found"))
}

/// binder text and whether the receiver is `&mut self`
fn params(sig: &syn::Signature, self_ty: &str) -> Result<(String, bool), String> {
    let mut out = vec![];
    let mut mut_self = false;
    for a in &sig.inputs {
        match a {
            syn::FnArg::Receiver(r) => {
                mut_self = r.mutability.is_some() && r.reference.is_some();
                out.push(format!("(self : {self_ty})"));
            }
            syn::FnArg::Typed(t) => {
                let n = norm(&t.pat);
                let ty = norm(&t.ty).replace('&', "");
                let lty = match ty.as_str() {
                    "usize" => "Nat",
                    "Self" => self_ty,
                    "Layout" => "Layout",
                    other => return Err(format!("unsupported parameter type {other}")),
                };
                out.push(format!("({n} : {lty})"));
            }
        }
    }
    Ok((out.join(" "), mut_self))
}

fn ret_ty(sig: &syn::Signature, self_ty: &str, mut_self: bool) -> R {
    let t = match &sig.output {
        syn::ReturnType::Default => return Err("no return type".into()),
        syn::ReturnType::Type(_, t) => norm(t),
    };
    let l = match t.as_str() {
        "usize" => "Nat",
        "bool" => "Bool",
        "Self" => self_ty,
        "Layout" => "Layout",
        other => return Err(format!("unsupported return type {other}")),
    };
    Ok(if mut_self {
        format!("{self_ty} × {l}")
    } else {
        l.to_string()
    })
}

fn layout(repo: &Path) -> R {
    let rel = "src/runtime/layout.rs";
    let file = find::parse(repo, rel)?;
    let mut s = format!(
        "/- GENERATED by /verif/extract from {rel} — do not edit. -/\nimport RotoV.Model.LayoutStd\nset_option linter.unusedVariables false\nnamespace RotoV.Gen.LayoutGen\nopen RotoV.LayoutStd\n\n"
    );
    for st in ["Layout", "LayoutBuilder"] {
        let fs = struct_fields(&file, st)?;
        s += &format!("structure {st} where\n");
        for (n, t) in &fs {
            s += &format!("  {n} : {t}\n");
        }
        s += "  deriving DecidableEq, Repr, Inhabited\n\n";
    }
    // accessor methods first (used by the others), then the arithmetic
    let fns: &[(&str, &str, &str)] = &[
        ("Layout", "new", "new"),
        ("Layout", "size", "get_size"),
        ("Layout", "align", "get_align"),
        ("Layout", "is_zero_sized", "is_zero_sized"),
        ("Layout", "union", "union"),
        ("LayoutBuilder", "new", "new"),
        ("LayoutBuilder", "add", "add"),
        ("LayoutBuilder", "finish", "finish"),
    ];
    for (ty, name, lean) in fns {
        let f = find::func(&file, name, Some(ty))?;
        let (binders, mut_self) = params(&f.sig, ty)?;
        let rt = ret_ty(&f.sig, ty, mut_self)?;
        let (b, asserts) = body(&f.block, mut_self).map_err(|e| format!("{ty}::{name}: {e}"))?;
        if !asserts.is_empty() {
            s += &format!(
                "/-- the `assert!`s of `{ty}::{name}`, in source order -/\ndef {ty}.{lean}_asserts {binders} : List Bool :=\n  [{}]\n\n",
                asserts.join(", ")
            );
        } else if *ty == "Layout" && *name == "new" {
            return Err("Layout::new has no assert! any more".into());
        }
        let sp = if binders.is_empty() { "" } else { " " };
        s += &format!("def {ty}.{lean}{sp}{binders} : {rt} :=\n{b}\n\n");
    }
    s += "end RotoV.Gen.LayoutGen\n";
    Ok(s)
}

struct TagFinder {
    found: Vec<String>,
}
impl<'ast> syn::visit::Visit<'ast> for TagFinder {
    fn visit_expr_call(&mut self, c: &'ast syn::ExprCall) {
        let f = norm(&c.func);
        if let Some(t) = f.strip_prefix("Layout::of::<").and_then(|r| r.strip_suffix('>')) {
            if c.args.is_empty() {
                self.found.push(t.to_string());
            }
        }
        syn::visit::visit_expr_call(self, c);
    }
}

fn int_bytes(t: &str) -> Option<usize> {
    Some(match t {
        "u8" | "i8" => 1,
        "u16" | "i16" => 2,
        "u32" | "i32" => 4,
        "u64" | "i64" => 8,
        _ => return None,
    })
}

fn layoutloops(repo: &Path) -> R {
    use syn::visit::Visit;
    let fns: &[(&str, &str, Option<&str>, &str)] = &[
        ("src/mir/ty.rs", "layout_of", Some("Pool"), "tag_layout_of"),
        ("src/lir/lower.rs", "location", Some("Lowerer"), "tag_location"),
        ("src/lir/lower/clones.rs", "generate_clone_body_enum", Some("Lowerer"), "tag_clone"),
        ("src/lir/lower/drops.rs", "generate_drop_body_enum", Some("Lowerer"), "tag_drop"),
        ("src/lir/lower/eq.rs", "generate_eq_body_enum", Some("Lowerer"), "tag_eq"),
    ];
    let mut s = String::from(
        "/- GENERATED by /verif/extract from src/mir/ty.rs, src/lir/lower.rs, src/lir/lower/{clones,drops,eq}.rs — do not edit. -/\nimport RotoV.Generated.LayoutGen\nnamespace RotoV.Gen.LayoutLoops\nopen RotoV.Gen.LayoutGen\n\n",
    );
    for (rel, name, imp, lean) in fns {
        let file = find::parse(repo, rel)?;
        let f = find::func(&file, name, *imp)?;
        let mut tf = TagFinder { found: vec![] };
        tf.visit_block(&f.block);
        let ints: Vec<&String> = tf.found.iter().filter(|t| int_bytes(t).is_some()).collect();
        if ints.len() != 1 {
            return Err(format!(
                "{rel}::{name}: expected exactly one `Layout::of::<integer>()` (the enum tag), found {:?}",
                tf.found
            ));
        }
        let b = int_bytes(ints[0]).unwrap();
        s += &format!(
            "/-- `Layout::of::<{}>()` in `{name}` ({rel}) -/\ndef {lean} : Layout := Layout.new {b} {b}\n\n",
            ints[0]
        );
    }
    // `Ty::Unit => Layout::new(0, 1)` in layout_of
    let file = find::parse(repo, "src/mir/ty.rs")?;
    let f = find::func(&file, "layout_of", Some("Pool"))?;
    let ms = find::matches_on(&f.block, "self.get(ty)");
    if ms.len() != 1 {
        return Err(format!("layout_of: expected one `match self.get(ty)`, found {}", ms.len()));
    }
    let arm = find::arm_for(&ms[0], "Unit")?;
    let body = expr(&arm.body).map_err(|e| format!("layout_of Ty::Unit arm: {e}"))?;
    s += &format!("/-- `Ty::Unit => …` in `layout_of` -/\ndef unit_layout : Layout := {body}\n\n");
    s += "end RotoV.Gen.LayoutLoops\n";
    Ok(s)
}

// ───────────────────────── layoutdecide ─────────────────────────

/// A concrete `mir::Ty` / `Primitive` value as far as patterns can inspect
/// it; `?` is a payload no pattern may look into.
#[derive(Clone, Debug, PartialEq)]
struct V {
    name: String,
    args: Vec<V>,
}

fn v(name: &str, args: Vec<V>) -> V {
    V { name: name.to_string(), args }
}

fn opaque() -> V {
    v("?", vec![])
}

/// The model's kinds (`RotoV.LayoutKind.Kind`) and the source values each
/// stands for. Checked against the enum definitions in the source.
fn kinds(repo: &Path) -> Result<Vec<(&'static str, Vec<V>)>, String> {
    let ty_file = find::parse(repo, "src/mir/ty.rs")?;
    let types_file = find::parse(repo, "src/typechecker/types.rs")?;
    let want = |file: &syn::File, name: &str, exp: &[&str]| -> Result<(), String> {
        let mut have = find::enum_variants(file, name)?;
        have.sort();
        let mut exp: Vec<String> = exp.iter().map(|s| s.to_string()).collect();
        exp.sort();
        if have != exp {
            return Err(format!(
                "enum {name} has variants {have:?}; the C02 model's kinds cover {exp:?} (extend RotoV.LayoutKind.Kind and the model)"
            ));
        }
        Ok(())
    };
    want(&ty_file, "Ty", &["Unit", "Never", "Record", "Enum", "Primitive", "List", "Runtime"])?;
    want(
        &types_file,
        "Primitive",
        &["Int", "Float", "String", "Char", "Bool", "Asn", "IpAddr", "Prefix"],
    )?;
    want(&types_file, "IntKind", &["Unsigned", "Signed"])?;
    want(&types_file, "IntSize", &["I8", "I16", "I32", "I64"])?;
    want(&types_file, "FloatSize", &["F32", "F64"])?;
    let prim = |p: V| v("Primitive", vec![p]);
    let mut ints = vec![];
    for k in ["Unsigned", "Signed"] {
        for s in ["I8", "I16", "I32", "I64"] {
            ints.push(prim(v("Int", vec![v(k, vec![]), v(s, vec![])])));
        }
    }
    for p in ["Bool", "Char", "Asn"] {
        ints.push(prim(v(p, vec![])));
    }
    Ok(vec![
        ("unit", vec![v("Unit", vec![])]),
        ("never", vec![v("Never", vec![])]),
        ("record", vec![v("Record", vec![opaque()])]),
        ("enum", vec![v("Enum", vec![opaque()])]),
        ("int", ints),
        (
            "float",
            vec![
                prim(v("Float", vec![v("F32", vec![])])),
                prim(v("Float", vec![v("F64", vec![])])),
            ],
        ),
        ("string", vec![prim(v("String", vec![]))]),
        ("copyRef", vec![prim(v("IpAddr", vec![])), prim(v("Prefix", vec![]))]),
        ("list", vec![v("List", vec![opaque()])]),
        ("runtime", vec![v("Runtime", vec![opaque()])]),
    ])
}

fn last_seg(p: &syn::Path) -> String {
    p.segments.last().map(|s| s.ident.to_string()).unwrap_or_default()
}

/// Does `p` match `val`? Bindings are appended to `binds`.
fn pat_matches(p: &syn::Pat, val: &V, binds: &mut Vec<(String, V)>) -> Result<bool, String> {
    use syn::Pat as P;
    Ok(match p {
        P::Wild(_) => true,
        P::Paren(q) => pat_matches(&q.pat, val, binds)?,
        P::Reference(q) => pat_matches(&q.pat, val, binds)?,
        P::Or(o) => {
            for c in &o.cases {
                if pat_matches(c, val, binds)? {
                    return Ok(true);
                }
            }
            false
        }
        P::Ident(i) => {
            if i.subpat.is_some() {
                return Err("`@` pattern".into());
            }
            let n = i.ident.to_string();
            if n.chars().next().is_some_and(|c| c.is_uppercase()) {
                if val.name == "?" {
                    return Err(format!("pattern {n} inspects an opaque payload"));
                }
                val.name == n && val.args.is_empty()
            } else {
                binds.push((n, val.clone()));
                true
            }
        }
        P::Path(q) => {
            if val.name == "?" {
                return Err(format!("pattern {} inspects an opaque payload", norm(q)));
            }
            val.name == last_seg(&q.path) && val.args.is_empty()
        }
        P::TupleStruct(ts) => {
            if val.name == "?" {
                return Err(format!("pattern {} inspects an opaque payload", norm(ts)));
            }
            if val.name != last_seg(&ts.path) {
                return Ok(false);
            }
            let elems: Vec<&syn::Pat> = ts.elems.iter().collect();
            let rest = elems.iter().position(|e| matches!(e, P::Rest(_)));
            match rest {
                None => {
                    if elems.len() != val.args.len() {
                        return Err(format!(
                            "pattern {} has {} fields, the model's value {} has {}",
                            norm(ts),
                            elems.len(),
                            val.name,
                            val.args.len()
                        ));
                    }
                    for (e, a) in elems.iter().zip(&val.args) {
                        if !pat_matches(e, a, binds)? {
                            return Ok(false);
                        }
                    }
                    true
                }
                Some(r) => {
                    let before = &elems[..r];
                    let after = &elems[r + 1..];
                    if before.len() + after.len() > val.args.len() {
                        return Err(format!("pattern {} is longer than the value", norm(ts)));
                    }
                    for (e, a) in before.iter().zip(&val.args) {
                        if !pat_matches(e, a, binds)? {
                            return Ok(false);
                        }
                    }
                    let off = val.args.len() - after.len();
                    for (e, a) in after.iter().zip(&val.args[off..]) {
                        if !pat_matches(e, a, binds)? {
                            return Ok(false);
                        }
                    }
                    true
                }
            }
        }
        other => return Err(format!("unsupported pattern {}", norm(other))),
    })
}

/// `f` on every member of every kind; all members of a kind must agree.
fn kind_table<T: PartialEq + Clone + std::fmt::Debug>(
    kinds: &[(&'static str, Vec<V>)],
    what: &str,
    f: &dyn Fn(&V) -> Result<T, String>,
) -> Result<Vec<(&'static str, T)>, String> {
    let mut out = vec![];
    for (k, members) in kinds {
        let mut res: Option<T> = None;
        for m in members {
            let r = f(m).map_err(|e| format!("{what}, {m:?}: {e}"))?;
            match &res {
                None => res = Some(r),
                Some(prev) if *prev == r => {}
                Some(prev) => {
                    return Err(format!(
                        "{what}: the members of the model's kind `{k}` are treated differently ({prev:?} vs {r:?} for {m:?}); refine RotoV.LayoutKind.Kind"
                    ))
                }
            }
        }
        out.push((*k, res.ok_or("empty kind")?));
    }
    Ok(out)
}

fn lean_table(name: &str, doc: &str, ty: &str, rows: &[(&'static str, String)]) -> String {
    let mut s = format!("/-- {doc} -/\ndef {name} : Kind → {ty}\n");
    for (k, r) in rows {
        s += &format!("  | .{k} => {r}\n");
    }
    s + "\n"
}

struct MatchesArgs {
    e: syn::Expr,
    p: syn::Pat,
}
impl syn::parse::Parse for MatchesArgs {
    fn parse(input: syn::parse::ParseStream) -> syn::Result<Self> {
        let e: syn::Expr = input.parse()?;
        input.parse::<syn::Token![,]>()?;
        let p = syn::Pat::parse_multi_with_leading_vert(input)?;
        if input.peek(syn::Token![if]) {
            return Err(input.error("guard in matches!"));
        }
        if input.peek(syn::Token![,]) {
            input.parse::<syn::Token![,]>()?;
        }
        Ok(MatchesArgs { e, p })
    }
}

/// One decision function being translated.
struct Dec<'a> {
    fname: &'a str,
    kinds: &'a [(&'static str, Vec<V>)],
    /// expressions that denote `self.get(ty)`
    kind_exprs: Vec<String>,
    /// emitted auxiliary tables
    defs: String,
    n_matches: usize,
}

impl Dec<'_> {
    fn is_kind_expr(&self, e: &syn::Expr) -> bool {
        let s = norm(e);
        self.kind_exprs.iter().any(|k| *k == s)
    }

    fn is_layout_expr(e: &syn::Expr) -> bool {
        let s = norm(e);
        s == "self.layout_of(ty,rt)" || s == "self.layout_of(ty)"
    }

    /// `l.size() == 0` and the like on a layout variable `var`: a Lean `Bool`
    fn layout_pred(var: &str, e: &syn::Expr) -> R {
        use syn::Expr as E;
        let side = |e: &syn::Expr| -> R {
            Ok(match e {
                E::Lit(l) => match &l.lit {
                    syn::Lit::Int(i) => i.base10_digits().to_string(),
                    o => return Err(format!("unsupported literal {}", norm(o))),
                },
                E::MethodCall(m) if m.args.is_empty() && norm(&m.receiver) == var => {
                    match m.method.to_string().as_str() {
                        "size" => format!("(Layout.get_size {var})"),
                        "align" => format!("(Layout.get_align {var})"),
                        "is_zero_sized" => format!("(Layout.is_zero_sized {var})"),
                        o => return Err(format!("unsupported layout method .{o}()")),
                    }
                }
                o => return Err(format!("unsupported operand `{}`", norm(o))),
            })
        };
        match e {
            E::Paren(p) => Self::layout_pred(var, &p.expr),
            E::Binary(b) => {
                let (l, r) = (side(&b.left)?, side(&b.right)?);
                Ok(match &b.op {
                    syn::BinOp::Eq(_) => format!("(decide ({l} = {r}))"),
                    syn::BinOp::Ne(_) => format!("(decide ({l} ≠ {r}))"),
                    syn::BinOp::Gt(_) => format!("(decide ({l} > {r}))"),
                    syn::BinOp::Lt(_) => format!("(decide ({l} < {r}))"),
                    o => return Err(format!("unsupported operator {}", norm(o))),
                })
            }
            E::MethodCall(_) => side(e),
            o => Err(format!("unsupported layout predicate `{}`", norm(o))),
        }
    }

    /// a Rust `bool` condition that may contain `?`: a Lean `Option Bool`
    /// (`none` = the `?` returned `None` from the function); `&&` / `||`
    /// keep their short-circuit, so a `?` on the right only fires when the
    /// left operand lets it be evaluated
    fn cond(&mut self, e: &syn::Expr) -> R {
        use syn::Expr as E;
        Ok(match e {
            E::Paren(p) => self.cond(&p.expr)?,
            E::Unary(u) if matches!(u.op, syn::UnOp::Not(_)) => {
                format!("(Option.map (fun b => !b) {})", self.cond(&u.expr)?)
            }
            E::Binary(b) if matches!(b.op, syn::BinOp::And(_)) => {
                let (l, r) = (self.cond(&b.left)?, self.cond(&b.right)?);
                format!("(match {l} with\n      | none => none\n      | some false => some false\n      | some true => {r})")
            }
            E::Binary(b) if matches!(b.op, syn::BinOp::Or(_)) => {
                let (l, r) = (self.cond(&b.left)?, self.cond(&b.right)?);
                format!("(match {l} with\n      | none => none\n      | some true => some true\n      | some false => {r})")
            }
            E::Macro(m) if norm(&m.mac.path) == "matches" => {
                let a: MatchesArgs = m.mac.parse_body().map_err(|e| format!("matches! body: {e}"))?;
                if !self.is_kind_expr(&a.e) {
                    return Err(format!("matches! on `{}` (expected the type's kind)", norm(&a.e)));
                }
                let rows = kind_table(self.kinds, &format!("matches!(.., {})", norm(&a.p)), &|val| {
                    pat_matches(&a.p, val, &mut vec![])
                })?;
                let name = format!("{}_matches{}", self.fname, self.n_matches);
                self.n_matches += 1;
                let rows: Vec<_> = rows.into_iter().map(|(k, b)| (k, b.to_string())).collect();
                self.defs += &lean_table(
                    &name,
                    &format!("`matches!({}, {})` in `{}`", norm(&a.e), norm(&a.p), self.fname),
                    "Bool",
                    &rows,
                );
                format!("(some ({name} k))")
            }
            // self.layout_of(ty, rt)?.size() == 0
            E::Binary(b) => {
                let mut lhs = &*b.left;
                while let E::Paren(p) = lhs {
                    lhs = &p.expr;
                }
                let E::MethodCall(m) = lhs else {
                    return Err(format!("unsupported condition `{}`", norm(e)));
                };
                let E::Try(t) = &*m.receiver else {
                    return Err(format!("unsupported condition `{}`", norm(e)));
                };
                if !Self::is_layout_expr(&t.expr) {
                    return Err(format!("`?` on `{}` (expected layout_of)", norm(&t.expr)));
                }
                // the same comparison with the layout bound to `l`
                let mut m2 = m.clone();
                m2.receiver = Box::new(syn::parse_quote!(l));
                let mut b2 = b.clone();
                b2.left = Box::new(E::MethodCall(m2));
                let p = Self::layout_pred("l", &E::Binary(b2))?;
                format!("(match lay with\n      | none => none\n      | some l => some {p})")
            }
            // self.layout_of(ty).is_some_and(|l| l.size() == 0)
            E::MethodCall(m) if m.method == "is_some_and" && m.args.len() == 1 => {
                if !Self::is_layout_expr(&m.receiver) {
                    return Err(format!("is_some_and on `{}` (expected layout_of)", norm(&m.receiver)));
                }
                let E::Closure(c) = &m.args[0] else {
                    return Err("is_some_and without a closure".into());
                };
                if c.inputs.len() != 1 {
                    return Err("closure arity".into());
                }
                let var = norm(&c.inputs[0]);
                let p = Self::layout_pred(&var, &c.body)?;
                format!("(some (match lay with\n      | none => false\n      | some {var} => {p}))")
            }
            o => return Err(format!("unsupported condition `{}`", norm(o))),
        })
    }
}

/// `if C { return X; }` with no else: (C, X)
fn guard_return(st: &syn::Stmt) -> Result<(&syn::Expr, &syn::Expr), String> {
    let syn::Stmt::Expr(syn::Expr::If(i), _) = st else {
        return Err(format!("expected `if … {{ return …; }}`, found `{}`", norm(st)));
    };
    if i.else_branch.is_some() || i.then_branch.stmts.len() != 1 {
        return Err("guard with else / several statements".into());
    }
    let syn::Stmt::Expr(syn::Expr::Return(r), _) = &i.then_branch.stmts[0] else {
        return Err("guard body is not a return".into());
    };
    let x = r.expr.as_ref().ok_or("return without value")?;
    Ok((&i.cond, x))
}

/// class (`int` / `float` / `pointer`) of every `IrType`, from the
/// `match ir_ty` of `call_eq_of`: the arm that emits `IntCmp`, the one that
/// emits `FloatCmp`, and the `Pointer` arm that goes on to the eq functions
fn ir_classes(repo: &Path) -> Result<Vec<(String, &'static str)>, String> {
    let rel = "src/lir/lower/eq.rs";
    let file = find::parse(repo, rel)?;
    let f = find::func(&file, "call_eq_of", Some("Lowerer"))?;
    let ms = find::matches_on(&f.block, "ir_ty");
    if ms.len() != 1 {
        return Err(format!("call_eq_of: expected one `match ir_ty`, found {}", ms.len()));
    }
    fn names(p: &syn::Pat, out: &mut Vec<String>) -> Result<(), String> {
        match p {
            syn::Pat::Or(o) => {
                for c in &o.cases {
                    names(c, out)?;
                }
            }
            syn::Pat::Path(q) => out.push(last_seg(&q.path)),
            syn::Pat::Ident(i) => out.push(i.ident.to_string()),
            o => return Err(format!("call_eq_of: unsupported IrType pattern {}", norm(o))),
        }
        Ok(())
    }
    let mut out = vec![];
    for a in &ms[0].arms {
        if a.guard.is_some() {
            return Err("call_eq_of: guarded IrType arm".into());
        }
        let mut ns = vec![];
        names(&a.pat, &mut ns)?;
        let body = norm(&a.body);
        let (ic, fc) = (body.contains("Instruction::IntCmp"), body.contains("Instruction::FloatCmp"));
        let class = match (ic, fc) {
            (true, false) => "int",
            (false, true) => "float",
            (false, false) if body == "{}" => "pointer",
            _ => return Err(format!("call_eq_of: cannot classify the arm for {ns:?}")),
        };
        for n in ns {
            out.push((n, class));
        }
    }
    Ok(out)
}

enum Flow {
    Return(String),
    Break(String),
    Fall,
}

/// `IrType::X` → `X`
fn ir_name(e: &syn::Expr) -> Result<String, String> {
    match e {
        syn::Expr::Path(p) if p.path.segments.len() == 2 && p.path.segments[0].ident == "IrType" => {
            Ok(last_seg(&p.path))
        }
        o => Err(format!("expected an IrType, found `{}`", norm(o))),
    }
}

/// Run the statements of an `if let` body of `lower_type` for one concrete
/// value (bindings in `binds`).
fn eval_block(b: &syn::Block, binds: &[(String, V)]) -> Result<Flow, String> {
    use syn::Expr as E;
    for st in &b.stmts {
        match st {
            syn::Stmt::Item(syn::Item::Use(_)) => {}
            syn::Stmt::Expr(E::Block(bl), _) => match eval_block(&bl.block, binds)? {
                Flow::Return(x) => return Ok(Flow::Return(x)),
                Flow::Break(l) => {
                    let mine = bl.label.as_ref().map(|l| l.name.ident.to_string());
                    if mine.as_deref() != Some(l.as_str()) {
                        return Ok(Flow::Break(l));
                    }
                }
                Flow::Fall => {}
            },
            syn::Stmt::Expr(E::Return(r), _) => {
                let x = r.expr.as_ref().ok_or("return without value")?;
                let E::Call(c) = &**x else {
                    return Err(format!("unsupported return value `{}`", norm(x)));
                };
                if norm(&c.func) != "Some" || c.args.len() != 1 {
                    return Err(format!("unsupported return value `{}`", norm(x)));
                }
                return match &c.args[0] {
                    E::Match(m) => {
                        let sc = norm(&m.expr);
                        let val = binds
                            .iter()
                            .rev()
                            .find(|(n, _)| *n == sc)
                            .map(|(_, v)| v.clone())
                            .ok_or(format!("match on `{sc}`, which no pattern bound"))?;
                        for a in &m.arms {
                            if a.guard.is_some() {
                                return Err("guarded arm".into());
                            }
                            if pat_matches(&a.pat, &val, &mut vec![])? {
                                return match &*a.body {
                                    E::Break(br) if br.expr.is_none() => Ok(Flow::Break(
                                        br.label.as_ref().ok_or("break without label")?.ident.to_string(),
                                    )),
                                    other => Ok(Flow::Return(ir_name(other)?)),
                                };
                            }
                        }
                        Err(format!("no arm matches {val:?}"))
                    }
                    other => Ok(Flow::Return(ir_name(other)?)),
                };
            }
            other => return Err(format!("unsupported statement `{}`", norm(other))),
        }
    }
    Ok(Flow::Fall)
}

fn layoutdecide(repo: &Path) -> R {
    let kinds = kinds(repo)?;
    let classes = ir_classes(repo)?;
    let class_of = |ir: &str| -> Result<&'static str, String> {
        classes
            .iter()
            .find(|(n, _)| n == ir)
            .map(|(_, c)| *c)
            .ok_or(format!("IrType::{ir} has no arm in call_eq_of's `match ir_ty`"))
    };
    let mut s = String::from(
        "/- GENERATED by /verif/extract from src/mir/ty.rs (Pool::is_reference_type), src/lir/lower.rs (Lowerer::lower_type), src/lir/lower/eq.rs (call_eq_of) — do not edit. -/\nimport RotoV.Model.LayoutKind\nimport RotoV.Generated.LayoutGen\nset_option linter.unusedVariables false\nnamespace RotoV.Gen.LayoutDecide\nopen RotoV RotoV.LayoutKind RotoV.Gen.LayoutGen\n\n",
    );

    // ---- Pool::is_reference_type ----
    {
        let rel = "src/mir/ty.rs";
        let file = find::parse(repo, rel)?;
        let f = find::func(&file, "is_reference_type", Some("Pool"))?;
        let e = |m: String| format!("{rel}::is_reference_type: {m}");
        let st = &f.block.stmts;
        if st.len() != 3 {
            return Err(e(format!("expected guard; let res = match …; Some(res) — found {} statements", st.len())));
        }
        let mut d = Dec {
            fname: "is_reference_type",
            kinds: &kinds,
            kind_exprs: vec!["self.get(ty)".into()],
            defs: String::new(),
            n_matches: 0,
        };
        let (c, x) = guard_return(&st[0]).map_err(e)?;
        let c = d.cond(c).map_err(e)?;
        let x = match norm(x).as_str() {
            "Some(false)" => "some false",
            "Some(true)" => "some true",
            "None" => "none",
            o => return Err(e(format!("unsupported early return {o}"))),
        };
        // let res = match self.get(ty) { … };
        let syn::Stmt::Local(l) = &st[1] else {
            return Err(e("second statement is not a let".into()));
        };
        let res_name = norm(&l.pat);
        let init = l.init.as_ref().ok_or_else(|| e("let without initialiser".into()))?;
        let syn::Expr::Match(m) = &*init.expr else {
            return Err(e("let initialiser is not a match".into()));
        };
        if !d.is_kind_expr(&m.expr) {
            return Err(e(format!("match on `{}`", norm(&m.expr))));
        }
        let syn::Stmt::Expr(tail, None) = &st[2] else {
            return Err(e("no tail expression".into()));
        };
        if norm(tail) != format!("Some({res_name})") {
            return Err(e(format!("tail is `{}`", norm(tail))));
        }
        let rows = kind_table(&kinds, "is_reference_type arms", &|val| {
            for a in &m.arms {
                if a.guard.is_some() {
                    return Err("guarded arm".into());
                }
                if pat_matches(&a.pat, val, &mut vec![])? {
                    return Ok(match norm(&a.body).as_str() {
                        "true" => "some true".to_string(),
                        "false" => "some false".to_string(),
                        "returnNone" => "none".to_string(),
                        o => return Err(format!("unsupported arm body `{o}`")),
                    });
                }
            }
            Err("no arm matches".into())
        })
        .map_err(e)?;
        s += &d.defs;
        s += &lean_table(
            "is_reference_type_arms",
            "`match self.get(ty) { … }` of `Pool::is_reference_type`; `none` = `return None`",
            "Option Bool",
            &rows,
        );
        s += &format!(
            "/-- `Pool::is_reference_type` (src/mir/ty.rs) on a type of kind `k` whose\n    `layout_of` is `lay`; `none` = uninhabited -/\ndef is_reference_type (k : Kind) (lay : Option Layout) : Option Bool :=\n  match {c} with\n  | none => none\n  | some true => {x}\n  | some false => is_reference_type_arms k\n\n"
        );
    }

    // ---- the class of each IrType ----
    s += "/-- the class `call_eq_of` (src/lir/lower/eq.rs) puts each `IrType` in:\n";
    for (n, c) in &classes {
        s += &format!("    `{n}` ↦ {c};");
    }
    s += " -/\ndef ir_classes : List (String × IrClass) :=\n  [";
    s += &classes
        .iter()
        .map(|(n, c)| format!("(\"{n}\", .{c})"))
        .collect::<Vec<_>>()
        .join(", ");
    s += "]\n\n";

    // ---- Lowerer::lower_type ----
    {
        let rel = "src/lir/lower.rs";
        let file = find::parse(repo, rel)?;
        let f = find::func(&file, "lower_type", Some("Lowerer"))?;
        let e = |m: String| format!("{rel}::lower_type: {m}");
        let st = &f.block.stmts;
        if st.len() < 3 {
            return Err(e("too few statements".into()));
        }
        let mut d = Dec {
            fname: "lower_type",
            kinds: &kinds,
            kind_exprs: vec!["self.ctx.type_info.ty_pool.get(ty)".into(), "self.get(ty)".into()],
            defs: String::new(),
            n_matches: 0,
        };
        let (c, x) = guard_return(&st[0]).map_err(e)?;
        let c = d.cond(c).map_err(e)?;
        if norm(x) != "None" {
            return Err(e(format!("unsupported early return {}", norm(x))));
        }
        // let ty_kind = self.ctx.type_info.ty_pool.get(ty);
        let syn::Stmt::Local(l) = &st[1] else {
            return Err(e("second statement is not a let".into()));
        };
        let alias = norm(&l.pat);
        let init = l.init.as_ref().ok_or_else(|| e("let without initialiser".into()))?;
        if !d.is_kind_expr(&init.expr) {
            return Err(e(format!("`{alias}` is `{}`", norm(&init.expr))));
        }
        // if let PAT = ty_kind { … return Some(IrType) … }   (in order)
        let chain = &st[2..st.len() - 1];
        let mut iflets = vec![];
        for c in chain {
            let syn::Stmt::Expr(syn::Expr::If(i), _) = c else {
                return Err(e(format!("unsupported statement `{}`", norm(c))));
            };
            let syn::Expr::Let(le) = &*i.cond else {
                return Err(e(format!("unsupported condition `{}`", norm(&i.cond))));
            };
            if norm(&le.expr) != alias || i.else_branch.is_some() {
                return Err(e(format!("unsupported `if let` on `{}`", norm(&le.expr))));
            }
            iflets.push((&*le.pat, &i.then_branch));
        }
        let rows = kind_table(&kinds, "lower_type `if let` chain", &|val| {
            for (p, b) in &iflets {
                let mut binds = vec![];
                if pat_matches(p, val, &mut binds)? {
                    match eval_block(b, &binds)? {
                        Flow::Return(ir) => return Ok(format!("some .{}", class_of(&ir)?)),
                        Flow::Break(l) => return Err(format!("break '{l} leaves the if-let")),
                        Flow::Fall => {}
                    }
                }
            }
            Ok("none".to_string())
        })
        .map_err(e)?;
        // Some(match ty { x if self.is_reference_type(x)? => IrType::Pointer, _ => ice!(…) })
        let syn::Stmt::Expr(tail, None) = &st[st.len() - 1] else {
            return Err(e("no tail expression".into()));
        };
        let tail_ir = (|| -> Result<String, String> {
            let syn::Expr::Call(c) = tail else { return Err("tail is not Some(…)".into()) };
            if norm(&c.func) != "Some" || c.args.len() != 1 {
                return Err("tail is not Some(…)".into());
            }
            let syn::Expr::Match(m) = &c.args[0] else { return Err("tail is not Some(match …)".into()) };
            if norm(&m.expr) != "ty" || m.arms.len() != 2 {
                return Err("tail match shape".into());
            }
            let a0 = &m.arms[0];
            let var = norm(&a0.pat);
            let g = a0.guard.as_ref().map(|(_, g)| norm(g)).unwrap_or_default();
            if g != format!("self.is_reference_type({var})?") {
                return Err(format!("tail guard is `{g}`"));
            }
            let a1 = &m.arms[1];
            if !matches!(a1.pat, syn::Pat::Wild(_)) || a1.guard.is_some() || !norm(&a1.body).starts_with("ice!") {
                return Err("tail default arm is not `_ => ice!(…)`".into());
            }
            ir_name(&a0.body)
        })()
        .map_err(e)?;
        let tail_class = class_of(&tail_ir).map_err(e)?;
        s += &d.defs;
        s += &lean_table(
            "lower_type_early",
            "the `if let … = ty_kind { return Some(…) }` chain of `Lowerer::lower_type`: the class of the `IrType` returned, `none` = falls through to the final `match`",
            "Option IrClass",
            &rows,
        );
        s += &format!(
            "/-- `Lowerer::lower_type` (src/lir/lower.rs) on a type of kind `k` whose\n    `layout_of` is `lay` and whose `is_reference_type` is `isRef`; `ok none` =\n    no IR value, `panic` = the final `ice!` -/\ndef lower_type (k : Kind) (lay : Option Layout) (isRef : Option Bool) : Res (Option IrClass) :=\n  match {c} with\n  | none => .ok none\n  | some true => .ok none\n  | some false =>\n    match lower_type_early k with\n    | some c => .ok (some c)\n    | none =>\n      match isRef with\n      | none => .ok none\n      | some true => .ok (some .{tail_class})\n      | some false => .panic\n\n"
        );
    }
    s += "end RotoV.Gen.LayoutDecide\n";
    Ok(s)
}

// ───────────────────────── layoutlisteq ─────────────────────────

fn is_hook_attr(a: &syn::Attribute) -> bool {
    a.path().is_ident("cfg") && norm(&a.meta).contains("feature=\"verif-hooks\"")
}

/// the statements of a block without the cfg-guarded verification hooks
/// (they do not exist in a normal build)
fn real_stmts(stmts: &[syn::Stmt]) -> Vec<&syn::Stmt> {
    use syn::{Expr as E, Stmt};
    stmts
        .iter()
        .filter(|s| {
            let attrs: &[syn::Attribute] = match s {
                Stmt::Local(l) => &l.attrs,
                Stmt::Macro(m) => &m.attrs,
                Stmt::Expr(e, _) => match e {
                    E::Call(c) => &c.attrs,
                    E::MethodCall(c) => &c.attrs,
                    E::Block(b) => &b.attrs,
                    E::Macro(m) => &m.attrs,
                    E::Unsafe(u) => &u.attrs,
                    E::If(i) => &i.attrs,
                    _ => &[],
                },
                Stmt::Item(_) => &[],
            };
            !attrs.iter().any(is_hook_attr)
        })
        .collect()
}

/// `if <cond> { return <val>; }` (no else) → (cond, val), both normalised
fn if_return(st: &syn::Stmt) -> Option<(String, String)> {
    let syn::Stmt::Expr(syn::Expr::If(i), _) = st else { return None };
    if i.else_branch.is_some() || i.then_branch.stmts.len() != 1 {
        return None;
    }
    let syn::Stmt::Expr(syn::Expr::Return(r), _) = &i.then_branch.stmts[0] else { return None };
    Some((norm(&i.cond), r.expr.as_ref().map(|e| norm(e)).unwrap_or_default()))
}

/// `for i in 0..<recv>.len() { let e1 = <recv>.get(i).unwrap(); [let e2 =
/// <other>.get(i).unwrap();] let is_eq = unsafe { (<recv>.vtable.eq_fn)(e1.as_ptr(),
/// <e2|item>.as_ptr()) }; if [!]is_eq { return <val>; } }`
/// → (second operand: Some(other list) | None = the item, exit when is_eq = .., returned value)
fn eq_loop(st: &syn::Stmt, recv: &str) -> Result<(Option<String>, bool, String), String> {
    let syn::Stmt::Expr(syn::Expr::ForLoop(f), _) = st else {
        return Err(format!("expected the element loop, found `{}`", norm(st)));
    };
    let i = norm(&f.pat);
    if norm(&f.expr) != format!("0..{recv}.len()") {
        return Err(format!("the element loop runs over `{}`, not over 0..{recv}.len()", norm(&f.expr)));
    }
    let body: Vec<String> = real_stmts(&f.body.stmts).iter().map(|s| norm(*s)).collect();
    let get = |l: &str| format!("={l}.get({i}).unwrap();");
    let (second, rest) = match body.as_slice() {
        [a, b, rest @ ..] if a.starts_with("let") && a.ends_with(&get(recv)) && b.starts_with("let") && b.contains(".get(") => {
            let other = b.split_once('=').map(|x| x.1).and_then(|r| r.strip_suffix(&format!(".get({i}).unwrap();"))).map(|s| s.to_string());
            let Some(other) = other else { return Err(format!("second element is `{b}`")) };
            let (e1, e2) = (a[3..].split('=').next().unwrap_or("").to_string(), b[3..].split('=').next().unwrap_or("").to_string());
            (Some((other, e1, e2)), rest)
        }
        [a, rest @ ..] if a.starts_with("let") && a.ends_with(&get(recv)) => {
            let e1 = a[3..].split('=').next().unwrap_or("").to_string();
            (Some((String::new(), e1, "item".to_string())), rest)
        }
        _ => return Err(format!("the element loop does not start by taking the element address: {body:?}")),
    };
    let (other, e1, e2) = second.unwrap();
    let [call, test] = rest else {
        return Err(format!("the element loop has other statements than the eq_fn call and its test: {rest:?}"));
    };
    let want = format!("letis_eq=unsafe{{({recv}.vtable.eq_fn)({e1}.as_ptr(),{e2}.as_ptr())}};");
    if *call != want {
        return Err(format!("the elements are not compared by the element type's eq_fn on their addresses: `{call}` (expected `{want}`)"));
    }
    let (when, val) = if let Some(v) = test.strip_prefix("if!is_eq{return").and_then(|r| r.strip_suffix(";}")) {
        (false, v.to_string())
    } else if let Some(v) = test.strip_prefix("ifis_eq{return").and_then(|r| r.strip_suffix(";}")) {
        (true, v.to_string())
    } else {
        return Err(format!("unsupported test of the comparison result `{test}`"));
    };
    Ok((if other.is_empty() { None } else { Some(other) }, when, val))
}

fn layoutlisteq(repo: &Path) -> R {
    const SRC: &str = "src/value/list.rs";
    let file = find::parse(repo, SRC)?;
    let mut s = String::from(
        "/- GENERATED by /verif/extract from src/value/list.rs — do not edit. -/\nimport RotoV.Model.LayoutListStd\nnamespace RotoV.Gen.LayoutListEq\nopen RotoV.Layout\n\n",
    );
    let bool_of = |v: &str, who: &str| -> Result<&'static str, String> {
        match v {
            "true" => Ok("true"),
            "false" => Ok("false"),
            o => Err(format!("{who}: returns `{o}`, not a boolean constant")),
        }
    };
    // ---- RawList::offset_of, RawList::get
    {
        let f = find::func(&file, "offset_of", Some("RawList"))?;
        let st = real_stmts(&f.block.stmts);
        let n = match f.sig.inputs.iter().nth(1) {
            Some(syn::FnArg::Typed(t)) => norm(&t.pat),
            _ => return Err("RawList::offset_of: expected (&self, n)".into()),
        };
        let [syn::Stmt::Expr(syn::Expr::Binary(b), None)] = st.as_slice() else {
            return Err(format!("RawList::offset_of: body is not one product: {:?}", st.iter().map(|s| norm(*s)).collect::<Vec<_>>()));
        };
        let term = |e: &syn::Expr| -> R {
            let t = norm(e);
            if t == "self.vtable.size()" {
                Ok("size".into())
            } else if t == n {
                Ok("n".into())
            } else {
                Err(format!("RawList::offset_of: unsupported operand `{t}`"))
            }
        };
        if !matches!(b.op, syn::BinOp::Mul(_)) {
            return Err(format!("RawList::offset_of: unsupported operator in `{}`", norm(b)));
        }
        s += &format!(
            "/-- `RawList::offset_of`: byte offset of element `n` (`size` = `self.vtable.size()`) -/\ndef offsetOf (size n : Nat) : Nat := {} * {}\n\n",
            term(&b.left)?,
            term(&b.right)?
        );
        let f = find::func(&file, "get", Some("RawList"))?;
        let st: Vec<String> = real_stmts(&f.block.stmts).iter().map(|s| norm(*s)).collect();
        let want = ["ifidx>=self.len{returnNone;}", "letoffset=self.offset_of(idx);", "letptr=unsafe{self.ptr.byte_add(offset)};", "Some(ptr)"];
        if st != want {
            return Err(format!("RawList::get: expected the bounds test, offset_of(idx), ptr.byte_add(offset) — found {st:?}"));
        }
        s += "/-- `RawList::get`: `None` when `idx >= self.len`, else the address `ptr + offset_of(idx)` -/\ndef rawGet (size ptr len idx : Nat) : Option Nat :=\n  if idx ≥ len then none else some (ptr + offsetOf size idx)\n\n";
    }
    // ---- impl PartialEq for ErasedList
    {
        let f = find::func(&file, "eq", Some("PartialEq for ErasedList"))?;
        let who = "ErasedList::eq";
        let mut steps: Vec<String> = vec![];
        let st = real_stmts(&f.block.stmts);
        let mut locked = false;
        for (k, x) in st.iter().enumerate() {
            let n = norm(*x);
            if let Some((c, v)) = if_return(x) {
                if c == "Arc::ptr_eq(&self.0,&other.0)" && v == "true" && !locked {
                    steps.push(".ptrEqReturn true".into());
                    continue;
                }
                if (c == "this.len!=other.len" || c == "this.len()!=other.len()") && locked {
                    steps.push(format!(".lenMismatchReturn {}", bool_of(&v, who)?));
                    continue;
                }
                return Err(format!("{who}: statement outside the subset: `if {c} {{ return {v}; }}`"));
            }
            if let syn::Stmt::Local(l) = x {
                if norm(&l.pat) == "(this,other)" && !locked {
                    let Some(init) = &l.init else { return Err(format!("{who}: `{n}`")) };
                    let syn::Expr::If(i) = &*init.expr else { return Err(format!("{who}: the locks are not taken in an address-ordered if/else: `{n}`")) };
                    let Some((_, els)) = &i.else_branch else { return Err(format!("{who}: no else branch in `{n}`")) };
                    let syn::Expr::Block(eb) = &**els else { return Err(format!("{who}: else branch of `{n}`")) };
                    for br in [&i.then_branch, &eb.block] {
                        let mut b: Vec<String> = real_stmts(&br.stmts).iter().map(|s| norm(*s)).collect();
                        if b.pop().as_deref() != Some("(this,other)") {
                            return Err(format!("{who}: a lock branch does not end in (this, other)"));
                        }
                        b.sort();
                        if b != ["letother=other.0.lock().unwrap();", "letthis=self.0.lock().unwrap();"] {
                            return Err(format!("{who}: a lock branch does more than lock self as `this` and other as `other`: {b:?}"));
                        }
                    }
                    locked = true;
                    steps.push(".lockBoth".into());
                    continue;
                }
                return Err(format!("{who}: statement outside the subset: `{n}`"));
            }
            if matches!(x, syn::Stmt::Expr(syn::Expr::ForLoop(_), _)) && locked {
                let (second, when, val) = eq_loop(x, "this").map_err(|e| format!("{who}: {e}"))?;
                if second.as_deref() != Some("other") {
                    return Err(format!("{who}: the loop does not pair the elements of `this` with those of `other`"));
                }
                steps.push(format!(".forEachPair {when} {}", bool_of(&val, who)?));
                continue;
            }
            if k + 1 == st.len() {
                if let syn::Stmt::Expr(e, None) = x {
                    steps.push(format!(".ret {}", bool_of(&norm(e), who)?));
                    continue;
                }
            }
            return Err(format!("{who}: statement outside the subset (the elements of a list are compared by the element type's eq_fn only): `{}`", n.chars().take(160).collect::<String>()));
        }
        s += &format!(
            "/-- `impl PartialEq for ErasedList` (`==` / `!=` on Roto lists), statement by statement -/\ndef erasedEqSteps : List ListStep := [{}]\n\n",
            steps.join(", ")
        );
    }
    // ---- RawList::contains / RawList::index
    for (name, lean, found_true, found, missing) in [
        ("contains", "containsSteps", "true", ".found", ".missing"),
        ("index", "indexSteps", "Some(i)", ".foundAt", ".missingAt"),
    ] {
        let who = format!("RawList::{name}");
        let f = find::func(&file, name, Some("RawList"))?;
        let st = real_stmts(&f.block.stmts);
        let [lp, tail] = st.as_slice() else {
            return Err(format!("{who}: expected the element loop and the final value, found {:?}", st.iter().map(|s| norm(*s)).collect::<Vec<_>>()));
        };
        let (second, when, val) = eq_loop(lp, "self").map_err(|e| format!("{who}: {e}"))?;
        if second.is_some() || !when || val != found_true {
            return Err(format!("{who}: the loop is not `if is_eq {{ return {found_true}; }}` on (element, item)"));
        }
        let t = norm(*tail);
        let want_tail = if name == "contains" { "false" } else { "None" };
        if t != want_tail {
            return Err(format!("{who}: final value `{t}`, expected `{want_tail}`"));
        }
        s += &format!(
            "/-- `{who}`: every element address and the item's go to the element type's eq_fn; first hit returns -/\ndef {lean} : List ScanStep := [.forEachItem {found}, .ret {missing}]\n\n"
        );
    }
    s += &vtable_wiring(repo)?;
    s += "end RotoV.Gen.LayoutListEq\n";
    Ok(s)
}

struct BranchFinder(bool);
impl<'ast> syn::visit::Visit<'ast> for BranchFinder {
    fn visit_expr_if(&mut self, _: &'ast syn::ExprIf) {
        self.0 = true;
    }
    fn visit_expr_match(&mut self, _: &'ast syn::ExprMatch) {
        self.0 = true;
    }
}

/// The vtable `Lowerer::call_runtime` (src/lir/lower.rs) builds for every type
/// parameter of a runtime function (the list methods): which value goes into
/// which field of `struct VTable` (src/value/vtable.rs).
fn vtable_wiring(repo: &Path) -> R {
    use syn::visit::Visit;
    let who = "Lowerer::call_runtime";
    let vt = find::parse(repo, "src/value/vtable.rs")?;
    let fields = find::struct_fields(&vt, "VTable")?;
    let mut lean_fields = vec![];
    for (n, _) in &fields {
        lean_fields.push(match n.as_str() {
            "size" => ".size",
            "align" => ".align",
            "clone_fn" => ".cloneFn",
            "drop_fn" => ".dropFn",
            "eq_fn" => ".eqFn",
            o => return Err(format!("struct VTable: unknown field `{o}`")),
        });
    }
    let file = find::parse(repo, "src/lir/lower.rs")?;
    let f = find::func(&file, "call_runtime", Some("Lowerer"))?;
    let lp = real_stmts(&f.block.stmts)
        .into_iter()
        .find_map(|st| match st {
            syn::Stmt::Expr(syn::Expr::ForLoop(l), _) if norm(&l.expr) == "vtables.iter().enumerate()" => Some(l.clone()),
            _ => None,
        })
        .ok_or(format!("{who}: no `for … in vtables.iter().enumerate()`"))?;
    if norm(&lp.pat) != "(i,&ty_ref)" {
        return Err(format!("{who}: the vtable loop binds `{}`", norm(&lp.pat)));
    }
    let mut locals: Vec<(String, syn::Expr)> = vec![];
    let mut writes: Vec<String> = vec![];
    let mut adds = 0usize;
    let gen_name = |e: &syn::Expr, kind: &str| norm(e).contains(&format!("name:format!(\"::generated::{kind}_{{type_id}}\").into()"));
    let null = "{Operand::Value(crate::lir::IrValue::Pointer(0))}";
    for st in real_stmts(&lp.body.stmts) {
        match st {
            syn::Stmt::Local(l) => {
                let name = norm(&l.pat);
                let Some(init) = &l.init else { return Err(format!("{who}: `{}`", norm(st))) };
                if name == "offset" {
                    let t = norm(&init.expr);
                    if t != "builder.add(&Layout::of::<usize>())" && t != "builder.add(&Layout::of::<*mut()>())" {
                        return Err(format!("{who}: a vtable field is placed by `{t}`, not as one pointer-sized field"));
                    }
                    adds += 1;
                }
                locals.push((name, (*init.expr).clone()));
            }
            syn::Stmt::Expr(syn::Expr::MethodCall(m), _) if m.method == "emit_write" && norm(&m.receiver) == "self" => {
                if m.args.len() != 2 || norm(&m.args[0]) != "dst" {
                    return Err(format!("{who}: unsupported write `{}`", norm(st)));
                }
                if adds != writes.len() + 1 {
                    return Err(format!("{who}: write {} does not follow its own `builder.add`", writes.len()));
                }
                let v = norm(&m.args[1]).replace(",)", ")");
                let slot = if v == "Operand::Value(crate::lir::IrValue::Pointer(ty_layout.size()))" {
                    ".layoutSize".to_string()
                } else if v == "Operand::Value(crate::lir::IrValue::Pointer(ty_layout.align()))" {
                    ".layoutAlign".to_string()
                } else {
                    let Some((_, e)) = locals.iter().rev().find(|(n, _)| *n == v) else {
                        return Err(format!("{who}: a vtable field receives `{v}`"));
                    };
                    let mut slot = None;
                    for (kind, cond, lean, lcond) in [
                        ("clone", "self.needs_clone(ty_ref)", ".clone", ".needsClone"),
                        ("drop", "self.needs_drop(ty_ref)", ".drop", ".needsDrop"),
                        ("eq", "", ".eq", ""),
                    ] {
                        if !gen_name(e, kind) {
                            continue;
                        }
                        match e {
                            syn::Expr::If(i) if !cond.is_empty() => {
                                let els = i.else_branch.as_ref().map(|x| norm(&x.1)).unwrap_or_default();
                                if norm(&i.cond) != cond || els != null {
                                    return Err(format!("{who}: `{v}` is not `if {cond} {{ address }} else {{ null }}`"));
                                }
                                let mut bf = BranchFinder(false);
                                bf.visit_block(&i.then_branch);
                                if bf.0 {
                                    return Err(format!("{who}: `{v}` branches further"));
                                }
                                slot = Some(format!(".generated {lean} (some {lcond})"));
                            }
                            syn::Expr::Block(b) if cond.is_empty() => {
                                let mut bf = BranchFinder(false);
                                bf.visit_block(&b.block);
                                if bf.0 {
                                    return Err(format!("{who}: the address of the generated {kind} function is chosen under a condition"));
                                }
                                slot = Some(format!(".generated {lean} none"));
                            }
                            _ => {
                                return Err(format!(
                                    "{who}: `{v}` (generated {kind} function) has another shape than in the subset: `{}`",
                                    norm(e).chars().take(120).collect::<String>()
                                ))
                            }
                        }
                    }
                    slot.ok_or(format!("{who}: `{v}` is not the address of a generated clone / drop / eq function of `type_id`"))?
                };
                writes.push(slot);
            }
            syn::Stmt::Expr(syn::Expr::MethodCall(m), _) if matches!(m.method.to_string().as_str(), "push") => {}
            other => return Err(format!("{who}: statement outside the subset in the vtable loop: `{}`", norm(other).chars().take(120).collect::<String>())),
        }
    }
    let want = |n: &str, t: &str| -> Result<(), String> {
        match locals.iter().find(|(x, _)| x == n) {
            Some((_, e)) if norm(e) == t => Ok(()),
            Some((_, e)) => Err(format!("{who}: `{n}` is `{}`, expected `{t}`", norm(e))),
            None => Err(format!("{who}: no `let {n}`")),
        }
    };
    want("type_id", "ty_ref.type_id()")?;
    want("ty_layout", "self.layout_of(ty_ref).unwrap_or(Layout::of::<()>())")?;
    if writes.len() != lean_fields.len() {
        return Err(format!("{who}: {} vtable writes for {} fields of struct VTable", writes.len(), lean_fields.len()));
    }
    Ok(format!(
        "/-- `struct VTable` (src/value/vtable.rs), fields in declaration order -/\ndef vtableFields : List VtField := [{}]\n\n/-- `Lowerer::call_runtime` (src/lir/lower.rs): what is written into the vtable of a type\n    parameter `ty_ref`, one pointer-sized field after the other -/\ndef vtableWrites : List VtSlot := [{}]\n\n",
        lean_fields.join(", "),
        writes.join(", ")
    ))
}


// ───────────────────────── matchexaminee ─────────────────────────

/// `matchexaminee` → `Generated/ValueMatchGen.lean`: how `Lowerer::match`
/// (src/mir/lower/match_expr.rs) obtains the variable it reads the
/// discriminant and — per candidate arm, after the guards of the earlier
/// arms — the pattern bindings from: one `ExStep` per `let examinee = …;`
/// statement of the function body, in order. Subset: `self.expr(<e>)`
/// (`evalExpr`) and `self.assign_to_var(examinee, <ty>)` (`assignToVar`);
/// anything else (a `match` on the value, a conditional copy, …) is an
/// extraction failure. Also demanded: the discriminant is
/// `Value::Discriminant(examinee…)`, every `self.match_case(…)` receives
/// `examinee` as its first argument, and `match_case` extracts each binding
/// as `Value::Clone(Place { var: examinee.clone(), …VariantField… })` of its
/// first parameter.
fn matchexaminee(repo: &Path) -> R {
    use syn::visit::Visit;
    let rel = "src/mir/lower/match_expr.rs";
    let file = find::parse(repo, rel)?;
    let f = find::func(&file, "r#match", Some("Lowerer")).or_else(|_| find::func(&file, "match", Some("Lowerer")))?;
    let hooked = |attrs: &[syn::Attribute]| attrs.iter().any(|a| norm(a).contains("verif-hooks"));
    let mut steps: Vec<&str> = vec![];
    for st in &f.block.stmts {
        let syn::Stmt::Local(l) = st else { continue };
        if hooked(&l.attrs) {
            continue;
        }
        let name = match &l.pat {
            syn::Pat::Ident(i) => i.ident.to_string(),
            syn::Pat::Type(t) => norm(&t.pat),
            other => norm(other),
        };
        if name != "examinee" {
            continue;
        }
        let Some(init) = &l.init else { return Err(format!("{rel}::match: `let examinee;` without initialiser")) };
        if init.diverge.is_some() {
            return Err(format!("{rel}::match: `let examinee = … else` is outside the subset"));
        }
        let e = norm(&init.expr);
        if e.starts_with("self.expr(") && e.ends_with(')') && e.matches("self.").count() == 1 {
            steps.push(".evalExpr");
        } else if e.starts_with("self.assign_to_var(examinee,") && e.ends_with(')') && e.matches("self.").count() == 1 {
            steps.push(".assignToVar");
        } else {
            return Err(format!(
                "{rel}::match: `let examinee = {e};` is outside the subset (self.expr(..) / self.assign_to_var(examinee, ..)): how the examinee of a match is held must be re-modelled"
            ));
        }
    }
    if steps.is_empty() {
        return Err(format!("{rel}::match: no `let examinee = …;` statement found"));
    }
    // the uses of `examinee`
    struct Uses {
        discr: Vec<String>,
        cases: Vec<String>,
        clones: Vec<String>,
    }
    impl<'ast> Visit<'ast> for Uses {
        fn visit_expr_call(&mut self, c: &'ast syn::ExprCall) {
            if norm(&c.func) == "Value::Discriminant" {
                self.discr.push(c.args.iter().map(norm).collect::<Vec<_>>().join(","));
            }
            if norm(&c.func) == "Value::Clone" {
                self.clones.push(c.args.iter().map(norm).collect::<Vec<_>>().join(","));
            }
            syn::visit::visit_expr_call(self, c);
        }
        fn visit_expr_method_call(&mut self, c: &'ast syn::ExprMethodCall) {
            if c.method == "match_case" {
                self.cases.push(c.args.first().map(norm).unwrap_or_default());
            }
            syn::visit::visit_expr_method_call(self, c);
        }
    }
    let mut u = Uses { discr: vec![], cases: vec![], clones: vec![] };
    u.visit_block(&f.block);
    if u.discr.len() != 1 || !(u.discr[0] == "examinee.clone()" || u.discr[0] == "examinee") {
        return Err(format!("{rel}::match: expected one `Value::Discriminant(examinee…)`, found {:?}", u.discr));
    }
    if u.cases.is_empty() || u.cases.iter().any(|a| !(a == "examinee.clone()" || a == "examinee")) {
        return Err(format!("{rel}::match: every `self.match_case(…)` must receive `examinee` first, found {:?}", u.cases));
    }
    let mc = find::func(&file, "match_case", Some("Lowerer"))?;
    let first = mc.sig.inputs.iter().filter_map(|a| match a {
        syn::FnArg::Typed(t) => Some(norm(&t.pat)),
        _ => None,
    }).next().unwrap_or_default();
    if first != "examinee" {
        return Err(format!("{rel}::match_case: first parameter is `{first}`, expected `examinee`"));
    }
    let mut u2 = Uses { discr: vec![], cases: vec![], clones: vec![] };
    u2.visit_block(&mc.block);
    let binding_reads: Vec<&String> = u2.clones.iter().filter(|c| c.contains("VariantField")).collect();
    if binding_reads.len() != 1 || !binding_reads[0].starts_with("Place{var:examinee.clone(),") {
        return Err(format!(
            "{rel}::match_case: expected one `Value::Clone(Place {{ var: examinee.clone(), … VariantField … }})`, found {:?}",
            u2.clones
        ));
    }
    let mut s = String::from(
        "/- GENERATED by /verif/extract from src/mir/lower/match_expr.rs — do not edit. -/\nimport RotoV.Model.ValueMatch\nnamespace RotoV.Gen.ValueMatchGen\nopen RotoV.ValueMatch\n\n",
    );
    s += &format!(
        "/-- the `let examinee = …;` statements of `Lowerer::match`, in order; the discriminant and the\n    bindings of every candidate arm are read from the variable they leave -/\ndef examineeSteps : List ExStep := [{}]\n\n",
        steps.join(", ")
    );
    s += "end RotoV.Gen.ValueMatchGen\n";
    Ok(s)
}
