//! Translator targets owned by property C05 (values cross the host boundary
//! unchanged).
//!
//! `boundary` → `Generated/BoundaryTables.lean`:
//!  * `LayoutBuilder::new/add/finish`, `Layout::union` (src/runtime/layout.rs)
//!    as Lean functions over `RotoV.Boundary.Layout` (straight-line arithmetic
//!    subset: `let`, field assignment, `max`, `next_multiple_of`, `+`);
//!  * `Primitive::layout`, `IntSize::int`, `FloatSize::int`, the enum tables
//!    of `default_types()` (src/typechecker/types.rs);
//!  * variant order and `#[repr(u8)]` of `RotoOption`, `RotoResult`, `Verdict`
//!    (src/value/{option,result,verdict}.rs);
//!  * `AsParam` of every `impl Value` and the `simple_value!` list
//!    (src/value/mod.rs);
//!  * the shape of `Pool::layout_of` (constants it uses; its recursion is
//!    checked fragment by fragment) and the arms of `Pool::is_reference_type`
//!    (src/mir/ty.rs);
//!  * steps and primitive table of `Lowerer::lower_type`, the zero-sized
//!    filters of `ir_signature`, `call`, `call_runtime`, the `return_ptr` rule
//!    (src/lir/lower.rs);
//!  * `cranelift_type`, the order of hidden parameters in
//!    `declare_function` / `define_function` / `entry_block`, the function
//!    pointer prepended by `CallRuntime` (src/codegen/mod.rs);
//!  * the extern "C" types and call orders of `func!` (src/codegen/check.rs)
//!    and `registerable_fn!` (src/runtime/func.rs);
//!  * discriminants used by `question_mark`, `for` (src/mir/lower.rs) and
//!    `ffi::list_get` (src/value/list.rs) with its payload offset expression.
//!
//!  * the name / arity tests and the recursive checks of the four generic arms of
//!    `check_roto_type`, the name tests of its `Leaf` and `Val` arms (src/codegen/check.rs).
//!
//! Everything outside the recognised shapes is an extraction failure.

use super::{Gen, Target};
use crate::find;
use quote::ToTokens;
use std::path::Path;
use syn::{Expr, Pat, Stmt};

pub const TARGETS: &[Target] = &[("boundary", "BoundaryTables", boundary as Gen)];

type R = Result<String, String>;

fn toks(t: &impl ToTokens) -> String {
    t.to_token_stream().to_string().replace([' ', '\n'], "")
}

fn strip(s: &str) -> String {
    s.replace([' ', '\n'], "")
}

/// Position of `needle` in `hay` (both whitespace-free); must occur exactly once.
fn pos(hay: &str, needle: &str, what: &str) -> Result<usize, String> {
    let n = strip(needle);
    match hay.matches(&n).count() {
        1 => Ok(hay.find(&n).unwrap()),
        k => Err(format!("{what}: expected exactly one occurrence of `{needle}`, found {k}")),
    }
}

/// Positions of the fragments, which must occur exactly once each and in this order.
fn in_order(hay: &str, frags: &[&str], what: &str) -> Result<(), String> {
    let mut last = 0usize;
    for f in frags {
        let p = pos(hay, f, what)?;
        if p < last {
            return Err(format!("{what}: fragment `{f}` out of order"));
        }
        last = p;
    }
    Ok(())
}

// ------------------------------------------------------------ token patterns
//
// Fragments with placeholders: `__P_name` stands for one identifier, the same one
// wherever `__P_name` occurs in the fragments of one call. Local variable names
// are then free to change (a consistent renaming does not change what the code
// computes) while everything else is still compared token by token. A
// placeholder never binds an identifier that a fragment spells out literally,
// and two placeholders never bind the same identifier (so a renaming that
// captures another variable is not accepted). A placeholder whose name ends in
// `_S` is exempt from both rules: it is used where the code under translation may
// shadow a name (`let ty = lower(ty)`), at binding sites whose scope ends with the
// fragment, so that what it shadows cannot be meant later in the fragment.

fn lex(s: &str) -> Vec<String> {
    let cs: Vec<char> = s.chars().collect();
    let mut out = vec![];
    let mut i = 0;
    while i < cs.len() {
        let c = cs[i];
        if c.is_whitespace() {
            i += 1;
        } else if c.is_alphanumeric() || c == '_' {
            let st = i;
            while i < cs.len() && (cs[i].is_alphanumeric() || cs[i] == '_') {
                i += 1;
            }
            out.push(cs[st..i].iter().collect());
        } else if c == '"' {
            // a string literal is one token
            let st = i;
            i += 1;
            while i < cs.len() && cs[i] != '"' {
                if cs[i] == '\\' {
                    i += 1;
                }
                i += 1;
            }
            i = (i + 1).min(cs.len());
            out.push(cs[st..i].iter().collect());
        } else {
            out.push(c.to_string());
            i += 1;
        }
    }
    out
}

fn is_ident(t: &str) -> bool {
    t.chars().next().is_some_and(|c| c.is_alphabetic() || c == '_') && t.chars().all(|c| c.is_alphanumeric() || c == '_')
}

/// Where `frag` (tokens, `$x` placeholders) matches `src` at position `at`,
/// extending `binds`; `None` if it does not.
fn match_at(src: &[String], at: usize, frag: &[String], binds: &[(String, String)], literals: &[String]) -> Option<Vec<(String, String)>> {
    if at + frag.len() > src.len() {
        return None;
    }
    let mut b = binds.to_vec();
    for (k, f) in frag.iter().enumerate() {
        let s = &src[at + k];
        if let Some(name) = f.strip_prefix("__P_").filter(|n| !n.is_empty()) {
            if !is_ident(s) {
                return None;
            }
            match b.iter().find(|(n, _)| n == name) {
                Some((_, v)) => {
                    if v != s {
                        return None;
                    }
                }
                None => {
                    let may_shadow = name.ends_with("_S");
                    if (!may_shadow && (literals.contains(s) || b.iter().any(|(n, v)| v == s && !n.ends_with("_S")))) || matches!(s.as_str(), "self" | "Self" | "mut" | "let" | "in" | "for" | "if" | "else" | "match" | "return") {
                        return None;
                    }
                    b.push((name.to_string(), s.clone()));
                }
            }
        } else if f != s {
            return None;
        }
    }
    Some(b)
}

/// The fragments must each match exactly once (given the identifiers bound so
/// far) and in this order.
fn in_order_pat(src_text: &str, frags: &[&str], what: &str) -> Result<(), String> {
    let src = lex(src_text);
    let lexed: Vec<Vec<String>> = frags.iter().map(|f| lex(f)).collect();
    let literals: Vec<String> = lexed.iter().flatten().filter(|t| is_ident(t) && !t.starts_with("__P_")).cloned().collect();
    let mut binds: Vec<(String, String)> = vec![];
    let mut last = 0usize;
    for (f, fl) in frags.iter().zip(&lexed) {
        let hits: Vec<(usize, Vec<(String, String)>)> =
            (0..src.len()).filter_map(|at| match_at(&src, at, fl, &binds, &literals).map(|b| (at, b))).collect();
        match &hits[..] {
            [(at, b)] => {
                if *at < last {
                    return Err(format!("{what}: fragment `{f}` out of order"));
                }
                last = *at;
                binds = b.clone();
            }
            _ => return Err(format!("{what}: expected exactly one occurrence of `{f}`, found {}", hits.len())),
        }
    }
    Ok(())
}


/// Some list of fragments of `alts` must match (`in_order_pat`): equivalent spellings
/// of the same code, each of which was checked by hand to compute the same thing.
fn any_alt(src_text: &str, alts: &[Vec<String>], what: &str) -> Result<(), String> {
    let mut first_err = None;
    for a in alts {
        let frags: Vec<&str> = a.iter().map(|s| s.as_str()).collect();
        match in_order_pat(src_text, &frags, what) {
            Ok(()) => return Ok(()),
            Err(e) => {
                first_err.get_or_insert(e);
            }
        }
    }
    Err(first_err.unwrap_or_else(|| format!("{what}: no alternative")))
}

fn text(t: &impl ToTokens) -> String {
    t.to_token_stream().to_string()
}

// ------------------------------------------------------------ arithmetic subset

/// Expression of the layout arithmetic as a Lean term.
fn arith(e: &Expr) -> R {
    Ok(match e {
        Expr::Paren(p) => arith(&p.expr)?,
        Expr::Reference(r) => arith(&r.expr)?,
        Expr::Lit(l) => match &l.lit {
            syn::Lit::Int(i) => i.base10_digits().to_string(),
            other => return Err(format!("unsupported literal `{}`", toks(other))),
        },
        Expr::Path(p) if p.path.segments.len() == 1 => p.path.segments[0].ident.to_string(),
        Expr::Field(f) => format!("{}.{}", arith(&f.base)?, f.member.to_token_stream()),
        Expr::Binary(b) => {
            let op = match b.op {
                syn::BinOp::Add(_) => "+",
                syn::BinOp::Div(_) => "/",
                _ => return Err(format!("unsupported operator in `{}`", toks(e))),
            };
            format!("({} {op} {})", arith(&b.left)?, arith(&b.right)?)
        }
        Expr::Cast(c) if toks(&c.ty) == "usize" => arith(&c.expr)?,
        Expr::MethodCall(m) => {
            let recv = arith(&m.receiver)?;
            let args: Result<Vec<String>, String> = m.args.iter().map(arith).collect();
            let args = args?;
            match (m.method.to_string().as_str(), args.len()) {
                ("next_multiple_of", 1) => format!("(nextMultipleOf {recv} {})", args[0]),
                ("max", 1) => format!("(max {recv} {})", args[0]),
                ("align", 0) => format!("{recv}.align"),
                ("size", 0) => format!("{recv}.size"),
                ("int", 0) => format!("(sizeInt {recv})"),
                (other, _) => return Err(format!("unsupported method `{other}` in `{}`", toks(e))),
            }
        }
        Expr::Call(c) => {
            let f = toks(&c.func);
            let args: Result<Vec<String>, String> = c.args.iter().map(arith).collect();
            let args = args?;
            match (f.as_str(), args.len()) {
                ("Layout::new", 2) | ("Self::new", 2) => format!("(Layout.new {} {})", args[0], args[1]),
                ("Layout::of::<u8>", 0) => "(Layout.new 1 1)".to_string(),
                ("Layout::of::<u16>", 0) => "(Layout.new 2 2)".to_string(),
                ("Layout::of::<u32>", 0) => "(Layout.new 4 4)".to_string(),
                ("Layout::of::<u64>", 0) => "(Layout.new 8 8)".to_string(),
                ("Layout::of::<char>", 0) => "h.char".to_string(),
                ("Layout::of::<crate::RotoString>", 0) => "h.string".to_string(),
                ("Layout::of::<std::net::IpAddr>", 0) => "h.ipaddr".to_string(),
                ("Layout::of::<inetnum::addr::Prefix>", 0) => "h.prefix_".to_string(),
                ("Layout::of::<ErasedList>", 0) => "h.list".to_string(),
                _ => return Err(format!("unsupported call `{}`", toks(e))),
            }
        }
        Expr::Struct(s) if toks(&s.path) == "Self" && s.rest.is_none() => {
            let mut fs = vec![];
            for f in &s.fields {
                fs.push(format!("{} := {}", f.member.to_token_stream(), arith(&f.expr)?));
            }
            format!("{{ {} }}", fs.join(", "))
        }
        other => return Err(format!("unsupported expression `{}`", toks(other))),
    })
}

/// A straight-line body: `let x = e;`, `self.f = e;`, tail expression.
/// `ret_self`: the function takes `&mut self` and its result is `(self, tail)`.
fn straight(stmts: &[Stmt], ret_self: bool) -> R {
    let mut out = String::new();
    for (i, s) in stmts.iter().enumerate() {
        match s {
            Stmt::Local(l) => {
                let Pat::Ident(pi) = &l.pat else {
                    return Err(format!("unsupported let pattern `{}`", toks(&l.pat)));
                };
                let init = l.init.as_ref().ok_or("let without initialiser")?;
                if init.diverge.is_some() {
                    return Err("let-else in straight-line code".into());
                }
                out.push_str(&format!("  let {} := {}\n", pi.ident, arith(&init.expr)?));
            }
            Stmt::Expr(Expr::Assign(a), Some(_)) => {
                let Expr::Field(f) = &*a.left else {
                    return Err(format!("unsupported assignment `{}`", toks(a)));
                };
                if toks(&f.base) != "self" {
                    return Err(format!("unsupported assignment `{}`", toks(a)));
                }
                out.push_str(&format!(
                    "  let self := {{ self with {} := {} }}\n",
                    f.member.to_token_stream(),
                    arith(&a.right)?
                ));
            }
            Stmt::Expr(e, None) if i + 1 == stmts.len() => {
                let t = arith(e)?;
                out.push_str(&if ret_self { format!("  (self, {t})\n") } else { format!("  {t}\n") });
                return Ok(out);
            }
            other => return Err(format!("unsupported statement `{}`", toks(other))),
        }
    }
    Err("body has no tail expression".into())
}

fn takes_mut_self(f: &find::FnBody) -> bool {
    matches!(f.sig.inputs.first(), Some(syn::FnArg::Receiver(r)) if r.mutability.is_some())
}

// ------------------------------------------------------------ small tables

fn vname(s: &str) -> R {
    match s {
        "Some" | "None" | "Ok" | "Err" | "Accept" | "Reject" => Ok(format!(".{s}")),
        other => Err(format!("unknown variant name {other}")),
    }
}

/// `enum Name<P0, P1> { V(P0), W, … }` with its `#[repr(..)]`: per variant the
/// indices of the generic parameters its fields are.
fn mirror_enum(file: &syn::File, name: &str) -> Result<(Vec<(String, Vec<String>)>, bool), String> {
    for item in &file.items {
        let syn::Item::Enum(e) = item else { continue };
        if e.ident != name {
            continue;
        }
        let repr_u8 = e.attrs.iter().any(|a| toks(a) == "#[repr(u8)]");
        let params: Vec<String> = e.generics.type_params().map(|p| p.ident.to_string()).collect();
        let mut vs = vec![];
        for v in &e.variants {
            if v.discriminant.is_some() {
                return Err(format!("{name}: explicit discriminant on {}", v.ident));
            }
            let mut fields = vec![];
            match &v.fields {
                syn::Fields::Unit => {}
                syn::Fields::Unnamed(u) => {
                    for f in &u.unnamed {
                        let t = toks(&f.ty);
                        let idx = params.iter().position(|p| *p == t).ok_or_else(|| format!("{name}::{}: field type {t} is not a type parameter", v.ident))?;
                        fields.push(idx.to_string());
                    }
                }
                syn::Fields::Named(_) => return Err(format!("{name}: named fields")),
            }
            vs.push((vname(&v.ident.to_string())?, fields));
        }
        return Ok((vs, repr_u8));
    }
    Err(format!("enum {name} not found"))
}

fn lean_list(xs: &[String]) -> String {
    format!("[{}]", xs.join(", "))
}

fn rust_head(t: &str) -> R {
    Ok(match t {
        "bool" | "u8" | "u16" | "u32" | "u64" | "i8" | "i16" | "i32" | "i64" | "f32" | "f64" | "char" | "Asn"
        | "IpAddr" | "Prefix" | "RotoString" | "StringBytes" | "StringChars" | "StringLines" | "ErasedList"
        | "VTable" | "DynVal" => format!(".{t}"),
        "()" => ".unit".into(),
        _ if t.starts_with("Val<") => ".Val".into(),
        _ if t.starts_with("Option<") => ".Option".into(),
        _ if t.starts_with("Result<") => ".Result".into(),
        _ if t.starts_with("Verdict<") => ".Verdict".into(),
        _ if t.starts_with("List<") => ".List".into(),
        other => return Err(format!("impl Value for unknown type `{other}`")),
    })
}

fn as_param_kind(self_ty: &str, ap: &str) -> R {
    Ok(match ap {
        "()" => ".unitValue",
        "Self" if self_ty == "()" => ".unitValue",
        "Self" => ".byValue",
        "*mutSelf" | "*mutSelf::Transformed" | "*mutT" => ".pointer",
        other => return Err(format!("unsupported AsParam `{other}` for {self_ty}")),
    }
    .to_string())
}

fn assoc_type(i: &syn::ItemImpl, name: &str) -> Option<String> {
    i.items.iter().find_map(|it| match it {
        syn::ImplItem::Type(t) if t.ident == name => Some(toks(&t.ty)),
        _ => None,
    })
}

// ------------------------------------------------------------ the target

/// `fn resolve()` of `impl<P…> Value for X<P…>`: `let a = P::resolve().type_id; … let desc =
/// TypeDescription::X(a, …); TypeRegistry::store::<Self>(desc)` → (head, constructor, positions of
/// the type parameters the components describe).
fn resolve_description(i: &syn::ItemImpl, ty: &str, head: &str) -> R {
    let what = format!("impl Value for {ty}: resolve");
    let params: Vec<String> = ty
        .split_once('<')
        .and_then(|(_, r)| r.strip_suffix('>'))
        .ok_or(format!("{what}: type parameters"))?
        .split(',')
        .map(|x| x.to_string())
        .collect();
    let f = i
        .items
        .iter()
        .find_map(|it| match it {
            syn::ImplItem::Fn(f) if f.sig.ident == "resolve" => Some(f),
            _ => None,
        })
        .ok_or(format!("{what}: not found"))?;
    let mut bound: Vec<(String, usize)> = vec![];
    let mut ctor = None;
    let stmts: Vec<&Stmt> = f.block.stmts.iter().filter(|s| !matches!(s, Stmt::Local(l) if is_hook_attr(&l.attrs))).collect();
    let (last, front) = stmts.split_last().ok_or(format!("{what}: empty"))?;
    for st in front {
        let Stmt::Local(l) = st else { return Err(format!("{what}: `{}`", toks(*st))) };
        let Pat::Ident(pi) = &l.pat else { return Err(format!("{what}: `{}`", toks(&l.pat))) };
        let init = toks(&l.init.as_ref().ok_or(format!("{what}: no initialiser"))?.expr);
        if let Some(pname) = init.strip_suffix("::resolve().type_id") {
            let k = params.iter().position(|x| x == pname).ok_or(format!("{what}: `{pname}` is not a type parameter"))?;
            bound.push((pi.ident.to_string(), k));
        } else if let Some(rest) = init.strip_prefix("TypeDescription::") {
            let (c, args) = rest.split_once('(').and_then(|(c, a)| a.strip_suffix(')').map(|a| (c, a))).ok_or(format!("{what}: `{init}`"))?;
            let mut pos_list = vec![];
            for a in args.split(',').filter(|a| !a.is_empty()) {
                let k = bound.iter().find(|(n, _)| n == a).ok_or(format!("{what}: `{a}` is not the TypeId of a type parameter"))?.1;
                pos_list.push(k.to_string());
            }
            if pi.ident != "desc" {
                return Err(format!("{what}: `{}`", toks(*st)));
            }
            ctor = Some((c.to_string(), pos_list));
        } else {
            return Err(format!("{what}: `{}`", toks(*st)));
        }
    }
    if toks(*last) != "TypeRegistry::store::<Self>(desc)" {
        return Err(format!("{what}: `{}` is not `TypeRegistry::store::<Self>(desc)`", toks(*last)));
    }
    let (c, pos_list) = ctor.ok_or(format!("{what}: no TypeDescription"))?;
    let c = match c.as_str() {
        "Option" => ".option",
        "Result" => ".result",
        "Verdict" => ".verdict",
        "List" => ".list",
        other => return Err(format!("{what}: TypeDescription::{other}")),
    };
    Ok(format!("({head}, {c}, {})", lean_list(&pos_list)))
}

// ------------------------------------------------------ check_roto_type (the gate)

fn is_hook_attr(attrs: &[syn::Attribute]) -> bool {
    attrs.iter().any(|a| a.path().is_ident("cfg") && toks(a).contains("verif-hooks"))
}

/// `{ return Err(error_message); }` (the refusal every failed test of an arm takes)
fn refuses(b: &syn::Block) -> bool {
    toks(b) == "{returnErr(error_message);}"
}

/// `check_roto_type(type_info, R, A)` → (R, A)
fn gate_rec_call(e: &Expr) -> Result<(String, String), String> {
    let Expr::Call(c) = e else { return Err(format!("check_roto_type arm: expected a recursive call, found `{}`", toks(e))) };
    if toks(&c.func) != "check_roto_type" || c.args.len() != 3 || toks(&c.args[0]) != "type_info" {
        return Err(format!("check_roto_type arm: unexpected call `{}`", toks(e)));
    }
    Ok((toks(&c.args[1]), toks(&c.args[2])))
}

/// The four arms of `check_roto_type` for the generic built-in types, each as data: the
/// `TypeDescription` constructor, what of the Roto type's resolved name is compared (scope
/// and identifier, or the identifier alone), the identifier, the number of type arguments
/// demanded, and which Rust component is checked against which Roto argument. Plus the
/// name tests of the `Leaf` and `Val` arms. Anything else in an arm is an extraction failure.
fn gate_arms(ck: &syn::File, types: &syn::File) -> R {
    let f = find::func(ck, "check_roto_type", None)?;
    let ms = find::matches_on(&f.block, "rust_type.description");
    let [m] = &ms[..] else { return Err(format!("check_roto_type: expected one `match rust_type.description`, found {}", ms.len())) };
    // the Roto type the arms look at is the resolved one
    in_order(&toks(&f.block), &["let mut roto_type=type_info.resolve(roto_type);", "match rust_type.description{"], "check_roto_type")?;
    let head_of = |id: &str| -> R {
        Ok(match id {
            "Verdict" => ".verdict",
            "Result" => ".result",
            "Option" => ".option",
            "List" => ".list",
            other => return Err(format!("check_roto_type: `{other}` is not one of the generic built-in types")),
        }
        .to_string())
    };
    let mut arms_out = vec![];
    for variant in ["Verdict", "Result", "Option", "List"] {
        let what = format!("check_roto_type arm TypeDescription::{variant}");
        let arm = find::arm_for(m, variant)?;
        if arm.guard.is_some() {
            return Err(format!("{what}: guarded"));
        }
        let Pat::TupleStruct(ts) = &arm.pat else { return Err(format!("{what}: pattern")) };
        let mut rust_parts = vec![];
        for e in &ts.elems {
            let Pat::Ident(pi) = e else { return Err(format!("{what}: pattern element `{}`", toks(e))) };
            rust_parts.push(pi.ident.to_string());
        }
        let Expr::Block(body) = &*arm.body else { return Err(format!("{what}: body is not a block")) };
        let stmts: Vec<&Stmt> = body
            .block
            .stmts
            .iter()
            .filter(|s| match s {
                Stmt::Local(l) => !is_hook_attr(&l.attrs),
                Stmt::Macro(mc) => !is_hook_attr(&mc.attrs),
                _ => true,
            })
            .collect();
        if stmts.len() < 4 {
            return Err(format!("{what}: expected name test, arity test and recursive checks, found {} statements", stmts.len()));
        }
        // 1. `let Type::Name(tn) = &roto_type else { refuse };`
        let Stmt::Local(l0) = stmts[0] else { return Err(format!("{what}: first statement")) };
        let Pat::TupleStruct(p0) = &l0.pat else { return Err(format!("{what}: `{}`", toks(&l0.pat))) };
        let (Some(Pat::Ident(tn)), 1, "Type::Name") = (p0.elems.first(), p0.elems.len(), toks(&p0.path).as_str()) else {
            return Err(format!("{what}: `{}` is not `Type::Name(_)`", toks(&l0.pat)));
        };
        let tn = tn.ident.to_string();
        let init0 = l0.init.as_ref().ok_or(format!("{what}: no initialiser"))?;
        let refuses0 = init0.diverge.as_ref().is_some_and(|(_, e)| matches!(&**e, Expr::Block(b) if refuses(&b.block)));
        if toks(&init0.expr) != "&roto_type" || !refuses0 {
            return Err(format!("{what}: `{}`", toks(l0)));
        }
        // 2. the name test: the whole resolved name (scope and identifier) or the identifier alone
        let Stmt::Expr(Expr::If(i1), _) = stmts[1] else { return Err(format!("{what}: second statement is not the name test")) };
        if i1.else_branch.is_some() || !refuses(&i1.then_branch) {
            return Err(format!("{what}: the name test does not refuse"));
        }
        let Expr::Binary(b1) = &*i1.cond else { return Err(format!("{what}: name test `{}`", toks(&i1.cond))) };
        if !matches!(b1.op, syn::BinOp::Ne(_)) {
            return Err(format!("{what}: name test `{}`", toks(&i1.cond)));
        }
        let mut rhs = &*b1.right;
        while let Expr::Paren(p) = rhs {
            rhs = &p.expr;
        }
        let lhs = toks(&b1.left);
        let lit_of = |e: &Expr| -> Option<String> {
            let t = toks(e);
            let t = t.strip_suffix(".into()").unwrap_or(&t).to_string();
            t.strip_prefix('"').and_then(|x| x.strip_suffix('"')).map(|x| x.to_string())
        };
        let (scope, ident) = if lhs == format!("{tn}.name") {
            let Expr::Struct(st) = rhs else { return Err(format!("{what}: `{}` is not a ResolvedName", toks(rhs))) };
            if toks(&st.path) != "ResolvedName" || st.rest.is_some() || st.fields.len() != 2 {
                return Err(format!("{what}: `{}`", toks(rhs)));
            }
            let mut scope = None;
            let mut ident = None;
            for fv in &st.fields {
                match toks(&fv.member).as_str() {
                    "scope" if toks(&fv.expr) == "ScopeRef::GLOBAL" => scope = Some(".global"),
                    "ident" => ident = lit_of(&fv.expr),
                    _ => return Err(format!("{what}: field `{}` of the name compared", toks(fv))),
                }
            }
            (scope.ok_or(format!("{what}: scope compared"))?, ident.ok_or(format!("{what}: identifier compared"))?)
        } else if lhs == format!("{tn}.name.ident") || lhs == format!("{tn}.name.ident.as_str()") {
            (".anyScope", lit_of(rhs).ok_or(format!("{what}: identifier compared `{}`", toks(rhs)))?)
        } else {
            return Err(format!("{what}: name test `{}`", toks(&i1.cond)));
        };
        // 3. `let [a, b] = &tn.arguments[..] else { refuse };`
        let Stmt::Local(l2) = stmts[2] else { return Err(format!("{what}: third statement")) };
        let Pat::Slice(ps) = &l2.pat else { return Err(format!("{what}: `{}`", toks(&l2.pat))) };
        let mut roto_parts = vec![];
        for e in &ps.elems {
            let Pat::Ident(pi) = e else { return Err(format!("{what}: slice element `{}`", toks(e))) };
            roto_parts.push(pi.ident.to_string());
        }
        let init2 = l2.init.as_ref().ok_or(format!("{what}: no initialiser"))?;
        let refuses2 = init2.diverge.as_ref().is_some_and(|(_, e)| matches!(&**e, Expr::Block(b) if refuses(&b.block)));
        if toks(&init2.expr) != format!("&{tn}.arguments[..]") || !refuses2 {
            return Err(format!("{what}: `{}`", toks(l2)));
        }
        // 4. the recursive checks, every one propagating a refusal
        let mut pairs = vec![];
        let rest = &stmts[3..];
        for (k, s) in rest.iter().enumerate() {
            let last = k + 1 == rest.len();
            let call = match s {
                Stmt::Expr(Expr::Try(t), Some(_)) => Some(gate_rec_call(&t.expr)?),
                Stmt::Expr(e, None) if last && toks(e) == "Ok(())" => None,
                Stmt::Expr(e, None) if last => Some(gate_rec_call(e)?),
                other => return Err(format!("{what}: statement `{}`", toks(*other))),
            };
            if let Some((r, a)) = call {
                let ri = rust_parts.iter().position(|x| *x == r).ok_or(format!("{what}: `{r}` is not a component of the Rust type"))?;
                let ai = roto_parts.iter().position(|x| *x == a).ok_or(format!("{what}: `{a}` is not an argument of the Roto type"))?;
                pairs.push(format!("({ri}, {ai})"));
            }
        }
        arms_out.push(format!(
            "  ⟨{}, {scope}, {}, {}, {}⟩",
            head_of(variant)?,
            head_of(&ident)?,
            roto_parts.len(),
            lean_list(&pairs)
        ));
    }
    // Leaf: compared with `Type::named(name, [])`, which is a name in the global scope
    let leaf = find::arm_for(m, "Leaf")?;
    in_order_pat(
        &text(&leaf.body),
        &["let __P_exp = Type::named(expected_name, Vec::new());", "if __P_exp == roto_type { Ok(()) } else { Err(error_message) }"],
        "check_roto_type arm Leaf",
    )?;
    let named = find::func(types, "named", Some("Type"))?;
    in_order(
        &toks(&named.block),
        &["Type::Name(TypeName{name:ResolvedName{scope:ScopeRef::GLOBAL,ident:ident.into(),},arguments,})"],
        "Type::named",
    )?;
    // Val: the name must resolve to a registered type with the same TypeId
    let val = find::arm_for(m, "Val")?;
    in_order_pat(
        &text(&val.body),
        &[
            "let Type::Name(__P_tn) = roto_type else { return Err(error_message); };",
            "let TypeDefinition::Runtime(_, __P_id) = type_info.resolve_type_name(__P_tn.name) else { return Err(error_message); };",
            "if rust_type.type_id != __P_id { return Err(error_message); }",
            "Ok(())",
        ],
        "check_roto_type arm Val",
    )?;
    Ok(format!(
        "\n/-! ### src/codegen/check.rs (`check_roto_type`: the gate in front of `RotoFunc::invoke`) -/\n\
         /-- per generic built-in type: `TypeDescription` constructor, what of the resolved name is compared, the identifier, \
         the number of type arguments, (Rust component, Roto argument) pairs checked recursively -/\n\
         def gateArms : List GateArm := [\n{}]\n\
         /-- the `Leaf` arm compares with `Type::named(..)`: a name in the global scope, no arguments -/\n\
         def gateLeafScope : ScopeTest := .global\n\
         /-- the `Val` arm demands a name that resolves to `TypeDefinition::Runtime` with the same `TypeId` -/\n\
         def gateValByTypeId : Bool := true\n",
        arms_out.join(",\n")
    ))
}


// ---------------------------------------------------------------------------
// `ir_signature.parameters` of `Lowerer::item`: the iterator chain that pairs
// parameter NAMES with lowered TYPES, as a Lean function over lists.
// Subset: `parameters.iter()`, `.zip(&mir_signature.parameter_types)`,
// `.zip(<local Vec filled by a loop over the parameter types>)`,
// `.filter_map(closure)`, `.map(closure)`, `.collect()`; closures of `let … =
// lowerer.lower_type(*v)?;`, the `VarKind::Explicit` let-else, `Some((a, b))`
// or an identifier. Anything else is an extraction failure.
fn lean_var(i: &syn::Ident) -> String {
    format!("v_{i}")
}

fn sp_pat(p: &Pat) -> R {
    match p {
        Pat::Ident(pi) if pi.by_ref.is_none() && pi.subpat.is_none() => Ok(lean_var(&pi.ident)),
        Pat::Tuple(t) => Ok(format!("({})", t.elems.iter().map(sp_pat).collect::<Result<Vec<_>, _>>()?.join(", "))),
        _ => Err(format!("ir_signature.parameters: pattern `{}` outside the subset", text(p))),
    }
}

fn sp_value(e: &Expr) -> R {
    match e {
        Expr::Path(p) if p.path.get_ident().is_some() => Ok(lean_var(p.path.get_ident().unwrap())),
        Expr::Tuple(t) => Ok(format!("({})", t.elems.iter().map(sp_value).collect::<Result<Vec<_>, _>>()?.join(", "))),
        Expr::Paren(p) => sp_value(&p.expr),
        _ => Err(format!("ir_signature.parameters: value `{}` outside the subset", text(e))),
    }
}

/// `lowerer.lower_type(*v)` → `lower v_v`
fn sp_lower_call(e: &Expr) -> R {
    if let Expr::MethodCall(m) = e {
        if m.method == "lower_type" && toks(&m.receiver) == "lowerer" && m.args.len() == 1 {
            if let Expr::Unary(u) = &m.args[0] {
                if matches!(u.op, syn::UnOp::Deref(_)) {
                    return Ok(format!("lower {}", sp_value(&u.expr)?));
                }
            }
        }
    }
    Err(format!("ir_signature.parameters: `{}` is not lowerer.lower_type(*v)", text(e)))
}

fn sp_closure(e: &Expr, optional: bool) -> R {
    let Expr::Closure(c) = e else { return Err(format!("ir_signature.parameters: `{}` is not a closure", text(e))) };
    if c.inputs.len() != 1 {
        return Err("ir_signature.parameters: closure with more than one parameter".into());
    }
    let mut o = format!("fun {} => ", sp_pat(&c.inputs[0])?);
    let stmts: Vec<Stmt> = match &*c.body {
        Expr::Block(b) => b.block.stmts.clone(),
        other => vec![Stmt::Expr(other.clone(), None)],
    };
    let Some((last, init)) = stmts.split_last() else { return Err("ir_signature.parameters: empty closure".into()) };
    for st in init {
        let Stmt::Local(l) = st else { return Err(format!("ir_signature.parameters: statement `{}` outside the subset", text(st))) };
        if is_hook_attr(&l.attrs) {
            continue;
        }
        let Some(init) = &l.init else { return Err("ir_signature.parameters: `let` without a value".into()) };
        if let Some((_, div)) = &init.diverge {
            // let mir::VarKind::Explicit(x) = def.kind else { ice!() };  — the name of an explicit parameter
            let pt = toks(&l.pat);
            let (Some(inner), true) = (pt.strip_prefix("mir::VarKind::Explicit(").and_then(|r| r.strip_suffix(")")), toks(div) == "{ice!()}")
            else {
                return Err(format!("ir_signature.parameters: let-else `{}` outside the subset", text(st)));
            };
            let it = toks(&init.expr);
            let Some(d) = it.strip_suffix(".kind") else { return Err(format!("ir_signature.parameters: `{it}` is not <def>.kind")) };
            if !is_ident(inner) || !is_ident(d) {
                return Err(format!("ir_signature.parameters: let-else `{}` outside the subset", text(st)));
            }
            o.push_str(&format!("let v_{inner} := v_{d}; "));
        } else if let Expr::Try(t) = &*init.expr {
            if !optional {
                return Err("ir_signature.parameters: `?` inside a `map` closure".into());
            }
            o.push_str(&format!("({}).bind fun {} => ", sp_lower_call(&t.expr)?, sp_pat(&l.pat)?));
        } else {
            return Err(format!("ir_signature.parameters: statement `{}` outside the subset", text(st)));
        }
    }
    let Stmt::Expr(e, None) = last else { return Err("ir_signature.parameters: closure does not end in a value".into()) };
    if optional {
        let Expr::Call(c) = e else { return Err(format!("ir_signature.parameters: `{}` is not Some(..)", text(e))) };
        if toks(&c.func) != "Some" || c.args.len() != 1 {
            return Err(format!("ir_signature.parameters: `{}` is not Some(..)", text(e)));
        }
        o.push_str(&format!("some {}", sp_value(&c.args[0])?));
    } else {
        o.push_str(&sp_value(e)?);
    }
    Ok(o)
}

/// a local `Vec` that a loop over `mir_signature.parameter_types` fills with
/// `extend(lowerer.lower_type(*ty))` (the loop may also return early for an
/// uninhabited parameter: then no item is produced at all)
fn sp_local_types(name: &str, body: &syn::Block) -> R {
    struct Loops<'a>(Vec<&'a syn::ExprForLoop>, usize, &'a str);
    impl<'ast> syn::visit::Visit<'ast> for Loops<'ast> {
        fn visit_expr_for_loop(&mut self, l: &'ast syn::ExprForLoop) {
            self.0.push(l);
            syn::visit::visit_expr_for_loop(self, l);
        }
        fn visit_local(&mut self, l: &'ast syn::Local) {
            if let (Pat::Ident(pi), Some(init)) = (&l.pat, &l.init) {
                if pi.ident == self.2 && toks(&init.expr) == "Vec::new()" {
                    self.1 += 1;
                }
            }
            syn::visit::visit_local(self, l);
        }
    }
    let mut v = Loops(Vec::new(), 0, name);
    syn::visit::Visit::visit_block(&mut v, body);
    if v.1 != 1 {
        return Err(format!("ir_signature.parameters: `{name}` is not one local `Vec::new()`"));
    }
    // method calls on the local itself (not on a field of the same name)
    let own_uses = |t: &str| {
        let pat = format!("{name}.");
        t.match_indices(&pat).filter(|(i, _)| !t[..*i].ends_with(|c: char| c == '.' || c == '_' || c.is_alphanumeric())).count()
    };
    let uses = own_uses(&toks(body));
    let mut found = None;
    for l in &v.0 {
        if own_uses(&toks(&l.body)) == 0 {
            continue;
        }
        if toks(&l.expr) != "&mir_signature.parameter_types" || found.is_some() {
            return Err(format!("ir_signature.parameters: `{name}` is filled by a loop outside the subset"));
        }
        let pv = sp_pat(&l.pat)?;
        let mut out = None;
        for st in &l.body.stmts {
            let t = toks(st);
            if let Some(rest) = t.strip_prefix(&format!("{name}.extend(")).and_then(|r| r.strip_suffix(");")) {
                let e: Expr = syn::parse_str(rest).map_err(|e| format!("ir_signature.parameters: {e}"))?;
                if out.is_some() {
                    return Err(format!("ir_signature.parameters: `{name}` extended twice per parameter"));
                }
                out = Some(format!("(tys.filterMap (fun {pv} => {}))", sp_lower_call(&e)?));
            } else if t.starts_with("lowerer.layout_of(") && t.ends_with(")?;") && !t.contains(name) {
                // uninhabited parameter: the whole item is skipped
            } else {
                return Err(format!("ir_signature.parameters: statement `{t}` in the loop filling `{name}`"));
            }
        }
        found = out;
    }
    if uses != 1 {
        return Err(format!("ir_signature.parameters: `{name}` is used {uses} times besides its declaration"));
    }
    found.ok_or(format!("ir_signature.parameters: no loop fills `{name}`"))
}

fn sp_chain(e: &Expr, body: &syn::Block) -> R {
    let Expr::MethodCall(m) = e else { return Err(format!("ir_signature.parameters: `{}` outside the subset", text(e))) };
    let args: Vec<&Expr> = m.args.iter().collect();
    match (m.method.to_string().as_str(), &args[..]) {
        ("collect", []) => sp_chain(&m.receiver, body),
        ("iter", []) if toks(&m.receiver) == "parameters" => Ok("names".into()),
        ("zip", [a]) => {
            let rhs = if toks(a) == "&mir_signature.parameter_types" {
                "tys".to_string()
            } else if let Expr::Path(p) = a {
                let id = p.path.get_ident().ok_or("ir_signature.parameters: zip argument")?;
                sp_local_types(&id.to_string(), body)?
            } else {
                return Err(format!("ir_signature.parameters: zip with `{}`", text(a)));
            };
            Ok(format!("(({}).zip {rhs})", sp_chain(&m.receiver, body)?))
        }
        ("filter_map", [c]) => Ok(format!("(({}).filterMap ({}))", sp_chain(&m.receiver, body)?, sp_closure(c, true)?)),
        ("map", [c]) => Ok(format!("(({}).map ({}))", sp_chain(&m.receiver, body)?, sp_closure(c, false)?)),
        (other, _) => Err(format!("ir_signature.parameters: adapter `.{other}(..)` outside the subset")),
    }
}

fn sig_params_def(lower: &syn::File) -> R {
    let f = find::func(lower, "item", Some("Lowerer"))?;
    struct Sigs<'a>(Vec<&'a syn::ExprStruct>);
    impl<'ast> syn::visit::Visit<'ast> for Sigs<'ast> {
        fn visit_expr_struct(&mut self, e: &'ast syn::ExprStruct) {
            if e.path.segments.last().is_some_and(|s| s.ident == "Signature") {
                self.0.push(e);
            }
            syn::visit::visit_expr_struct(self, e);
        }
    }
    let mut v = Sigs(Vec::new());
    syn::visit::Visit::visit_block(&mut v, &f.block);
    let [sig] = &v.0[..] else { return Err(format!("Lowerer::item: expected one `Signature {{ .. }}`, found {}", v.0.len())) };
    let field = sig
        .fields
        .iter()
        .find(|fv| matches!(&fv.member, syn::Member::Named(n) if n == "parameters"))
        .ok_or("Lowerer::item: Signature without `parameters`")?;
    let chain = sp_chain(&field.expr, &f.block)?;
    Ok(format!(
        "/-- `ir_signature.parameters` of `Lowerer::item`, translated adapter by adapter: `names` = the explicit \
         parameters of the function (`parameters`), `tys` = `mir_signature.parameter_types`, `lower` = \
         `Lowerer::lower_type` (`none` for a zero-sized type). The code generator binds the k-th incoming argument to the \
         name of the k-th pair. -/\ndef sigParamsOf {{ν τ ι : Type}} (lower : τ → Option ι) (names : List ν) (tys : List τ) : List (ν × ι) :=\n  {chain}\n"
    ))
}

fn boundary(repo: &Path) -> R {
    let mut o = String::new();
    o.push_str(
        "/- GENERATED by /verif/extract (target boundary) from src/runtime/layout.rs, src/typechecker/types.rs, \
         src/value/{mod,option,result,verdict,list}.rs, src/mir/{ty,lower}.rs, src/lir/lower.rs, src/codegen/{mod,check}.rs, \
         src/runtime/func.rs — do not edit. -/\nimport RotoV.Model.BoundaryLayout\nset_option linter.unusedVariables false\n\
         namespace RotoV.Gen.BoundaryTables\nopen RotoV RotoV.Boundary\n\n",
    );

    // ---------------------------------------------------- runtime/layout.rs
    let lay = find::parse(repo, "src/runtime/layout.rs")?;
    o.push_str("/-! ### src/runtime/layout.rs -/\n");
    let f = find::func(&lay, "new", Some("LayoutBuilder"))?;
    o.push_str(&format!("def LayoutBuilder.new : LayoutBuilder :=\n{}\n", straight(&f.block.stmts, false)?));
    let f = find::func(&lay, "add", Some("LayoutBuilder"))?;
    if !takes_mut_self(&f) {
        return Err("LayoutBuilder::add must take &mut self".into());
    }
    o.push_str(&format!(
        "def LayoutBuilder.add (self : LayoutBuilder) (layout : Layout) : LayoutBuilder × Nat :=\n{}\n",
        straight(&f.block.stmts, true)?
    ));
    let f = find::func(&lay, "finish", Some("LayoutBuilder"))?;
    o.push_str(&format!(
        "def LayoutBuilder.finish (self : LayoutBuilder) : Layout :=\n{}\n",
        straight(&f.block.stmts, false)?
    ));
    let f = find::func(&lay, "union", Some("Layout"))?;
    o.push_str(&format!(
        "def Layout.union (self other : Layout) : Layout :=\n{}\n",
        straight(&f.block.stmts, false)?
    ));
    let f = find::func(&lay, "new", Some("Layout"))?;
    in_order(
        &toks(&f.block),
        &["assert!(align>0);", "assert!(align.is_power_of_two());", "assert!(size.is_multiple_of(align));", "Self{size,align}"],
        "Layout::new",
    )?;
    let f = find::func(&lay, "of", Some("Layout"))?;
    in_order(
        &toks(&f.block),
        &["let std_layout = std::alloc::Layout::new::<T>();", "Self::new(std_layout.size(), std_layout.align())"],
        "Layout::of",
    )?;

    // ------------------------------------------------- typechecker/types.rs
    let types = find::parse(repo, "src/typechecker/types.rs")?;
    o.push_str("/-! ### src/typechecker/types.rs -/\n");
    for (ty, ns) in [("IntSize", "IntSize"), ("FloatSize", "FloatSize")] {
        let f = find::func(&types, "int", Some(ty))?;
        let ms = find::matches_on(&f.block, "self");
        let [m] = &ms[..] else { return Err(format!("{ty}::int: expected one match") ) };
        o.push_str(&format!("def {ns}.int : {ns} → Nat\n"));
        for a in &m.arms {
            let p = toks(&a.pat);
            let Some(v) = p.strip_prefix("Self::") else { return Err(format!("{ty}::int: pattern {p}")) };
            o.push_str(&format!("  | .{v} => {}\n", arith(&a.body)?));
        }
    }
    let f = find::func(&types, "layout", Some("Primitive"))?;
    let ms = find::matches_on(&f.block, "self");
    let [m] = &ms[..] else { return Err("Primitive::layout: expected one match".into()) };
    o.push_str("def primitiveLayout (h : HostLayouts) : Primitive → Layout\n");
    for a in &m.arms {
        let p = toks(&a.pat);
        let (lp, size_fn) = match p.as_str() {
            "Int(_,size)" => ("(.Int _ size)".to_string(), Some("IntSize.int")),
            "Float(size)" => ("(.Float size)".to_string(), Some("FloatSize.int")),
            "Bool" | "Char" | "Asn" | "String" | "IpAddr" | "Prefix" => (format!(".{p}"), None),
            other => return Err(format!("Primitive::layout: unsupported pattern {other}")),
        };
        let body = match &*a.body {
            Expr::Block(b) => straight(&b.block.stmts, false)?,
            e => format!("  {}\n", arith(e)?),
        };
        let body = match size_fn {
            Some(sf) => body.replace("sizeInt", sf),
            None => body,
        };
        o.push_str(&format!("  | {lp} =>\n  {}", body.replace('\n', "\n  ").trim_end_matches(' ')));
    }
    // default_types(): the three enums
    let f = find::func(&types, "default_types", None)?;
    let body = toks(&f.block);
    for (name, lean) in [("Option", "defaultOption"), ("Verdict", "defaultVerdict"), ("Result", "defaultResult")] {
        // EnumType{name:"Option",doc:…,params:vec!["T"],variants:vec![("Some",vec![Type::ExplicitVar("T".into())]),("None",vec![]),],}
        let key = format!("EnumType{{name:\"{name}\",");
        let start = pos(&body, &key, "default_types")?;
        let rest = &body[start..];
        let pstart = rest.find("params:vec![").ok_or("default_types: params")? + "params:vec![".len();
        let pend = rest[pstart..].find(']').ok_or("default_types: params end")? + pstart;
        let params: Vec<String> = rest[pstart..pend].split(',').filter(|s| !s.is_empty()).map(|s| s.trim_matches('"').to_string()).collect();
        let vstart = rest.find("variants:vec![").ok_or("default_types: variants")? + "variants:vec![".len();
        let vend = rest[vstart..].find("],}").ok_or("default_types: variants end")? + vstart;
        let vtext = &rest[vstart..vend];
        let arr: syn::ExprArray = syn::parse_str(&format!("[{vtext}]")).map_err(|e| format!("default_types: {name}: {e}"))?;
        let mut vs = vec![];
        for el in &arr.elems {
            let Expr::Tuple(t) = el else { return Err(format!("default_types: {name}: variant is not a tuple")) };
            let [Expr::Lit(syn::ExprLit { lit: syn::Lit::Str(vn), .. }), Expr::Macro(fm)] = &t.elems.iter().cloned().collect::<Vec<_>>()[..] else {
                return Err(format!("default_types: {name}: unsupported variant `{}`", toks(el)));
            };
            let vn = vname(&vn.value())?;
            let ft = strip(&fm.mac.tokens.to_string());
            let mut fields = vec![];
            for fpart in ft.split(',').filter(|s| !s.is_empty()) {
                let Some(pn) = fpart.strip_prefix("Type::ExplicitVar(\"").and_then(|s| s.strip_suffix("\".into())")) else {
                    return Err(format!("default_types: {name}: a variant field is not a type parameter: {fpart}"));
                };
                let idx = params.iter().position(|p| p == pn).ok_or_else(|| format!("default_types: {name}: unknown parameter {pn}"))?;
                fields.push(idx.to_string());
            }
            vs.push(format!("({vn}, {})", lean_list(&fields)));
        }
        o.push_str(&format!(
            "/-- `{name}` in `default_types()`: variants in order, each with the indices of the type parameters of its fields -/\ndef {lean} : List (VName × List Nat) := {}\ndef {lean}Params : Nat := {}\n",
            lean_list(&vs),
            params.len()
        ));
    }

    // ------------------------------------------------------------ value/*.rs
    o.push_str("\n/-! ### src/value/{option,result,verdict}.rs -/\n");
    for (file, en, lean) in [
        ("src/value/option.rs", "RotoOption", "rotoOption"),
        ("src/value/result.rs", "RotoResult", "rotoResult"),
        ("src/value/verdict.rs", "Verdict", "verdict"),
    ] {
        let f = find::parse(repo, file)?;
        let (vs, repr) = mirror_enum(&f, en)?;
        let vs: Vec<String> = vs.iter().map(|(n, k)| format!("({n}, {})", lean_list(k))).collect();
        o.push_str(&format!(
            "/-- `{en}`: variants in declaration order, each with the indices of the type parameters of its fields -/\ndef {lean}Variants : List (VName × List Nat) := {}\ndef {lean}ReprU8 : Bool := {repr}\n",
            lean_list(&vs)
        ));
    }
    let vm = find::parse(repo, "src/value/mod.rs")?;
    o.push_str("\n/-! ### src/value/mod.rs -/\n");
    let mut kinds = vec![];
    let mut descriptions = vec![];
    let mut simple = vec![];
    let mut simple_kind = None;
    for item in &vm.items {
        match item {
            syn::Item::Impl(i) => {
                let Some((_, tr, _)) = &i.trait_ else { continue };
                if toks(tr) != "Value" {
                    continue;
                }
                let ty = toks(&i.self_ty);
                let ap = assoc_type(i, "AsParam").ok_or_else(|| format!("impl Value for {ty}: no AsParam"))?;
                let tf = assoc_type(i, "Transformed").ok_or_else(|| format!("impl Value for {ty}: no Transformed"))?;
                let head = rust_head(&ty)?;
                // the mirror type the pointer points to
                let mirror_ok = match head.as_str() {
                    ".Option" => tf == "RotoOption<T::Transformed>",
                    ".Result" => tf == "RotoResult<T::Transformed,E::Transformed>",
                    ".Verdict" => tf == "Verdict<A::Transformed,R::Transformed>",
                    _ => tf == "Self",
                };
                if !mirror_ok {
                    return Err(format!("impl Value for {ty}: unexpected Transformed = {tf}"));
                }
                kinds.push(format!("({head}, {})", as_param_kind(&ty, &ap)?));
                // how the registry describes the type to the gate: `TypeDescription::X(…)` over the
                // type parameters, in which order
                if matches!(head.as_str(), ".Option" | ".Result" | ".Verdict" | ".List") {
                    descriptions.push(resolve_description(i, &ty, &head)?);
                }
            }
            syn::Item::Macro(m) => {
                let name = m.mac.path.to_token_stream().to_string();
                if name == "macro_rules" && m.ident.as_ref().is_some_and(|i| i == "simple_value") {
                    let def = strip(&m.mac.tokens.to_string());
                    in_order(
                        &def,
                        &["impl Param<$t> for $t", "impl Value for $t { type Transformed = Self; type AsParam = Self;"],
                        "simple_value!",
                    )?;
                    simple_kind = Some(".byValue");
                } else if name == "simple_value" {
                    let t = strip(&m.mac.tokens.to_string());
                    let (ty, _ir) = t.split_once(',').ok_or("simple_value! invocation")?;
                    simple.push(rust_head(ty)?);
                }
            }
            _ => {}
        }
    }
    let sk = simple_kind.ok_or("macro_rules! simple_value not found")?;
    for s in &simple {
        kinds.push(format!("({s}, {sk})"));
    }
    o.push_str(&format!(
        "/-- `type AsParam` of every `impl Value` (the `simple_value!` types last) -/\ndef asParamKinds : List (RustHead × ParamKind) := {}\ndef simpleValues : List RustHead := {}\n",
        lean_list(&kinds),
        lean_list(&simple)
    ));
    o.push_str(&format!(
        "/-- `Value::resolve` of the generic types: the `TypeDescription` constructor stored for the Rust type and, per \
         component, the position of the type parameter it describes (`Result<T, E>` is `Result(T, E)`) -/\n\
         def rustDescriptions : List (RustHead × GateHead × List Nat) := {}\n",
        lean_list(&descriptions)
    ));
    // Param impls: `*mut T` reads with ptr::read, `as_param` takes the address
    let vms = toks(&vm);
    in_order(
        &vms,
        &["impl<T>Param<T>for*mutT{fn as_param(transformed:&mut T)->Self{transformed as*mut T}fn to_value(self)->T{unsafe{std::ptr::read(self)}}"],
        "Param<T> for *mut T",
    )?;
    in_order(
        &vms,
        &["impl<T>Param<Val<T>>for*mutT{fn as_param(value:&mut Val<T>)->Self{&mut value.0 as*mut _}fn to_value(self)->Val<T>{Val(unsafe{std::ptr::read(self)})}"],
        "Param<Val<T>> for *mut T",
    )?;

    // -------------------------------------------------------------- mir/ty.rs
    let ty = find::parse(repo, "src/mir/ty.rs")?;
    o.push_str("\n/-! ### src/mir/ty.rs -/\n");
    let f = find::func(&ty, "layout_of", Some("Pool"))?;
    let b = toks(&f.block);
    in_order(
        &b,
        &[
            "Ty::Never=>return None,",
            "Ty::Unit=>Layout::new(0,1),",
            "Ty::Primitive(primitive)=>primitive.layout(),",
            "Ty::Runtime(type_id)=>{rt.get_runtime_type(*type_id).unwrap().layout()}",
            "Ty::Record(fields)=>{let mut builder=LayoutBuilder::new();for&(_,t)in fields{builder.add(&self.layout_of(t,rt)?);}builder.finish()}",
            "for(_,fields)in variants{let mut builder=LayoutBuilder::new();builder.add(&Layout::of::<",
            "Ty::List(_)=>Layout::of::<ErasedList>(),",
            "Some(layout)",
        ],
        "Pool::layout_of",
    )?;
    {
        // the enum arm: fields added after the tag until one has no layout (then the variant is
        // skipped), as a `try_fold` or as a loop with a flag; the running union through `map_or`
        // or through a `match`
        let mut alts = vec![];
        for annotated in [false, true] {
            for fold in [true, false] {
                for map_or in [true, false] {
                    let mut v = vec![format!(
                        "Ty::Enum(variants)=>{{let mut layout{}=None;for(_,fields)in variants{{let mut builder=LayoutBuilder::new();builder.add(&Layout::of::<",
                        if annotated { ":Option<Layout>" } else { "" }
                    )];
                    if fold {
                        v.push("let builder=fields.iter().try_fold(builder,|mut __P_b,__P_t|{let __P_l_S=self.layout_of(*__P_t,rt)?;__P_b.add(&__P_l_S);Some(__P_b)});".to_string());
                        v.push("let Some(builder)=builder else{continue;};".to_string());
                    } else {
                        v.push("let mut __P_inh=true;for __P_t in fields.iter(){match self.layout_of(*__P_t,rt){Some(__P_fl)=>{builder.add(&__P_fl);}None=>{__P_inh=false;break;}}}".to_string());
                        v.push("if!__P_inh{continue;}".to_string());
                    }
                    v.push("let variant_layout=builder.finish();".to_string());
                    v.push(if map_or {
                        "layout=Some(layout.map_or(variant_layout.clone(),|__P_u:Layout|{__P_u.union(&variant_layout)}),);}layout?}".to_string()
                    } else {
                        "layout=Some(match layout{None=>variant_layout.clone(),Some(__P_u)=>__P_u.union(&variant_layout),});}layout?}".to_string()
                    });
                    alts.push(v);
                }
            }
        }
        any_alt(&text(&f.block), &alts, "Pool::layout_of (enum arm)")?;
    }
    // the tag layout: the argument of the first `builder.add(&…)` of the enum arm / of `location`
    let tag_of = |text: &str, before: &str, what: &str| -> R {
        let key = strip(before);
        let p = pos(text, &key, what)? + key.len();
        let rest = &text[p..];
        let e = rest.find(");").ok_or_else(|| format!("{what}: tag layout expression"))?;
        let ex: Expr = syn::parse_str(&rest[..e]).map_err(|e| format!("{what}: tag layout: {e}"))?;
        arith(&ex)
    };
    let enum_tag = tag_of(&b, "for(_,fields)in variants{let mut builder=LayoutBuilder::new();builder.add(&", "Pool::layout_of")?;
    o.push_str(&format!("/-- `Pool::layout_of` has the recognised shape (constants below; recursion modelled in `Model/Boundary.lean`) -/\ndef unitLayout : Layout := (Layout.new 0 1)\ndef enumTagLayout : Layout := {enum_tag}\ndef listLayout (h : HostLayouts) : Layout := h.list\n"));
    let f = find::func(&ty, "is_reference_type", Some("Pool"))?;
    let b = toks(&f.block);
    let zs = strip("if self.layout_of(ty, rt)?.size() == 0 { return Some(false); }");
    let zs_rt = strip("if !matches!(self.get(ty), Ty::Runtime(_)) && self.layout_of(ty, rt)?.size() == 0 { return Some(false); }");
    let mode = if b.matches(&zs_rt).count() == 1 && b.find(&zs_rt) < b.find("letres=matchself.get(ty)") {
        ".zeroSizedNoneUnlessRuntime"
    } else if b.matches(&zs).count() == 1 && b.find(&zs) < b.find("letres=matchself.get(ty)") {
        ".zeroSizedNone"
    } else {
        return Err("is_reference_type: the zero-sized test before the match was not recognised".into());
    };
    o.push_str(&format!(
        "/-- the zero-sized early return of `is_reference_type` (as a `LowerStep`: with or without the exemption of registered types) -/\ndef isReferenceZeroSized : LowerStep := {mode}\n"
    ));
    let ms = find::matches_on(&f.block, "self.get(ty)");
    let [m] = &ms[..] else { return Err("is_reference_type: expected one match".into()) };
    o.push_str("def isReferenceKind : MKind → Option Bool\n");
    for a in &m.arms {
        let body = match toks(&a.body).as_str() {
            "true" => "some true",
            "false" => "some false",
            "return None" | "returnNone" => "none",
            other => return Err(format!("is_reference_type: unsupported arm body {other}")),
        };
        let pats = match &a.pat {
            Pat::Or(o) => o.cases.iter().cloned().collect::<Vec<_>>(),
            p => vec![p.clone()],
        };
        let mut lean_pats = vec![];
        for p in pats {
            let t = toks(&p);
            match t.as_str() {
                "Ty::Never" => lean_pats.push(".Never".to_string()),
                "Ty::Unit" => lean_pats.push(".Unit".to_string()),
                "Ty::Record(_)" => lean_pats.push(".Record".to_string()),
                "Ty::Enum(_)" => lean_pats.push(".Enum".to_string()),
                "Ty::List(_)" => lean_pats.push(".List".to_string()),
                "Ty::Runtime(_)" => lean_pats.push(".Runtime".to_string()),
                _ => {
                    let Some(inner) = t.strip_prefix("Ty::Primitive(").and_then(|s| s.strip_suffix(")")) else {
                        return Err(format!("is_reference_type: unsupported pattern {t}"));
                    };
                    for alt in inner.trim_end_matches(',').split('|') {
                        let Some(v) = alt.strip_prefix("Primitive::") else {
                            return Err(format!("is_reference_type: unsupported pattern {t}"));
                        };
                        let lp = match v {
                            "Int(..)" => "(.Primitive (.Int _ _))".to_string(),
                            "Float(..)" => "(.Primitive (.Float _))".to_string(),
                            "String" | "IpAddr" | "Prefix" | "Bool" | "Char" | "Asn" => format!("(.Primitive .{v})"),
                            other => return Err(format!("is_reference_type: unsupported primitive pattern {other}")),
                        };
                        lean_pats.push(lp);
                    }
                }
            }
        }
        o.push_str(&format!("  | {} => {body}\n", lean_pats.join(" | ")));
    }
    if !b.ends_with("Some(res)}") {
        return Err("is_reference_type must end with Some(res)".into());
    }

    // ------------------------------------------------------------ lir/lower.rs
    let lower = find::parse(repo, "src/lir/lower.rs")?;
    o.push_str("\n/-! ### src/lir/lower.rs -/\n");
    let f = find::func(&lower, "lower_type", Some("Lowerer"))?;
    let b = toks(&f.block);
    let step_frags: [(&str, String); 6] = [
        (".zeroSizedNone", strip("if self.layout_of(ty).is_some_and(|l| l.size() == 0) { return None; }")),
        (
            ".zeroSizedNoneUnlessRuntime",
            strip("if !matches!(self.ctx.type_info.ty_pool.get(ty), Ty::Runtime(_)) && self.layout_of(ty).is_some_and(|l| l.size() == 0) { return None; }"),
        ),
        (".primTable", strip("if let Ty::Primitive(p) = ty_kind {")),
        (".listPointer", strip("if let Ty::List(_) = ty_kind { return Some(IrType::Pointer); }")),
        (".runtimePointer", strip("if let Ty::Runtime(_) = ty_kind { return Some(IrType::Pointer); }")),
        (
            ".referencePointerElseIce",
            strip("Some(match ty { x if self.is_reference_type(x)? => IrType::Pointer, _ => ice!(\"could not lower: {ty:?}\"), })"),
        ),
    ];
    let mut steps: Vec<(usize, &str)> = vec![];
    for (name, frag) in &step_frags {
        match b.matches(frag.as_str()).count() {
            0 => {}
            1 => steps.push((b.find(frag.as_str()).unwrap(), name)),
            n => return Err(format!("lower_type: step {name} occurs {n} times")),
        }
    }
    steps.sort();
    // everything in the body must be accounted for: the recognised steps, the
    // `let ty_kind = …` binding and the primitive table
    let mut rest = b.clone();
    for (_, frag) in &step_frags {
        rest = rest.replace(frag.as_str(), "");
    }
    let ms = find::matches_on(&f.block, "p");
    let [m] = &ms[..] else { return Err("lower_type: expected one `match p`".into()) };
    let prim_text = format!("useFloatSize::*;useIntKind::*;useIntSize::*;'prim:{{returnSome({});}}}}", toks(m));
    for known in [prim_text.as_str(), "letty_kind=self.ctx.type_info.ty_pool.get(ty);"] {
        if rest.matches(known).count() != 1 {
            return Err(format!("lower_type: expected fragment `{known}`"));
        }
        rest = rest.replace(known, "");
    }
    if rest != "{}" {
        return Err(format!("lower_type: unrecognised code `{rest}`"));
    }
    o.push_str(&format!(
        "/-- steps of `Lowerer::lower_type` in source order -/\ndef lowerTypeSteps : List LowerStep := {}\n",
        lean_list(&steps.iter().map(|s| s.1.to_string()).collect::<Vec<_>>())
    ));
    o.push_str("def lowerPrim : Primitive → Option IrType\n");
    let mut has_wild = false;
    for a in &m.arms {
        let p = toks(&a.pat);
        let body = toks(&a.body);
        if p == "_" {
            if body != "break'prim" {
                return Err(format!("lower_type: wildcard arm must break: {body}"));
            }
            has_wild = true;
            o.push_str("  | _ => none\n");
            continue;
        }
        let Some(irt) = body.strip_prefix("IrType::") else { return Err(format!("lower_type: arm body {body}")) };
        let lp = if let Some(inner) = p.strip_prefix("Primitive::Int(").and_then(|s| s.strip_suffix(")")) {
            let (k, s) = inner.split_once(',').ok_or("lower_type: Int pattern")?;
            format!("(.Int .{k} .{s})")
        } else if let Some(inner) = p.strip_prefix("Primitive::Float(").and_then(|s| s.strip_suffix(")")) {
            format!("(.Float .{inner})")
        } else if let Some(v) = p.strip_prefix("Primitive::") {
            format!(".{v}")
        } else {
            return Err(format!("lower_type: pattern {p}"));
        };
        o.push_str(&format!("  | {lp} => some .{irt}\n"));
    }
    if !has_wild {
        o.push_str("  | _ => none\n");
    }
    // Lowerer::location: the `VariantField` loop
    let floc = find::func(&lower, "location", Some("Lowerer"))?;
    let bl = toks(&floc.block);
    in_order_pat(
        &text(&floc.block),
        &[
            "mir::Projection::VariantField(variant_name,n)=>{let Ty::Enum(variants)=self.ctx.type_info.ty_pool.get(ty)else{ice!()};let mut builder=LayoutBuilder::new();builder.add(&Layout::of::<",
            "let variant=variants.iter().find(|v|v.0==variant_name).unwrap();",
            "let mut __P_last=None;let mut __P_off=0;for&__P_fty in variant.1.iter().take(n+1){__P_off=builder.add(&self.layout_of(__P_fty)?);__P_last=Some(__P_fty);}",
            "ty=__P_last.unwrap();offset+=__P_off;",
            "Some(Location::Pointer{base,offset})",
        ],
        "Lowerer::location",
    )?;
    let loc_tag = {
        let key = strip("else{ice!()};let mut builder=LayoutBuilder::new();builder.add(&");
        let p = pos(&bl, &key, "Lowerer::location")? + key.len();
        let rest = &bl[p..];
        let e = rest.find(");").ok_or("Lowerer::location: tag layout expression")?;
        let ex: Expr = syn::parse_str(&rest[..e]).map_err(|e| format!("Lowerer::location: tag layout: {e}"))?;
        arith(&ex)?
    };
    o.push_str(&format!("/-- the tag `Lowerer::location` skips before the fields of a variant (`VariantField` loop) -/\ndef locationTagLayout : Layout := {loc_tag}\n"));
    // ir_signature: parameter filter and the return rule
    let host = toks(&lower);
    in_order(
        &host,
        &[
            "let(return_ir_type,return_ptr)=match lowerer.is_reference_type(return_type){Some(true)=>(None,true),Some(false)=>(lowerer.lower_type(return_type),false),None=>(None,false),};",
            "let ir_signature=Signature{parameters:",
            ".collect(),context:true,return_ptr,return_type:return_ir_type,};",
        ],
        "ir_signature",
    )?;
    // the pairing of names and lowered types is translated; that its types are `filterMap lower_type` of the
    // parameter types (= `.lowerType`) and that names stay aligned are theorems (Props/C05: sig_params_types,
    // sig_params_aligned)
    o.push_str(&sig_params_def(&lower)?);
    o.push_str("/-- `ir_signature.parameters`: kept iff `lower_type` is `Some` (theorem `sig_params_types` over `sigParamsOf`) -/\ndef sigParamFilter : ArgFilter := .lowerType\n/-- `ir_signature.context` -/\ndef sigContext : Bool := true\n");
    let f = find::func(&lower, "call", Some("Lowerer"))?;
    let b = toks(&f.block);
    let call_filter = if b.matches(&strip("filter_map(|(v, t)| { self.layout_of(t).filter(|l| !l.is_zero_sized()).map(|_| v) })")).count() == 1 {
        ".nonZeroLayout"
    } else if b.matches(&strip("filter_map(|(v, t)| self.lower_type(t).map(|_| v))")).count() == 1 {
        ".lowerType"
    } else {
        return Err("Lowerer::call: argument filter not recognised".into());
    };
    in_order(
        &b,
        &[
            "let reference_return=self.is_reference_type(return_type);",
            "Some(true)=>{let layout=self.layout_of(return_type).unwrap();let out_ptr=self.new_stack_slot(layout);(None,Some(out_ptr))}",
            "Some(false)=>{let to=self.lower_type(return_type).map(|ty|(self.new_tmp(ty),ty));(to,None)}",
            "self.emit(Instruction::Call{to:to.clone(),ctx:Some(ctx.into()),func,args,return_ptr:out_ptr.clone(),});",
        ],
        "Lowerer::call",
    )?;
    o.push_str(&format!("/-- arguments of a script-to-script call -/\ndef callArgFilter : ArgFilter := {call_filter}\n"));
    let f = find::func(&lower, "call_runtime", Some("Lowerer"))?;
    let b = toks(&f.block);
    in_order(
        &b,
        &[
            "let layout=self.layout_of(return_type).unwrap_or_else(||Layout::new(0,1));let out_ptr=self.new_stack_slot(layout);",
            "args.push(Operand::Place(out_ptr.clone()));parameters.push((\"ret\".into(),IrType::Pointer));",
            "args.push(base.into());parameters.push((format!(\"vtable_{i}\").into(),IrType::Pointer));",
            "let ir_signature=Signature{parameters,context:false,return_ptr:true,return_type:None,};",
            "self.emit(Instruction::CallRuntime{func:func_ref,args,});",
            "if self.is_reference_type(return_type)?{Some(out_ptr.into())}else{let ty=self.lower_type(return_type)?;let tmp=self.new_tmp(ty);self.emit_read(tmp.clone(),out_ptr.into(),ty);Some(tmp.into())}",
        ],
        "Lowerer::call_runtime",
    )?;
    {
        let plain = "{let Some(__P_irty_S)=self.lower_type(ty)else{continue;};args.push(arg.into());parameters.push((i.to_string().into(),__P_irty_S));continue;}";
        any_alt(
            &text(&f.block),
            &[
                vec![format!("if!dyn_vals[i]{plain}")],
                vec!["let __P_dyn=dyn_vals[i];".to_string(), format!("if!__P_dyn{plain}")],
            ],
            "Lowerer::call_runtime (arguments that are no DynVal)",
        )?;
    }
    o.push_str("/-- arguments of a call to a registered function: out pointer, vtables, then the arguments whose `lower_type` is `Some` -/\ndef callRuntimeSlots : List Slot := [.retPtr, .vtables, .params]\ndef callRuntimeArgFilter : ArgFilter := .lowerType\n");

    // ----------------------------------------------------------- codegen/mod.rs
    let cg = find::parse(repo, "src/codegen/mod.rs")?;
    o.push_str("\n/-! ### src/codegen/mod.rs -/\n");
    let f = find::func(&cg, "cranelift_type", Some("ModuleBuilder"))?;
    let ms = find::matches_on(&f.block, "ty");
    let [m] = &ms[..] else { return Err("cranelift_type: expected one match".into()) };
    o.push_str("def craneliftType : IrType → AbiTy\n");
    for a in &m.arms {
        let pats: Vec<String> = toks(&a.pat)
            .split('|')
            .map(|p| p.strip_prefix("IrType::").map(|v| format!(".{v}")).ok_or_else(|| format!("cranelift_type: pattern {p}")))
            .collect::<Result<_, _>>()?;
        let body = match toks(&a.body).as_str() {
            "I8" => ".I8",
            "I16" => ".I16",
            "I32" => ".I32",
            "I64" => ".I64",
            "F32" => ".F32",
            "F64" => ".F64",
            // x86-64 / aarch64: the ISA's pointer type is 64 bits (checked by the harness)
            "self.isa.pointer_type()" => ".I64",
            other => return Err(format!("cranelift_type: body {other}")),
        };
        o.push_str(&format!("  | {} => {body}\n", pats.join(" | ")));
    }
    let slot_order = |text: &str, frags: [(&str, &str); 3], what: &str| -> Result<String, String> {
        let mut ps = vec![];
        for (slot, frag) in frags {
            ps.push((pos(text, frag, what)?, slot));
        }
        ps.sort();
        Ok(lean_list(&ps.iter().map(|p| p.1.to_string()).collect::<Vec<_>>()))
    };
    let f = find::func(&cg, "declare_function", Some("ModuleBuilder"))?;
    let b = toks(&f.block);
    let decl = slot_order(
        &b,
        [
            (".retPtr", "if ir_signature.return_ptr{sig.params.push(AbiParam::new(self.cranelift_type(&IrType::Pointer)));}"),
            (".ctx", "if ir_signature.context{sig.params.push(AbiParam::new(self.cranelift_type(&IrType::Pointer)));}"),
            (".params", "for(_,ty)in&ir_signature.parameters{sig.params.push(AbiParam::new(self.cranelift_type(ty)));}"),
        ],
        "declare_function",
    )?;
    in_order(
        &b,
        &[
            "sig.returns=match&ir_signature.return_type{Some(ty)=>vec![AbiParam::new(self.cranelift_type(ty))],None=>Vec::new(),};",
            "return_by_ref:ir_signature.return_ptr,",
        ],
        "declare_function",
    )?;
    let f = find::func(&cg, "define_function", Some("ModuleBuilder"))?;
    let b = toks(&f.block);
    let defn = slot_order(
        &b,
        [
            (".retPtr", "if return_ptr{sig.params.push(AbiParam::new(self.cranelift_type(&IrType::Pointer)));}"),
            (".ctx", "if context{sig.params.push(AbiParam::new(self.cranelift_type(&IrType::Pointer)));}"),
            (".params", "for(_,ty)in parameters{sig.params.push(AbiParam::new(self.cranelift_type(ty)));}"),
        ],
        "define_function",
    )?;
    let f = find::func(&cg, "entry_block", Some("FuncGen"))?;
    let b = toks(&f.block);
    let after = b.find("letmutargs=args.into_iter();").ok_or("entry_block: args iterator")?;
    let entry = slot_order(
        &b[after..],
        [
            (".retPtr", "if return_ptr{self.def(self.module.variable_map[&Var{scope:self.scope,kind:VarKind::Return,}].0,args.next().unwrap(),)}"),
            (".ctx", "if context{self.def(self.module.variable_map[&Var{scope:self.scope,kind:VarKind::Context,}].0,args.next().unwrap(),);}"),
            (".params", "for((x,_),val)in parameters.iter().zip(args){"),
        ],
        "entry_block",
    )?;
    o.push_str(&format!(
        "/-- order in which the hidden and visible parameters are declared / defined / bound -/\ndef declareSlots : List Slot := {decl}\ndef defineSlots : List Slot := {defn}\ndef entrySlots : List Slot := {entry}\n"
    ));
    let cgs = toks(&cg);
    in_order(
        &cgs,
        &["let mut new_args=Vec::new();new_args.push(ptr);new_args.extend(args.iter().map(|op|self.operand(op).0));self.ins().call(func_ref,&new_args);"],
        "CallRuntime codegen",
    )?;
    o.push_str("/-- `CallRuntime`: the registered closure's address is passed first -/\ndef callRuntimePrefix : List Slot := [.fnPtr]\n");

    // --------------------------------------------------------- codegen/check.rs
    let ck = find::parse(repo, "src/codegen/check.rs")?;
    o.push_str("\n/-! ### src/codegen/check.rs (`func!`) -/\n");
    let mut def = None;
    let mut arities = vec![];
    for item in &ck.items {
        let syn::Item::Macro(m) = item else { continue };
        let name = m.mac.path.to_token_stream().to_string();
        if name == "macro_rules" && m.ident.as_ref().is_some_and(|i| i == "func") {
            def = Some(strip(&m.mac.tokens.to_string()));
        } else if name == "func" {
            let t = strip(&m.mac.tokens.to_string());
            let inner = t.strip_prefix("fn(").and_then(|s| s.strip_suffix(")->R")).ok_or("func! invocation")?;
            arities.push(inner.split(',').filter(|s| !s.is_empty()).count().to_string());
        }
    }
    let def = def.ok_or("macro_rules! func not found")?;
    in_order(
        &def,
        &[
            "type RotoWithReturnPointer=extern\"C\"fn(*mut$r::Transformed,*mut(),$($a::AsParam),*)->();",
            "type RotoWithoutReturnPointer=extern\"C\"fn(*mut(),$($a::AsParam,)*)->$r::Transformed;",
            "let mut transformed=($(<$a as Value>::transform($a),)*);",
            "let($($a,)*)=($(<$a as Value>::as_param($a),)*);",
            "std::mem::forget(transformed);",
        ],
        "func!",
    )?;
    {
        // the call through the transmuted pointer: the context cast inline or hoisted into a
        // local, the result untransformed through `Self::Return` (= `R` in this impl) or `R`
        let mut alts = vec![];
        for ctx_local in [false, true] {
            for direct in [false, true] {
                let ctx = if ctx_local { "__P_ctx" } else { "ctx as*mut Ctx as*mut()" };
                let mut v = vec![];
                if ctx_local {
                    v.push("let __P_ctx=ctx as*mut Ctx as*mut();".to_string());
                }
                v.push("if return_by_ref{let __P_f_S=unsafe{std::mem::transmute::<*const u8,Self::RotoWithReturnPointer>(func_ptr)};".to_string());
                v.push(format!("__P_f_S(ret.as_mut_ptr(),{ctx},$($a),*);"));
                v.push(if direct {
                    "let __P_tr=unsafe{ret.assume_init()};<R as Value>::untransform(__P_tr)}".to_string()
                } else {
                    "let __P_tr=unsafe{ret.assume_init()};let __P_ret_S:Self::Return=Self::Return::untransform(__P_tr);__P_ret_S}".to_string()
                });
                v.push("else{let __P_g_S=unsafe{std::mem::transmute::<*const u8,Self::RotoWithoutReturnPointer>(func_ptr)};".to_string());
                v.push(format!("let __P_r2_S=__P_g_S({ctx},$($a),*);<R as Value>::untransform(__P_r2_S)}}"));
                alts.push(v);
            }
        }
        let def_text = ck
            .items
            .iter()
            .find_map(|item| match item {
                syn::Item::Macro(m) if m.ident.as_ref().is_some_and(|i| i == "func") => Some(m.mac.tokens.to_string()),
                _ => None,
            })
            .ok_or("macro_rules! func not found")?;
        any_alt(&def_text, &alts, "func! (call through the transmuted pointer)")?;
    }
    o.push_str(&format!(
        "def rustWithReturnPointer : List Slot := [.retPtr, .ctx, .params]\ndef rustWithReturnPointerRet : RetSlot := .nothing\ndef rustWithoutReturnPointer : List Slot := [.ctx, .params]\ndef rustWithoutReturnPointerRet : RetSlot := .transformed\ndef funcArities : List Nat := {}\n",
        lean_list(&arities)
    ));

    // the gate in front of `RotoFunc::invoke`: which Roto type a Rust type is let through as
    o.push_str(&gate_arms(&ck, &types)?);
    // … and how a whole signature is checked: the number of parameters, every position
    // against the Rust type at the same position, the return type
    in_order(
        &def,
        &[
            "fn check_args(type_info:&mut TypeInfo,ty:&[Type])->Result<(),FunctionRetrievalError>{let[$($a),*]=ty else{",
            "return Err(FunctionRetrievalError::IncorrectNumberOfArguments{",
            "$(i+=1;check_roto_type_reflect::<$a>(type_info,$a).map_err(|e|FunctionRetrievalError::TypeMismatch(format!(\"argument{i}\"),e))?;)*Ok(())}",
        ],
        "func! (check_args)",
    )?;
    let refl = find::func(&ck, "check_roto_type_reflect", None)?;
    in_order(
        &toks(&refl.block),
        &["let rust_type=TypeRegistry::resolve::<T>().type_id;", "check_roto_type(type_info,rust_type,roto_type)"],
        "check_roto_type_reflect",
    )?;
    let gf = find::func(&cg, "get_function", None)?;
    in_order_pat(
        &text(&gf.block),
        &[
            "let Some(__P_sig_S) = &__P_sig_S else { return Err(FunctionRetrievalError::DoesNotExist {",
            "F::check_args(&mut self.type_info, &__P_sig_S.parameter_types)?;",
            "check_roto_type_reflect::<F::Return>(&mut self.type_info, &__P_sig_S.return_type,).map_err(",
            ")?; let __P_ptr = self.inner.0.cranelift_jit.get_finalized_function(",
            "Ok(TypedFunc { func: __P_ptr,",
        ],
        "Module::get_function",
    )?;
    o.push_str(
        "/-- `check_args` demands exactly as many parameters as the Rust function type has and checks position `i` of \
         the signature against the `i`-th Rust parameter type; `get_function` then checks the return type, all before \
         the function pointer is handed out -/\ndef gateArgsPositionwise : Bool := true\ndef gateReturnChecked : Bool := true\n",
    );

    // ----------------------------------------------------------- runtime/func.rs
    let rf = find::parse(repo, "src/runtime/func.rs")?;
    o.push_str("\n/-! ### src/runtime/func.rs (`registerable_fn!`) -/\n");
    let mut n_defs = 0;
    let mut reg_arities = vec![];
    for item in &rf.items {
        let syn::Item::Macro(m) = item else { continue };
        let name = m.mac.path.to_token_stream().to_string();
        let is_def = name == "macro_rules";
        let id = m.ident.as_ref().map(|i| i.to_string()).unwrap_or_default();
        if is_def && (id == "registerable_fn" || id == "registerable_fn_out_ptr") {
            let d = strip(&m.mac.tokens.to_string());
            in_order(
                &d,
                &["type RustWrapper=extern\"C\"fn(*const Self,*mut$r::Transformed,$($a::AsParam),*)->();"],
                &id,
            )?;
            if id == "registerable_fn" {
                // names of the inner function, its closure parameter and its locals are free;
                // the closure reference may be bound to a local before the call
                let head = "extern\"C\"fn __P_tramp<$($a:Value,)*$r:Value>(__P_x:*const impl Fn($($a,)*)->$r,out:*mut$r::Transformed,$($a:$a::AsParam),*)->(){";
                let args = "($(<$a as Value>::untransform(<$a as Value>::to_value($a)),)*);";
                let tail = "let __P_rt=<$r as Value>::transform(__P_res);unsafe{std::ptr::write(out,__P_rt)};}__P_tramp}";
                any_alt(
                    &m.mac.tokens.to_string(),
                    &[
                        vec![head.to_string(), format!("let __P_res=(unsafe{{&*__P_x}}){args}"), tail.to_string()],
                        vec![head.to_string(), format!("let __P_f_S=unsafe{{&*__P_x}};let __P_res=__P_f_S{args}"), tail.to_string()],
                    ],
                    &id,
                )?;
            } else {
                in_order_pat(
                    &m.mac.tokens.to_string(),
                    &[
                        "extern\"C\"fn __P_tramp<$($a:Value,)*$r:Value>(__P_x:*const impl Fn(OutPtr<$r>,$($a,)*),out:*mut$r::Transformed,$($a:$a::AsParam),*)->(){",
                        "(unsafe{&*__P_x})(OutPtr{ptr:out},$(<$a as Value>::untransform(<$a as Value>::to_value($a)),)*);}__P_tramp}",
                    ],
                    &id,
                )?;
            }
            n_defs += 1;
        } else if name == "registerable_fn" {
            let t = strip(&m.mac.tokens.to_string());
            let inner = t.strip_prefix("fn(").and_then(|s| s.strip_suffix(")->R")).ok_or("registerable_fn! invocation")?;
            reg_arities.push(inner.split(',').filter(|s| !s.is_empty()).count().to_string());
        }
    }
    if n_defs != 2 {
        return Err("registerable_fn! / registerable_fn_out_ptr! definitions not found".into());
    }
    o.push_str(&format!(
        "/-- parameters of a trampoline: the closure, the out pointer, then `AsParam` of every argument -/\ndef trampolineSlots : List Slot := [.fnPtr, .retPtr, .params]\ndef registerableArities : List Nat := {}\n",
        lean_list(&reg_arities)
    ));

    // ------------------------------------------------------------- context fields
    let mac = find::parse(repo, "macros/src/lib.rs")?;
    let f = find::func(&mac, "roto_context", None)?;
    in_order(
        &toks(&f.block),
        &[
            "let field_name=f.ident.as_ref().unwrap();let field_ty=&f.ty;",
            "let offset=quote!(std::mem::offset_of!(Self,#field_name));",
            "let type_id=quote!(std::any::TypeId::of::<#field_ty>());",
            "roto::__internal::ContextField{name:stringify!(#field_name),offset:#offset,type_name:#type_name,type_id:#type_id,docstring:#docstring,}",
        ],
        "derive(Context)",
    )?;
    let tc = find::parse(repo, "src/typechecker/mod.rs")?;
    let f = find::func(&tc, "declare_context", None)?;
    in_order(
        &toks(&f.block),
        &[
            "for field in&ctx.fields{let name=runtime.get_runtime_type(field.type_id).unwrap().name();",
            "self.insert_context(Meta{id:MetaId(0),node:Identifier::from(field.name),},Type::Name(TypeName{name,arguments:Vec::new(),}),field.offset,)?;",
        ],
        "declare_context",
    )?;
    let f = find::func(&lower, "assign", Some("Lowerer"))?;
    in_order(
        &toks(&f.block),
        &[
            "mir::Value::Constant(name,ty)=>{let ptr_var=self.new_tmp(IrType::Pointer);self.emit_constant_address(ptr_var.clone(),name);if let Some(to)=to{self.call_clone_of(to,Location::Pointer{base:ptr_var,offset:0,},ty,);}return;}",
            "mir::Value::Context(x)=>{let from=Location::Pointer{base:Var{scope:self.function_scope,kind:VarKind::Context,},offset:x,};if let Some(to)=to{self.call_clone_of(to,from,ty);}return;}",
        ],
        "Lowerer::assign",
    )?;
    o.push_str("\n/-! ### context fields and constants: macros/src/lib.rs, src/typechecker/mod.rs, src/lir/lower.rs -/\n/-- a context field is read (cloned) from `context pointer + offset_of!(Self, field)`, typed by the field's `TypeId`; a registered constant from the address of its stored transformed value, offset 0 -/\ndef contextFieldOffsetIsOffsetOf : Bool := true\ndef constantReadAtOffset : Nat := 0\n");

    // -------------------------------------------------------------- discriminants
    let ml = find::parse(repo, "src/mir/lower.rs")?;
    o.push_str("\n/-! ### discriminants: src/mir/lower.rs (`?`, `for`), src/value/list.rs (`list_get`) -/\n");
    let f = find::func(&ml, "question_mark", None)?;
    let b = toks(&f.block);
    let discr_of = |b: &str, lbl: &str, what: &str| -> Result<String, String> {
        // self.emit_switch(discriminant, vec![(K, lbl)], Some(other))
        let key = "self.emit_switch(discriminant,vec![(";
        let p = pos(b, key, what)? + key.len();
        let rest = &b[p..];
        let e = rest.find(',').ok_or("switch literal")?;
        let k = &rest[..e];
        if !rest[e..].starts_with(&format!(",{lbl})]")) {
            return Err(format!("{what}: switch target is not {lbl}"));
        }
        k.parse::<u64>().map_err(|_| format!("{what}: discriminant `{k}` is not a literal"))?;
        Ok(k.to_string())
    };
    let k = discr_of(&b, "continue_lbl", "question_mark")?;
    in_order(
        &b,
        &[
            "let val=self.make_enum(ty,\"None\".into(),&[]);",
            "projection:vec![Projection::VariantField(\"Some\".into(),0)],",
        ],
        "question_mark",
    )?;
    o.push_str(&format!(
        "/-- `x?`: discriminant on which evaluation continues, the variant whose field 0 is read then, the variant returned otherwise -/\ndef questionMarkContinue : Nat := {k}\ndef questionMarkPayload : VName := .Some\ndef questionMarkReturn : VName := .None\n"
    ));
    let f = find::func(&ml, "r#for", None).or_else(|_| find::func(&ml, "for", None))?;
    let b = toks(&f.block);
    let k = discr_of(&b, "lbl_body", "for")?;
    in_order(&b, &["let func_ref=self.find_method(TypeId::of::<ErasedList>(),\"get\");", "Some(lbl_cont),"], "for")?;
    o.push_str(&format!("/-- `for`: discriminant of `list.get(i)` on which the body runs -/\ndef forBodyDiscriminant : Nat := {k}\n"));
    let vl = find::parse(repo, "src/value/list.rs")?;
    let f = find::func(&vl, "list_get", None)?;
    let b = toks(&f.block);
    let key = "out.cast::<u8>().write(";
    let mut tags = vec![];
    let mut at = 0usize;
    while let Some(p) = b[at..].find(key) {
        let st = at + p + key.len();
        let e = b[st..].find(')').ok_or("list_get: write literal")? + st;
        b[st..e].parse::<u64>().map_err(|_| format!("list_get: tag `{}` is not a literal", &b[st..e]))?;
        tags.push((at + p, b[st..e].to_string()));
        at = e;
    }
    let [prov, some, none] = &tags[..] else {
        return Err(format!("list_get: expected three tag writes, found {}", tags.len()));
    };
    let some_arm = pos(&b, "Some(src)=>{", "list_get")?;
    let none_arm = b.rfind("None=>{").ok_or("list_get: None arm")?;
    let clone_at = pos(&b, "match raw.vtable.clone_fn{", "list_get")?;
    if !(some_arm < prov.0 && prov.0 < clone_at && clone_at < some.0 && some.0 < none_arm && none_arm < none.0) {
        return Err("list_get: tag writes are not (provisional, after the clone, miss)".into());
    }
    in_order(
        &b,
        &["let alignment=raw.vtable.align();", "let dst=unsafe{out.byte_add(offset)};"],
        "list_get",
    )?;
    struct LetFinder(Option<Expr>, usize);
    impl<'ast> syn::visit::Visit<'ast> for LetFinder {
        fn visit_local(&mut self, l: &'ast syn::Local) {
            if let (Pat::Ident(pi), Some(init)) = (&l.pat, &l.init) {
                if pi.ident == "offset" {
                    self.0 = Some((*init.expr).clone());
                    self.1 += 1;
                }
            }
            syn::visit::visit_local(self, l);
        }
    }
    let mut lf = LetFinder(None, 0);
    syn::visit::Visit::visit_block(&mut lf, &f.block);
    if lf.1 != 1 {
        return Err(format!("list_get: expected one `let offset = …`, found {}", lf.1));
    }
    let oexpr = lf.0.unwrap();
    o.push_str(&format!(
        "/-- `ffi::list_get`: tag written before the clone, after it (hit) and for a miss; the payload offset -/\ndef listGetProvisional : Nat := {}\ndef listGetSome : Nat := {}\ndef listGetNone : Nat := {}\ndef listGetOffset (alignment : Nat) : Nat := {}\n",
        prov.1, some.1, none.1, arith(&oexpr)?
    ));

    o.push_str("\nend RotoV.Gen.BoundaryTables\n");
    Ok(o)
}
