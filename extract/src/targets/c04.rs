//! Translator targets owned by property C04 (the signature gate).
//!
//! `gate` → `Generated/Gate.lean`:
//!  * the `TypeId` constants of `check_roto_type` (`let U16: TypeId =
//!    TypeId::of::<u16>();` ↦ `def U16 : TypeId := .prim "u16"`),
//!  * the leaf-name guard table (`x if x == U16 => "u16"`) in source order,
//!  * the whole body of `check_roto_type` as a structurally recursive Lean
//!    function over `RotoV.Gate.RustTy` (early returns, `let … else`, `?`,
//!    slice patterns and the `match rust_type.description` arms in source
//!    order),
//!  * the shape of `RotoFunc::check_args` inside the `func!` macro (arity
//!    slice pattern, per-argument loop) and the arities it is instantiated at,
//!  * the gate steps of `Module::get_function` in source order.
//!
//! Everything outside the recognised subset is an extraction failure.

use super::{Gen, Target};
use crate::find;
use quote::ToTokens;
use std::collections::HashSet;
use std::path::Path;
use syn::{BinOp, Expr, Lit, Pat, Stmt};

pub const TARGETS: &[Target] = &[
    ("gate", "Gate", gate as Gen),
    ("gatesig", "GateSig", gatesig as Gen),
    ("gatereg", "GateReg", gatereg as Gen),
    ("gatetab", "GateTab", gatetab as Gen),
    ("gateuf", "GateUF", gateuf as Gen),
];

type R = Result<String, String>;

fn toks(t: &impl ToTokens) -> String {
    t.to_token_stream().to_string().replace(' ', "")
}

fn path_str(p: &syn::Path) -> String {
    p.segments
        .iter()
        .map(|s| s.ident.to_string())
        .collect::<Vec<_>>()
        .join("::")
}

/// A string literal as a Lean `Ident` (list of code points).
fn lit_ident(s: &str) -> String {
    let cps: Vec<String> = s.chars().map(|c| (c as u32).to_string()).collect();
    format!("([{}] /- {:?} -/)", cps.join(", "), s)
}

/// Replace every free occurrence of a parameter name by the argument
/// expression (inlining of a helper whose body is a single expression /
/// statement; arguments are side-effect-free values, so substitution is what
/// the call computes).
struct Subst<'a>(&'a std::collections::HashMap<String, Expr>);
impl syn::visit_mut::VisitMut for Subst<'_> {
    fn visit_expr_mut(&mut self, e: &mut Expr) {
        if let Expr::Path(p) = e {
            if p.qself.is_none() && p.path.segments.len() == 1 {
                if let Some(r) = self.0.get(&p.path.segments[0].ident.to_string()) {
                    *e = r.clone();
                    return;
                }
            }
        }
        syn::visit_mut::visit_expr_mut(self, e);
    }
}

/// names bound by patterns below a node (a helper that re-binds one of its
/// parameters is not inlined)
#[derive(Default)]
struct Binders(Vec<String>);
impl<'ast> syn::visit::Visit<'ast> for Binders {
    fn visit_pat_ident(&mut self, p: &'ast syn::PatIdent) {
        self.0.push(p.ident.to_string());
        syn::visit::visit_pat_ident(self, p);
    }
}

/// parameter names of a function signature (receiver skipped); `None` if a parameter is not a plain name
fn param_names(sig: &syn::Signature) -> Option<Vec<String>> {
    sig.inputs
        .iter()
        .filter_map(|a| match a {
            syn::FnArg::Receiver(_) => None,
            syn::FnArg::Typed(pt) => Some(match &*pt.pat {
                Pat::Ident(i) if i.subpat.is_none() => Some(i.ident.to_string()),
                _ => None,
            }),
        })
        .collect()
}

#[derive(Default)]
struct Tr {
    /// private helper functions of the file whose body is a single expression:
    /// name ↦ (parameters, body); a call to one is translated as its body with
    /// the arguments substituted (`global_type_name("Verdict")` ↦ the
    /// `ResolvedName { … }` literal it returns)
    helpers: std::collections::HashMap<String, (Vec<String>, Expr)>,
    inline_depth: usize,
    /// `let NAME: TypeId = TypeId::of::<T>();`
    consts: Vec<(String, String)>,
    /// arms `x if x == K => "name"` of the leaf table, in source order
    leaf_arms: Vec<(String, String)>,
    /// variables bound by a `Type::Name(v)` pattern
    typename_vars: HashSet<String>,
    registry_lookup: bool,
}

const ERR_RET: &str = "returnErr(error_message)";

impl Tr {
    fn is_const(&self, s: &str) -> bool {
        self.consts.iter().any(|c| c.0 == s)
    }

    // ------------------------------------------------------------ patterns
    fn pat(&mut self, p: &Pat) -> R {
        Ok(match p {
            Pat::Wild(_) => "_".into(),
            Pat::Ident(i) if i.subpat.is_none() => i.ident.to_string(),
            Pat::Reference(r) => self.pat(&r.pat)?,
            Pat::Slice(s) => {
                let mut xs = vec![];
                for e in &s.elems {
                    if matches!(e, Pat::Rest(_)) {
                        return Err(format!("unsupported: rest pattern in slice `{}`", toks(p)));
                    }
                    xs.push(self.pat(e)?);
                }
                format!("[{}]", xs.join(", "))
            }
            Pat::Path(pp) => match path_str(&pp.path).as_str() {
                "TypeDescription::Leaf" => "(RustTy.leaf _)".into(),
                "Type::Unit" => "RotoTy.unit".into(),
                "Type::Never" => "RotoTy.never".into(),
                other => return Err(format!("unsupported path pattern {other}")),
            },
            Pat::TupleStruct(ts) => {
                let head = path_str(&ts.path);
                let all_wild = ts.elems.iter().all(|e| matches!(e, Pat::Wild(_)));
                match head.as_str() {
                    "Type::Name" => {
                        let [Pat::Ident(v)] = &ts.elems.iter().collect::<Vec<_>>()[..] else {
                            return Err("Type::Name pattern must bind one variable".into());
                        };
                        let v = v.ident.to_string();
                        self.typename_vars.insert(v.clone());
                        format!("(RotoTy.name {v}_name {v}_arguments)")
                    }
                    "Type::IntVar" if all_wild && ts.elems.len() == 2 => "RotoTy.intVar".into(),
                    "Type::FloatVar" if all_wild && ts.elems.len() == 1 => "RotoTy.floatVar".into(),
                    "TypeDescription::Val" if all_wild && ts.elems.len() == 1 => "(RustTy.val _)".into(),
                    "TypeDefinition::Runtime" | "TypeDescription::Verdict" | "TypeDescription::Result"
                    | "TypeDescription::Option" | "TypeDescription::List" => {
                        let (ctor, n) = match head.as_str() {
                            "TypeDefinition::Runtime" => ("TypeDefinition.runtime", 2),
                            "TypeDescription::Verdict" => ("RustTy.verdict", 2),
                            "TypeDescription::Result" => ("RustTy.result", 2),
                            "TypeDescription::Option" => ("RustTy.option", 1),
                            _ => ("RustTy.list", 1),
                        };
                        if ts.elems.len() != n {
                            return Err(format!("{head}: expected {n} sub-patterns"));
                        }
                        let mut xs = vec![];
                        for e in &ts.elems {
                            xs.push(self.pat(e)?);
                        }
                        format!("({ctor} {})", xs.join(" "))
                    }
                    _ => return Err(format!("unsupported pattern `{}`", toks(p))),
                }
            }
            other => return Err(format!("unsupported pattern `{}`", toks(other))),
        })
    }

    // --------------------------------------------------------------- values
    fn val(&mut self, e: &Expr) -> R {
        Ok(match e {
            Expr::Paren(p) => self.val(&p.expr)?,
            Expr::Group(p) => self.val(&p.expr)?,
            Expr::Reference(r) => self.val(&r.expr)?,
            Expr::Lit(l) => match &l.lit {
                Lit::Str(s) => lit_ident(&s.value()),
                other => return Err(format!("unsupported literal {}", toks(other))),
            },
            Expr::Path(p) => {
                let s = path_str(&p.path);
                match s.as_str() {
                    "ScopeRef::GLOBAL" => "ScopeRef.GLOBAL".into(),
                    "Type::Unit" => "RotoTy.unit".into(),
                    "Type::Never" => "RotoTy.never".into(),
                    _ if p.path.segments.len() == 1 => s,
                    _ => return Err(format!("unsupported path {s}")),
                }
            }
            Expr::Field(f) => {
                let member = f.member.to_token_stream().to_string();
                let base = toks(&f.base);
                if self.typename_vars.contains(&base) && (member == "name" || member == "arguments") {
                    format!("{base}_{member}")
                } else if member == "type_id" {
                    format!("(RustTy.type_id {})", self.val(&f.base)?)
                } else {
                    return Err(format!("unsupported field access `{}`", toks(e)));
                }
            }
            Expr::Index(ix) => {
                if toks(&ix.index) != ".." {
                    return Err(format!("unsupported index `{}`", toks(e)));
                }
                self.val(&ix.expr)?
            }
            Expr::MethodCall(mc) => {
                let name = mc.method.to_string();
                let recv = toks(&mc.receiver);
                match (recv.as_str(), name.as_str(), mc.args.len()) {
                    ("type_info", "resolve", 1) => {
                        format!("(TypeInfo.resolve type_info {})", self.val(&mc.args[0])?)
                    }
                    ("type_info", "resolve_type_name", 1) => {
                        format!("(type_info.resolve_type_name {})", self.val(&mc.args[0])?)
                    }
                    (_, "into", 0) => self.val(&mc.receiver)?,
                    _ => return Err(format!("unsupported method call `{}`", toks(e))),
                }
            }
            Expr::Call(c) => {
                let callee = toks(&c.func);
                match (callee.as_str(), c.args.len()) {
                    ("Type::named", 2) => format!(
                        "(RotoTy.named {} {})",
                        self.val(&c.args[0])?,
                        self.val(&c.args[1])?
                    ),
                    ("Vec::new", 0) => "[]".into(),
                    (f, n) if self.helpers.get(f).is_some_and(|h| h.0.len() == n) && self.inline_depth < 4 => {
                        let (params, body) = self.helpers[f].clone();
                        let map: std::collections::HashMap<String, Expr> = params.into_iter().zip(c.args.iter().cloned()).collect();
                        let mut body = body;
                        syn::visit_mut::VisitMut::visit_expr_mut(&mut Subst(&map), &mut body);
                        self.inline_depth += 1;
                        let v = self.val(&body);
                        self.inline_depth -= 1;
                        v?
                    }
                    _ => return Err(format!("unsupported call `{}`", toks(e))),
                }
            }
            Expr::Struct(s) => {
                if path_str(&s.path) != "ResolvedName" || s.rest.is_some() {
                    return Err(format!("unsupported struct literal `{}`", toks(e)));
                }
                let mut scope = None;
                let mut ident = None;
                for f in &s.fields {
                    match f.member.to_token_stream().to_string().as_str() {
                        "scope" => scope = Some(self.val(&f.expr)?),
                        "ident" => ident = Some(self.val(&f.expr)?),
                        other => return Err(format!("ResolvedName: unknown field {other}")),
                    }
                }
                format!(
                    "(ResolvedName.mk {} {})",
                    scope.ok_or("ResolvedName without scope")?,
                    ident.ok_or("ResolvedName without ident")?
                )
            }
            other => return Err(format!("unsupported expression `{}`", toks(other))),
        })
    }

    fn cond(&mut self, e: &Expr) -> R {
        match e {
            Expr::Paren(p) => self.cond(&p.expr),
            Expr::Binary(b) => {
                let op = match b.op {
                    BinOp::Eq(_) => "==",
                    BinOp::Ne(_) => "!=",
                    _ => return Err(format!("unsupported condition `{}`", toks(e))),
                };
                Ok(format!("({} {op} {})", self.val(&b.left)?, self.val(&b.right)?))
            }
            _ => Err(format!("unsupported condition `{}`", toks(e))),
        }
    }

    // ---------------------------------------------------------------- tails
    fn call_gate(&mut self, e: &Expr) -> R {
        let Expr::Call(c) = e else {
            return Err(format!("expected a call to check_roto_type, found `{}`", toks(e)));
        };
        if toks(&c.func) != "check_roto_type" || c.args.len() != 3 || toks(&c.args[0]) != "type_info" {
            return Err(format!("unsupported call `{}`", toks(e)));
        }
        Ok(format!(
            "(checkRotoType type_info {} {})",
            self.val(&c.args[1])?,
            self.val(&c.args[2])?
        ))
    }

    fn tail(&mut self, e: &Expr) -> R {
        let t = toks(e);
        if t == "Ok(())" {
            return Ok("Res.ok".into());
        }
        if t == "Err(error_message)" {
            return Ok("Res.err".into());
        }
        match e {
            Expr::Paren(p) => self.tail(&p.expr),
            Expr::Return(r) => self.tail(r.expr.as_ref().ok_or("bare return")?),
            Expr::Call(_) => self.call_gate(e),
            Expr::Macro(m) if path_str(&m.mac.path) == "panic" => Ok("Res.panic".into()),
            Expr::If(i) => {
                let c = self.cond(&i.cond)?;
                let a = self.block(&i.then_branch.stmts)?;
                let Some((_, els)) = &i.else_branch else {
                    return Err("tail `if` without else".into());
                };
                let b = match &**els {
                    Expr::Block(b) => self.block(&b.block.stmts)?,
                    other => self.tail(other)?,
                };
                Ok(format!("(if {c} then {a} else {b})"))
            }
            Expr::Block(b) => self.block(&b.block.stmts),
            _ => Err(format!("unsupported tail expression `{t}`")),
        }
    }

    // ----------------------------------------------------------- statements
    fn block(&mut self, stmts: &[Stmt]) -> R {
        let Some((first, rest)) = stmts.split_first() else {
            return Err("empty block".into());
        };
        match first {
            Stmt::Local(l) => {
                let init = l.init.as_ref().ok_or("let without initialiser")?;
                let pat_inner = match &l.pat {
                    Pat::Type(pt) => &*pt.pat,
                    p => p,
                };
                if let Some((_, els)) = &init.diverge {
                    // let PAT = E else { return Err(error_message); };
                    let e = toks(els).replace(['{', '}', ';'], "");
                    if e != ERR_RET {
                        return Err(format!("unsupported let-else branch `{}`", toks(els)));
                    }
                    let scrut = self.val(&init.expr)?;
                    let pat = self.pat(pat_inner)?;
                    let k = self.block(rest)?;
                    return Ok(format!("(match {scrut} with\n | {pat} => {k}\n | _ => Res.err)"));
                }
                let Pat::Ident(pi) = pat_inner else {
                    return Err(format!("unsupported let pattern `{}`", toks(&l.pat)));
                };
                let name = pi.ident.to_string();
                if name == "error_message" {
                    // diagnostics only
                    return self.block(rest);
                }
                if let Expr::Match(m) = &*init.expr {
                    // the leaf-name guard table
                    if !self.leaf_arms.is_empty() {
                        return Err("second guard table".into());
                    }
                    let scrut = self.val(&m.expr)?;
                    let n = m.arms.len();
                    for (i, a) in m.arms.iter().enumerate() {
                        if i + 1 == n {
                            if !matches!(a.pat, Pat::Wild(_)) || a.guard.is_some() || !toks(&a.body).starts_with("panic!") {
                                return Err(format!("guard table must end with `_ => panic!()`, found `{}`", toks(a)));
                            }
                            continue;
                        }
                        let Pat::Ident(x) = &a.pat else {
                            return Err(format!("unsupported guard-table arm `{}`", toks(a)));
                        };
                        let x = x.ident.to_string();
                        let Some((_, g)) = &a.guard else {
                            return Err(format!("guard-table arm without guard `{}`", toks(a)));
                        };
                        let gs = toks(g);
                        let Some(k) = gs.strip_prefix(&format!("{x}==")) else {
                            return Err(format!("unsupported guard `{gs}`"));
                        };
                        if !self.is_const(k) {
                            return Err(format!("guard compares with unknown constant {k}"));
                        }
                        let Expr::Lit(syn::ExprLit { lit: Lit::Str(s), .. }) = &*a.body else {
                            return Err(format!("guard-table arm body must be a string literal: `{}`", toks(a)));
                        };
                        self.leaf_arms.push((k.to_string(), s.value()));
                    }
                    let k = self.block(rest)?;
                    return Ok(format!(
                        "(match lookupFirst leafNames {scrut} with\n | some {name} => {k}\n | none => Res.panic)"
                    ));
                }
                let v = self.val(&init.expr)?;
                let k = self.block(rest)?;
                Ok(format!("(let {name} := {v};\n {k})"))
            }
            Stmt::Expr(Expr::If(i), _) if !rest.is_empty() && i.else_branch.is_none() => {
                if let Expr::Let(l) = &*i.cond {
                    // if let PAT = x { x = E; }
                    let scrut = toks(&l.expr);
                    let [Stmt::Expr(Expr::Assign(a), Some(_))] = &i.then_branch.stmts[..] else {
                        return Err(format!("unsupported `if let` body `{}`", toks(&i.then_branch)));
                    };
                    if toks(&a.left) != scrut || !matches!(&*l.expr, Expr::Path(_)) {
                        return Err("`if let` must reassign its scrutinee".into());
                    }
                    let pat = self.pat(&l.pat)?;
                    let v = self.val(&a.right)?;
                    let k = self.block(rest)?;
                    return Ok(format!(
                        "(let {scrut} := (match {scrut} with | {pat} => {v} | _ => {scrut});\n {k})"
                    ));
                }
                // if C { return X; }
                let [Stmt::Expr(r @ Expr::Return(_), _)] = &i.then_branch.stmts[..] else {
                    return Err(format!("unsupported `if` statement body `{}`", toks(&i.then_branch)));
                };
                let c = self.cond(&i.cond)?;
                let x = self.tail(r)?;
                let k = self.block(rest)?;
                Ok(format!("(if {c} then {x} else\n {k})"))
            }
            Stmt::Expr(Expr::Try(t), Some(_)) if !rest.is_empty() => {
                let c = self.call_gate(&t.expr)?;
                let k = self.block(rest)?;
                Ok(format!("(Res.seq {c}\n {k})"))
            }
            Stmt::Expr(e, None) if rest.is_empty() => self.tail(e),
            Stmt::Expr(e @ Expr::Return(_), Some(_)) if rest.is_empty() => self.tail(e),
            other => Err(format!("unsupported statement `{}`", toks(other))),
        }
    }

    /// The whole function body.
    fn function(&mut self, stmts: &[Stmt]) -> R {
        let mut i = 0;
        // prelude: TypeId constants
        while let Some(Stmt::Local(l)) = stmts.get(i) {
            let Pat::Type(pt) = &l.pat else { break };
            if toks(&pt.ty) != "TypeId" {
                break;
            }
            let name = toks(&pt.pat);
            let init = toks(&l.init.as_ref().ok_or("const without init")?.expr);
            let Some(t) = init.strip_prefix("TypeId::of::<").and_then(|s| s.strip_suffix(">()")) else {
                return Err(format!("unsupported TypeId constant `{init}`"));
            };
            self.consts.push((name, t.to_string()));
            i += 1;
        }
        if self.consts.is_empty() {
            return Err("no TypeId constants found".into());
        }
        self.body(&stmts[i..])
    }

    fn body(&mut self, stmts: &[Stmt]) -> R {
        let Some((first, rest)) = stmts.split_first() else {
            return Err("function body ends without the description match".into());
        };
        // let Some(rust_type) = TypeRegistry::get(rust_type) else { return Err(TypeMismatch{..}) };
        if let Stmt::Local(l) = first {
            if let Some(init) = &l.init {
                if toks(&init.expr) == "TypeRegistry::get(rust_type)" {
                    if toks(&l.pat) != "Some(rust_type)" || init.diverge.is_none() {
                        return Err("unsupported registry lookup".into());
                    }
                    let els = toks(&init.diverge.as_ref().unwrap().1);
                    if !els.starts_with("{returnErr(TypeMismatch{") {
                        return Err(format!("registry lookup must fail with Err: `{els}`"));
                    }
                    self.registry_lookup = true;
                    return self.body(rest);
                }
            }
        }
        // the final `match rust_type.description { … }`
        if let Stmt::Expr(Expr::Match(m), None) = first {
            if rest.is_empty() && toks(&m.expr) == "rust_type.description" {
                if !self.registry_lookup {
                    return Err("the TypeRegistry::get lookup is missing".into());
                }
                let mut out = String::from("(match rust_type with\n | RustTy.unknown => Res.err");
                for a in &m.arms {
                    if a.guard.is_some() {
                        return Err("guard on a description arm".into());
                    }
                    let pat = self.pat(&a.pat)?;
                    let body = match &*a.body {
                        Expr::Block(b) => self.block(&b.block.stmts)?,
                        other => self.tail(other)?,
                    };
                    // `rust_type` inside the arm still names the matched entry
                    let pat = match pat.as_str() {
                        "(RustTy.leaf _)" | "(RustTy.val _)" => pat,
                        _ => pat,
                    };
                    out.push_str(&format!("\n | {pat} => {body}"));
                }
                out.push(')');
                return Ok(out);
            }
        }
        // ordinary statements before the match: re-use `block` on a
        // one-statement prefix by splicing the continuation
        match first {
            Stmt::Local(l) if l.init.as_ref().is_some_and(|i| i.diverge.is_none()) => {
                let init = l.init.as_ref().unwrap();
                let Pat::Ident(pi) = &l.pat else {
                    return Err(format!("unsupported let pattern `{}`", toks(&l.pat)));
                };
                let name = pi.ident.to_string();
                if name == "error_message" {
                    return self.body(rest);
                }
                let v = self.val(&init.expr)?;
                let k = self.body(rest)?;
                Ok(format!("(let {name} := {v};\n {k})"))
            }
            Stmt::Expr(Expr::If(i), _) if i.else_branch.is_none() => {
                let Expr::Let(l) = &*i.cond else {
                    return Err(format!("unsupported statement `{}`", toks(first)));
                };
                let scrut = toks(&l.expr);
                let [Stmt::Expr(Expr::Assign(a), Some(_))] = &i.then_branch.stmts[..] else {
                    return Err(format!("unsupported `if let` body `{}`", toks(&i.then_branch)));
                };
                if toks(&a.left) != scrut || !matches!(&*l.expr, Expr::Path(_)) {
                    return Err("`if let` must reassign its scrutinee".into());
                }
                let pat = self.pat(&l.pat)?;
                let v = self.val(&a.right)?;
                let k = self.body(rest)?;
                Ok(format!(
                    "(let {scrut} := (match {scrut} with | {pat} => {v} | _ => {scrut});\n {k})"
                ))
            }
            other => Err(format!("unsupported statement `{}`", toks(other))),
        }
    }
}

// ------------------------------------------------------------------ func!

/// The token text of the `macro_rules! func` definition and the arities of
/// its invocations.
fn func_macro(file: &syn::File) -> Result<(String, Vec<usize>), String> {
    let mut def = None;
    let mut arities = vec![];
    for item in &file.items {
        let syn::Item::Macro(m) = item else { continue };
        let name = path_str(&m.mac.path);
        if name == "macro_rules" && m.ident.as_ref().is_some_and(|i| i == "func") {
            def = Some(m.mac.tokens.to_string().replace(' ', ""));
        } else if name == "func" {
            let t = m.mac.tokens.to_string().replace(' ', "");
            // fn(A1,A2)->R
            let Some(inner) = t.strip_prefix("fn(").and_then(|s| s.strip_suffix(")->R")) else {
                return Err(format!("unsupported func! invocation `{t}`"));
            };
            let params: Vec<&str> = inner.split(',').filter(|s| !s.is_empty()).collect();
            let distinct: HashSet<&&str> = params.iter().collect();
            if distinct.len() != params.len() || params.contains(&"R") {
                return Err(format!("func! invocation with repeated parameter names `{t}`"));
            }
            arities.push(params.len());
        }
    }
    Ok((def.ok_or("macro_rules! func not found")?, arities))
}

fn require(hay: &str, needle: &str, what: &str) -> Result<(), String> {
    let n = needle.replace([' ', '\n'], "");
    if hay.matches(&n).count() == 1 {
        Ok(())
    } else {
        Err(format!("{what}: expected exactly one occurrence of `{needle}`"))
    }
}

/// Position of `needle` (whitespace-free) in `hay`, which must be unique.
fn pos(hay: &str, needle: &str, what: &str) -> Result<usize, String> {
    require(hay, needle, what)?;
    Ok(hay.find(&needle.replace([' ', '\n'], "")).unwrap())
}

/// How a function body uses `self`.
#[derive(Default)]
struct SelfUse {
    fields: Vec<String>,
    muts: Vec<String>,
    calls: Vec<(String, String)>,
    /// uses of `self` that are not `self.<field>…`
    other: Vec<String>,
}

/// the field `f` if `e` is `self.f`, `self.f.x`, `self.f.0.y`, …
fn self_root(e: &Expr) -> Option<String> {
    match e {
        Expr::Field(f) => match &*f.base {
            Expr::Path(p) if p.path.is_ident("self") => Some(f.member.to_token_stream().to_string()),
            other => self_root(other),
        },
        Expr::Paren(p) => self_root(&p.expr),
        _ => None,
    }
}

fn push_uniq<T: PartialEq + Ord>(v: &mut Vec<T>, x: T) {
    if !v.contains(&x) {
        v.push(x);
        v.sort();
    }
}

impl<'ast> syn::visit::Visit<'ast> for SelfUse {
    fn visit_expr(&mut self, e: &'ast Expr) {
        match e {
            Expr::Field(_) => {
                if let Some(f) = self_root(e) {
                    push_uniq(&mut self.fields, f);
                    return;
                }
            }
            Expr::Reference(r) if r.mutability.is_some() => {
                if let Some(f) = self_root(&r.expr) {
                    push_uniq(&mut self.muts, f);
                }
            }
            Expr::Assign(a) => {
                if let Some(f) = self_root(&a.left) {
                    push_uniq(&mut self.muts, f);
                }
            }
            Expr::MethodCall(mc) => {
                if let Some(f) = self_root(&mc.receiver) {
                    push_uniq(&mut self.calls, (f, mc.method.to_string()));
                }
            }
            Expr::Path(p) if p.path.is_ident("self") => {
                self.other.push("self".into());
            }
            _ => {}
        }
        syn::visit::visit_expr(self, e);
    }
    fn visit_macro(&mut self, m: &'ast syn::Macro) {
        // format!/… arguments: look for `self` among the tokens
        if m.tokens.to_string().split(|c: char| !c.is_alphanumeric() && c != '_').any(|w| w == "self") {
            self.other.push(format!("{}!(… self …)", path_str(&m.path)));
        }
    }
}

/// `ty` in `file` derives `PartialEq` (and has no hand-written `impl PartialEq`),
/// with exactly the named fields if given.
fn derives_eq(file: &syn::File, rel: &str, ty: &str, fields: Option<Vec<&str>>) -> Result<(), String> {
    let mut found = false;
    for it in &file.items {
        let (ident, attrs, names): (&syn::Ident, &Vec<syn::Attribute>, Option<Vec<String>>) = match it {
            syn::Item::Struct(s) => (
                &s.ident,
                &s.attrs,
                match &s.fields {
                    syn::Fields::Named(n) => Some(n.named.iter().map(|f| f.ident.as_ref().unwrap().to_string()).collect()),
                    _ => None,
                },
            ),
            syn::Item::Enum(e) => (&e.ident, &e.attrs, None),
            syn::Item::Impl(i) => {
                if let Some((_, tr, _)) = &i.trait_ {
                    let t = path_str(tr);
                    if (t == "PartialEq" || t.ends_with("::PartialEq") || t == "Eq") && toks(&i.self_ty) == ty {
                        return Err(format!("{rel}: hand-written `impl {t} for {ty}`: equality of {ty} is outside the model"));
                    }
                }
                continue;
            }
            _ => continue,
        };
        if ident != ty {
            continue;
        }
        found = true;
        let derives = attrs.iter().any(|a| {
            a.path().is_ident("derive") && a.meta.to_token_stream().to_string().split(|c: char| !c.is_alphanumeric()).any(|w| w == "PartialEq")
        });
        if !derives {
            return Err(format!("{rel}: {ty} does not derive PartialEq"));
        }
        if let Some(want) = &fields {
            if names.as_deref() != Some(&want.iter().map(|s| s.to_string()).collect::<Vec<_>>()[..]) {
                return Err(format!("{rel}: fields of {ty} are {names:?}, the model has {want:?}"));
            }
        }
    }
    if found { Ok(()) } else { Err(format!("{rel}: type {ty} not found")) }
}

// ------------------------------------------------- force_filtermap_types

/// `if let Type::P(x) = self.resolve_type(S) { self.unify(&Type::P(x), &Type::F(), f.ident.id, None).unwrap(); }`
/// statements of `TypeChecker::force_filtermap_types`: (side variable, pattern, forced type).
#[derive(Default)]
struct ForceArms {
    arms: Vec<(String, String, String)>,
    bad: Vec<String>,
}

impl<'ast> syn::visit::Visit<'ast> for ForceArms {
    fn visit_expr_if(&mut self, i: &'ast syn::ExprIf) {
        if let Expr::Let(l) = &*i.cond {
            let scrut = toks(&l.expr);
            if let Some(side) = scrut.strip_prefix("self.resolve_type(").and_then(|s| s.strip_suffix(')')) {
                let pat = toks(&l.pat);
                // Type::Var(x)
                let Some((head, var)) = pat.strip_prefix("Type::").and_then(|s| s.strip_suffix(')')).and_then(|s| s.split_once('(')) else {
                    self.bad.push(format!("unsupported pattern `{pat}` on a resolved verdict side"));
                    return;
                };
                let body = toks(&i.then_branch).replace(['{', '}'], "").replace(",)", ")");
                let want_prefix = format!("self.unify(&Type::{head}({var}),&Type::");
                let want_suffix = "(),f.ident.id,None).unwrap();";
                let forced = body.strip_prefix(&want_prefix).and_then(|s| s.strip_suffix(want_suffix));
                match forced {
                    Some(f) if i.else_branch.is_none() && f.chars().all(|c| c.is_alphanumeric() || c == '_') => {
                        self.arms.push((side.to_string(), head.to_string(), f.to_string()));
                    }
                    _ => self.bad.push(format!("unsupported forcing statement `{}`", toks(i))),
                }
                return;
            }
        }
        syn::visit::visit_expr_if(self, i);
    }
}

fn force_filtermap(repo: &Path) -> Result<Vec<(String, String, String)>, String> {
    let tc = find::parse(repo, "src/typechecker/mod.rs")?;
    let f = find::func(&tc, "force_filtermap_types", Some("TypeChecker"))?;
    let body = toks(&f.block);
    require(&body, "if let ast::Declaration::FilterMap(f) = &expr {", "force_filtermap_types")?;
    require(&body, "let signature = self.type_info.function_signature(&f.ident); let return_type = signature.return_type;", "force_filtermap_types")?;
    require(&body, "let Type::Name(TypeName { name: _, arguments }) = &return_type else {", "force_filtermap_types")?;
    require(&body, "let [a, r] = &arguments[..] else {", "force_filtermap_types")?;
    // a statement `self.<m>(args);` where `<m>` is a method of the type checker whose body is one
    // `if let … = self.resolve_type(<parameter>) { … }` statement is that statement with the arguments
    // substituted (the two forcing blocks extracted into a helper called once per side)
    let mut block = f.block.clone();
    let tc_file = &tc;
    struct Inline<'a> {
        file: &'a syn::File,
    }
    impl syn::visit_mut::VisitMut for Inline<'_> {
        fn visit_block_mut(&mut self, b: &mut syn::Block) {
            for st in b.stmts.iter_mut() {
                let Stmt::Expr(Expr::MethodCall(mc), Some(_)) = st else { continue };
                if toks(&mc.receiver) != "self" {
                    continue;
                }
                let Ok(h) = find::func(self.file, &mc.method.to_string(), Some("TypeChecker")) else { continue };
                let (Some(params), [Stmt::Expr(body @ Expr::If(i), _)]) = (param_names(&h.sig), &h.block.stmts[..]) else { continue };
                let on_param = matches!(&*i.cond, Expr::Let(l) if params.iter().any(|p| toks(&l.expr) == format!("self.resolve_type({p})")));
                let mut bs = Binders::default();
                syn::visit::Visit::visit_expr(&mut bs, body);
                if !on_param || params.len() != mc.args.len() || bs.0.iter().any(|x| params.contains(x)) {
                    continue;
                }
                let map: std::collections::HashMap<String, Expr> = params.into_iter().zip(mc.args.iter().cloned()).collect();
                let mut body = body.clone();
                syn::visit_mut::VisitMut::visit_expr_mut(&mut Subst(&map), &mut body);
                *st = Stmt::Expr(body, None);
            }
            syn::visit_mut::visit_block_mut(self, b);
        }
    }
    syn::visit_mut::VisitMut::visit_block_mut(&mut Inline { file: tc_file }, &mut block);
    let body = toks(&block);
    let mut v = ForceArms::default();
    syn::visit::Visit::visit_block(&mut v, &block);
    if let Some(b) = v.bad.first() {
        return Err(format!("force_filtermap_types: {b}"));
    }
    // every unification / resolution the function performs is one of the recognised statements
    let n = v.arms.len();
    if body.matches("unify(").count() != n || body.matches("resolve_type(").count() != n || n == 0 {
        return Err(format!(
            "force_filtermap_types: {} unify / {} resolve_type calls, {n} recognised `if let Type::_(x) = self.resolve_type(side) {{ unify … }}` statements: outside the model",
            body.matches("unify(").count(),
            body.matches("resolve_type(").count()
        ));
    }
    Ok(v.arms)
}

// ------------------------------------------------------ TypeInfo::convert

/// The arms of `TypeInfo::convert` for types that are still variables:
/// (`Var` | `IntVar` | `FloatVar`, the `TyRef` constant returned).
fn convert_defaults(repo: &Path) -> Result<Vec<(String, String)>, String> {
    let info = find::parse(repo, "src/typechecker/info.rs")?;
    let f = find::func(&info, "convert", Some("TypeInfo"))?;
    let pre = toks(&f.block);
    if !pre.starts_with("{letty=self.resolve(ty);letty=matchty{") {
        return Err("TypeInfo::convert: expected `let ty = self.resolve(ty); let ty = match ty { … }`".into());
    }
    let ms = find::matches_on(&f.block, "ty");
    let Some(m) = ms.first() else { return Err("TypeInfo::convert: no `match ty`".into()) };
    let mut out = vec![];
    for a in &m.arms {
        let pat = toks(&a.pat);
        for (p, name) in [("Type::Var(_)", "Var"), ("Type::IntVar(_,_)", "IntVar"), ("Type::FloatVar(_)", "FloatVar")] {
            if pat.contains(&p[..p.find('(').unwrap()]) && pat.split('|').any(|alt| alt.starts_with(&p[..p.find('(').unwrap() + 1])) {
                if pat != p || a.guard.is_some() {
                    return Err(format!("TypeInfo::convert: unsupported arm `{}`", toks(a)));
                }
                let body = toks(&a.body);
                let Some(k) = body.strip_prefix("returnTyRef::") else {
                    return Err(format!("TypeInfo::convert: arm `{pat}` must return a TyRef constant, found `{body}`"));
                };
                out.push((name.to_string(), k.trim_end_matches(',').to_string()));
            }
        }
    }
    if out.len() != 3 {
        return Err(format!("TypeInfo::convert: expected one arm each for Var, IntVar, FloatVar; found {out:?}"));
    }
    Ok(out)
}

// ------------------------------------------------------- Value::resolve

/// What every `impl Value for X` records about `X` in the type registry:
/// (`X`, `TypeDescription` variant, for each component the index of the impl's
/// generic parameter whose registry entry (`P::resolve().type_id`) it is; 100+i
/// for `TypeId::of::<P>()`). Any other statement in a `resolve` body — a cache,
/// a branch, a different type argument to `store` — is outside the model.
fn resolve_shapes(repo: &Path) -> Result<Vec<(String, String, Vec<usize>)>, String> {
    let file = find::parse(repo, "src/value/mod.rs")?;
    let mut out = vec![];
    for it in &file.items {
        let syn::Item::Impl(i) = it else { continue };
        let Some((_, tr, _)) = &i.trait_ else { continue };
        if path_str(tr) != "Value" {
            continue;
        }
        // items that only exist for the checks' hooks are not part of the library
        if i.attrs.iter().any(|a| a.path().is_ident("cfg") && a.meta.to_token_stream().to_string().contains("verif-hooks")) {
            continue;
        }
        let ty = toks(&i.self_ty);
        let generics: Vec<String> = i.generics.params.iter().filter_map(|g| match g {
            syn::GenericParam::Type(t) => Some(t.ident.to_string()),
            _ => None,
        }).collect();
        let Some(res) = i.items.iter().find_map(|ii| match ii {
            syn::ImplItem::Fn(f) if f.sig.ident == "resolve" => Some(f),
            _ => None,
        }) else {
            return Err(format!("impl Value for {ty}: no `resolve`"));
        };
        let stmts: Vec<&Stmt> = res.block.stmts.iter().collect();
        let outside = |what: &str| Err(format!("<{ty} as Value>::resolve: {what}: outside the model (`let c = P::resolve().type_id;`… `let desc = TypeDescription::K(c…);` `TypeRegistry::store::<Self>(desc)`)"));
        let Some((last, init)) = stmts.split_last() else { return outside("empty body") };
        let last_s = toks(*last);
        if init.is_empty() {
            let Some(k) = last_s.strip_prefix("TypeRegistry::store::<Self>(TypeDescription::").and_then(|s| s.strip_suffix(')')) else {
                return outside(&format!("`{last_s}`"));
            };
            if !k.chars().all(|c| c.is_alphanumeric()) {
                return outside(&format!("`{last_s}`"));
            }
            out.push((ty, k.to_string(), vec![]));
            continue;
        }
        if last_s != "TypeRegistry::store::<Self>(desc)" {
            return outside(&format!("`{last_s}`"));
        }
        let Some((desc, lets)) = init.split_last() else { return outside("no description") };
        let mut vars: Vec<(String, usize)> = vec![];
        for st in lets {
            let t = toks(*st);
            // let v = P::resolve().type_id;  |  let v = TypeId::of::<P>();
            let Some((v, rhs)) = t.strip_prefix("let").and_then(|s| s.strip_suffix(';')).and_then(|s| s.split_once('=')) else {
                return outside(&format!("`{t}`"));
            };
            let comp = if let Some(p) = rhs.strip_suffix("::resolve().type_id") {
                generics.iter().position(|g| g == p)
            } else if let Some(p) = rhs.strip_prefix("TypeId::of::<").and_then(|s| s.strip_suffix(">()")) {
                generics.iter().position(|g| g == p).map(|i| 100 + i)
            } else {
                None
            };
            let Some(comp) = comp else { return outside(&format!("`{t}`")) };
            if !matches!(st, Stmt::Local(_)) || !v.chars().all(|c| c.is_alphanumeric() || c == '_') {
                return outside(&format!("`{t}`"));
            }
            vars.push((v.to_string(), comp));
        }
        let d = toks(*desc);
        let Some((k, args)) = d.strip_prefix("letdesc=TypeDescription::").and_then(|s| s.strip_suffix(");")).and_then(|s| s.split_once('(')) else {
            return outside(&format!("`{d}`"));
        };
        let mut comps = vec![];
        for a in args.split(',').filter(|a| !a.is_empty()) {
            let Some((_, c)) = vars.iter().find(|(v, _)| v == a) else { return outside(&format!("`{d}`")) };
            comps.push(*c);
        }
        if comps.len() != vars.len() {
            return outside("a resolved component is not used in the description");
        }
        out.push((ty, k.to_string(), comps));
    }
    // the macro-generated leaf impls and the registry itself
    let src = toks(&file);
    let mac = file.items.iter().find_map(|it| match it {
        syn::Item::Macro(m) if m.ident.as_ref().is_some_and(|i| i == "simple_value") => Some(m.mac.tokens.to_string().replace(' ', "")),
        _ => None,
    }).ok_or("macro_rules! simple_value not found")?;
    require(&mac, "impl Value for $t {", "simple_value!")?;
    require(&mac, "fn resolve() -> Ty { TypeRegistry::store::<Self>(TypeDescription::Leaf) }", "simple_value!")?;
    require(&src, "pub fn store<T: 'static>(description: TypeDescription) -> Ty { let ty = Ty::new::<T>(description); GLOBAL_TYPE_REGISTRY.lock().unwrap().map.entry(ty.type_id).or_insert_with(|| { Box::leak(Box::new(ty)) }).clone() }", "TypeRegistry::store")?;
    require(&src, "pub fn get(id: TypeId) -> Option<&'static Ty> { let registry = GLOBAL_TYPE_REGISTRY.lock().unwrap(); registry.map.get(&id).map(|v| &**v) }", "TypeRegistry::get")?;
    require(&src, "pub fn resolve<T: Value>() -> Ty { T::resolve() }", "TypeRegistry::resolve")?;
    require(&src, "fn new<T: 'static>(description: TypeDescription) -> Self { Self { rust_name: type_name::<T>(), layout: Layout::of::<T>(), type_id: TypeId::of::<T>(), description, } }", "Ty::new")?;
    Ok(out)
}

fn gate(repo: &Path) -> R {
    let file = find::parse(repo, "src/codegen/check.rs")?;
    let f = find::func(&file, "check_roto_type", None)?;
    let params: Vec<String> = f
        .sig
        .inputs
        .iter()
        .map(|a| match a {
            syn::FnArg::Typed(pt) => toks(&pt.pat),
            other => toks(other),
        })
        .collect();
    if params != ["type_info", "rust_type", "roto_type"] {
        return Err(format!("check_roto_type: unexpected parameters {params:?}"));
    }
    let mut tr = Tr::default();
    // single-expression helpers of the file (never the gate itself)
    for it in &file.items {
        let syn::Item::Fn(h) = it else { continue };
        let name = h.sig.ident.to_string();
        if name.starts_with("check_roto_type") {
            continue;
        }
        if let ([Stmt::Expr(body, None)], Some(params)) = (&h.block.stmts[..], param_names(&h.sig)) {
            let mut b = Binders::default();
            syn::visit::Visit::visit_expr(&mut b, body);
            if !b.0.iter().any(|x| params.contains(x)) {
                tr.helpers.insert(name, (params, body.clone()));
            }
        }
    }
    let body = tr.function(&f.block.stmts)?;
    if tr.leaf_arms.is_empty() {
        return Err("leaf-name guard table not found".into());
    }

    // check_roto_type_reflect::<T> must pass the registry entry of T itself
    let refl = find::func(&file, "check_roto_type_reflect", None)?;
    let refl_s = toks(&refl.block);
    require(&refl_s, "let rust_type = TypeRegistry::resolve::<T>().type_id;", "check_roto_type_reflect")?;
    require(&refl_s, "check_roto_type(type_info, rust_type, roto_type)", "check_roto_type_reflect")?;

    // ---- func! / check_args
    let (def, arities) = func_macro(&file)?;
    require(&def, "impl<$($a,)*$r>RotoFunc for fn($($a,)*)->$r where $($a:Value,)*$r:Value", "func! impl header")?;
    require(&def, "type Return=$r;", "func! Return type")?;
    // the arity test: `let [$($a),*] = ty else { let <x>: &[()] = &[$(unit!($a)),*]; return Err(IncorrectNumberOfArguments { expected: ty.len(), got: <x>.len() }) };`
    // (the name of the unit slice is free)
    let head = "fncheck_args(type_info:&mutTypeInfo,ty:&[Type])->Result<(),FunctionRetrievalError>{let[$($a),*]=tyelse{let";
    let def_n = def.replace(['\n', ' '], "");
    let p1 = pos(&def_n, head, "check_args arity test")?;
    let after = &def_n[p1 + head.len()..];
    let local: String = after.chars().take_while(|c| c.is_alphanumeric() || *c == '_').collect();
    let want = format!("{local}:&[()]=&[$(unit!($a)),*];returnErr(FunctionRetrievalError::IncorrectNumberOfArguments{{expected:ty.len(),got:{local}.len(),}});}};");
    if local.is_empty() || !after.starts_with(&want) {
        return Err(format!("check_args arity test: after the slice pattern expected `let x: &[()] = &[$(unit!($a)),*]; return Err(IncorrectNumberOfArguments {{ expected: ty.len(), got: x.len() }})`, found `{}`", &after[..after.len().min(200)]));
    }
    // the per-argument loop, with either spelling of "return the mismatch of the first argument that fails"
    let loop_a = "letmuti=0;$(i+=1;check_roto_type_reflect::<$a>(type_info,$a).map_err(|e|FunctionRetrievalError::TypeMismatch(format!(\"argument{i}\"),e))?;)*Ok(())}";
    let loop_b = "letmuti=0;$(i+=1;ifletErr(e)=check_roto_type_reflect::<$a>(type_info,$a){returnErr(FunctionRetrievalError::TypeMismatch(format!(\"argument{i}\"),e));})*Ok(())}";
    let p2 = match (def_n.matches(loop_a).count(), def_n.matches(loop_b).count()) {
        (1, 0) => def_n.find(loop_a).unwrap(),
        (0, 1) => def_n.find(loop_b).unwrap(),
        _ => return Err("check_args per-argument loop: expected `let mut i = 0; $( i += 1; check_roto_type_reflect::<$a>(type_info, $a) … TypeMismatch(format!(\"argument {i}\"), e) … )* Ok(())` (with `.map_err(..)?` or `if let Err(e) = .. { return Err(..) }`)".into()),
    };
    if p1 + head.len() + want.len() != p2 {
        return Err("check_args: statements between the arity test and the argument loop".into());
    }
    if p1 >= p2 {
        return Err("check_args: arity test must precede the argument loop".into());
    }

    // ---- Module::get_function
    let cg = find::parse(repo, "src/codegen/mod.rs")?;
    let gf = find::func(&cg, "get_function", Some("Module"))?;
    let g = toks(&gf.block);
    // Each gate step is a statement of the function body itself — not nested
    // under a condition, a loop or a closure — in this order; whatever else
    // stands at the top level is a plain `let` that can neither leave the
    // function nor branch. So every request runs every check, whatever was
    // asked before.
    // the variable that holds the qualified name (`name`, shadowing the parameter, or any other)
    let qn: String = gf
        .block
        .stmts
        .iter()
        .find_map(|st| match st {
            Stmt::Local(l) if l.init.as_ref().is_some_and(|i| toks(&i.expr) == "format!(\"pkg.{name}\")") => match &l.pat {
                Pat::Ident(i) if i.subpat.is_none() && i.by_ref.is_none() => Some(i.ident.to_string()),
                _ => None,
            },
            _ => None,
        })
        .ok_or("get_function: no `let <qualified> = format!(\"pkg.{name}\");`")?;
    // the lookup: `.ok_or_else(|| DoesNotExist {..})?` or `let Some(..) = .. else { return Err(DoesNotExist {..}) }`
    let lookup_a = format!("let function_info = self.functions.get(&{qn}).ok_or_else(|| {{ FunctionRetrievalError::DoesNotExist {{");
    let lookup_b = format!("let Some(function_info) = self.functions.get(&{qn}) else {{ return Err(FunctionRetrievalError::DoesNotExist {{");
    let lookup = if gf.block.stmts.iter().any(|st| toks(st).starts_with(&lookup_b.replace(' ', ""))) { lookup_b } else { lookup_a };
    let prefix = format!("let {qn} = format!(\"pkg.{{name}}\");");
    let steps = [
        ("prefix", prefix.as_str()),
        ("lookup", lookup.as_str()),
        ("bind", "let sig = &function_info.signature;"),
        ("requireSignature", "let Some(sig) = &sig else { return Err(FunctionRetrievalError::DoesNotExist {"),
        ("checkArgs", "F::check_args(&mut self.type_info, &sig.parameter_types)?;"),
        ("checkReturn", "check_roto_type_reflect::<F::Return>(&mut self.type_info, &sig.return_type,).map_err(|e| { FunctionRetrievalError::TypeMismatch(\"the return value\".to_string(), e,) })?;"),
        ("funcPtr", "let func_ptr = self.inner.0.cranelift_jit.get_finalized_function(id);"),
        ("finish", "Ok(TypedFunc {"),
    ];
    let top: Vec<String> = gf.block.stmts.iter().map(toks).collect();
    let mut next = 0usize;
    let mut step_names = vec![];
    for (name, frag) in steps {
        let frag = frag.replace([' ', '\n'], "");
        let hits: Vec<usize> = top.iter().enumerate().filter(|(_, t)| t.starts_with(&frag)).map(|(i, _)| i).collect();
        let [at] = hits[..] else {
            return Err(format!(
                "get_function step {name}: expected exactly one top-level statement `{frag}…` (found {}); a gate step that is nested, conditional or missing is outside the model",
                hits.len()
            ));
        };
        if at < next {
            return Err(format!("get_function: step {name} out of order"));
        }
        // statements between two steps
        for (i, t) in top.iter().enumerate().take(at).skip(next) {
            let plain_let = matches!(&gf.block.stmts[i], Stmt::Local(l) if l.init.as_ref().is_some_and(|x| x.diverge.is_none()));
            let branches = ["?", "return", "if", "match", "while", "for", "loop", "unsafe", "break"]
                .iter()
                .any(|k| gf.block.stmts[i].to_token_stream().into_iter().any(|tt| tt.to_string() == *k))
                || t.contains('?');
            if !plain_let || branches {
                return Err(format!("get_function: statement `{t}` between the gate steps is outside the model"));
            }
        }
        next = at + 1;
        step_names.push(name);
    }
    if next != top.len() {
        return Err("get_function: statements after the final Ok(TypedFunc {..})".into());
    }
    // nothing else may return Ok
    if g.matches("Ok(").count() != 1 {
        return Err("get_function: more than one Ok(..)".into());
    }
    // what of `self` the function touches: fields mentioned, fields borrowed
    // mutably, methods called on (something rooted at) a field
    let mut sv = SelfUse::default();
    syn::visit::Visit::visit_block(&mut sv, &gf.block);
    if let Some(bad) = sv.other.first() {
        return Err(format!("get_function: use of `self` outside the model: `{bad}`"));
    }

    // `Package::get_function` is the module's, unchanged: no other table, no renaming, no fallback
    let pl = find::parse(repo, "src/pipeline.rs")?;
    let pg = find::func(&pl, "get_function", Some("Package"))?;
    if toks(&pg.block) != "{self.module.get_function(name)}" {
        return Err(format!("Package::get_function: expected `self.module.get_function(name)`, found `{}`", toks(&pg.block)));
    }

    // ---- type identity: `Type::named` builds a name in the GLOBAL scope, and
    // equality of `Type` / `TypeName` / `ResolvedName` / `ScopeRef` /
    // `Identifier` is the derived, field-by-field one (so `==` on a named type
    // compares scope, identifier and arguments — what `RotoTy.beq` models)
    let types_rs = find::parse(repo, "src/typechecker/types.rs")?;
    let named = find::func(&types_rs, "named", Some("Type"))?;
    let named_s = toks(&named.block);
    let named_ok = (|| -> Option<bool> {
        // Type::Name(TypeName { name: ResolvedName { scope: ScopeRef::GLOBAL, ident: ident.into() }, arguments }), fields in any order
        let [Stmt::Expr(Expr::Call(c), None)] = &named.block.stmts[..] else { return None };
        if toks(&c.func) != "Type::Name" || c.args.len() != 1 {
            return None;
        }
        let Expr::Struct(tn) = &c.args[0] else { return None };
        if path_str(&tn.path) != "TypeName" || tn.rest.is_some() || tn.fields.len() != 2 {
            return None;
        }
        let field = |n: &str| tn.fields.iter().find(|f| f.member.to_token_stream().to_string() == n).map(|f| &f.expr);
        if toks(field("arguments")?) != "arguments" {
            return None;
        }
        let name = Tr::default().val(field("name")?).ok()?;
        Some(name == "(ResolvedName.mk ScopeRef.GLOBAL ident)")
    })();
    if named_ok != Some(true) {
        return Err(format!("Type::named: body outside the model (expected a TypeName in ScopeRef::GLOBAL with the given identifier and arguments): `{named_s}`"));
    }
    let scope_rs = find::parse(repo, "src/typechecker/scope.rs")?;
    let ast_rs = find::parse(repo, "src/ast.rs")?;
    let mut derived = vec![];
    for (file, rel, ty, fields) in [
        (&types_rs, "src/typechecker/types.rs", "Type", None),
        (&types_rs, "src/typechecker/types.rs", "TypeName", Some(vec!["name", "arguments"])),
        (&scope_rs, "src/typechecker/scope.rs", "ResolvedName", Some(vec!["scope", "ident"])),
        (&scope_rs, "src/typechecker/scope.rs", "ScopeRef", None),
        (&ast_rs, "src/ast.rs", "Identifier", None),
    ] {
        derives_eq(file, rel, ty, fields)?;
        derived.push(ty);
    }
    let global = scope_rs.items.iter().find_map(|it| match it {
        syn::Item::Impl(i) if toks(&i.self_ty) == "ScopeRef" => i.items.iter().find_map(|ii| match ii {
            syn::ImplItem::Const(c) if c.ident == "GLOBAL" => Some(toks(&c.expr)),
            _ => None,
        }),
        _ => None,
    });
    if global.as_deref() != Some("Self(0)") {
        return Err(format!("ScopeRef::GLOBAL: expected `Self(0)`, found {global:?}"));
    }

    // ---- output
    let mut out = String::new();
    out.push_str("/- GENERATED by /verif/extract from src/codegen/check.rs, src/codegen/mod.rs — do not edit. -/\nimport RotoV.Model.Gate\nset_option linter.unusedVariables false\nnamespace RotoV.Gen.Gate\nopen RotoV.Gate\n\n");
    out.push_str("/-! `TypeId` constants of `check_roto_type` -/\n");
    for (n, t) in &tr.consts {
        out.push_str(&format!("def {n} : TypeId := TypeId.prim {}\n", lit_ident(t)));
    }
    out.push_str("\ndef typeIdConsts : List TypeId := [");
    out.push_str(&tr.consts.iter().map(|c| c.0.clone()).collect::<Vec<_>>().join(", "));
    out.push_str("]\n\n/-- the arms `x if x == K => \"name\"` in source order -/\ndef leafNames : List (TypeId × Ident) := [\n");
    let arms: Vec<String> = tr
        .leaf_arms
        .iter()
        .map(|(k, s)| format!("  ({k}, {})", lit_ident(s)))
        .collect();
    out.push_str(&arms.join(",\n"));
    out.push_str("]\n\n/-- `check_roto_type`, statement by statement -/\ndef checkRotoType (type_info : TypeInfo) (rust_type : RustTy) (roto_type : RotoTy) : Res :=\n ");
    out.push_str(&body);
    out.push_str("\n\n/-- arities at which `func!` implements `RotoFunc` -/\ndef funcArities : List Nat := [");
    out.push_str(&arities.iter().map(|a| a.to_string()).collect::<Vec<_>>().join(", "));
    out.push_str("]\n\n/-- gate steps of `Module::get_function`, in source order -/\ndef getFunctionSteps : List String := [");
    out.push_str(&step_names.iter().map(|s| format!("{s:?}")).collect::<Vec<_>>().join(", "));
    out.push_str("]\n\n/-- fields of `self` that `Module::get_function` mentions -/\ndef getFunctionSelfFields : List Ident := [");
    out.push_str(&sv.fields.iter().map(|f| lit_ident(f)).collect::<Vec<_>>().join(", "));
    out.push_str("]\n\n/-- fields of `self` it borrows mutably (`&mut self.f`) or assigns to -/\ndef getFunctionMutFields : List Ident := [");
    out.push_str(&sv.muts.iter().map(|f| lit_ident(f)).collect::<Vec<_>>().join(", "));
    out.push_str("]\n\n/-- (field, method) for every method it calls on something rooted at `self.field` -/\ndef getFunctionSelfCalls : List (Ident × Ident) := [");
    out.push_str(&sv.calls.iter().map(|(f, m)| format!("({}, {})", lit_ident(f), lit_ident(m))).collect::<Vec<_>>().join(", "));
    out.push_str("]\n\n/-- types whose `==` is the derived field-by-field equality -/\ndef derivedEq : List Ident := [");
    out.push_str(&derived.iter().map(|f| lit_ident(f)).collect::<Vec<_>>().join(", "));
    out.push_str("]\n\nend RotoV.Gen.Gate\n");
    Ok(out)
}

/// `gatesig` → `Generated/GateSig.lean`: how a filtermap's signature is
/// completed after type checking (`force_filtermap_types`) and what a
/// signature type that is still a variable is compiled at (`TypeInfo::convert`).
fn gatesig(repo: &Path) -> R {
    let force = force_filtermap(repo)?;
    let conv = convert_defaults(repo)?;
    let mut out = String::new();
    out.push_str("/- GENERATED by /verif/extract from src/typechecker/mod.rs, src/typechecker/info.rs — do not edit. -/\nimport RotoV.Model.Gate\nnamespace RotoV.Gen.GateSig\nopen RotoV.Gate\n\n");
    out.push_str("/-- `force_filtermap_types`: (verdict side, pattern its resolved type is matched with, type it is unified with) -/\ndef forceArms : List (Ident × Ident × Ident) := [");
    out.push_str(&force.iter().map(|(a, b, c)| format!("({}, {}, {})", lit_ident(a), lit_ident(b), lit_ident(c))).collect::<Vec<_>>().join(", "));
    out.push_str("]\n\n/-- `TypeInfo::convert` (what a signature is compiled at): (type that is still a variable, `TyRef` constant) -/\ndef convertDefaults : List (Ident × Ident) := [");
    out.push_str(&conv.iter().map(|(a, b)| format!("({}, {})", lit_ident(a), lit_ident(b))).collect::<Vec<_>>().join(", "));
    out.push_str("]\n\nend RotoV.Gen.GateSig\n");
    Ok(out)
}

/// `gatereg` → `Generated/GateReg.lean`: what `Value::resolve` records in the
/// type registry for every type that implements `Value`.
fn gatereg(repo: &Path) -> R {
    let shapes = resolve_shapes(repo)?;
    let mut out = String::new();
    out.push_str("/- GENERATED by /verif/extract from src/value/mod.rs — do not edit. -/\nimport RotoV.Model.Gate\nnamespace RotoV.Gen.GateReg\nopen RotoV.Gate\n\n");
    out.push_str("/-- `<X as Value>::resolve`: (X, description variant, generic parameter behind each component; 100+i: `TypeId::of`) -/\ndef resolveShapes : List (Ident × Ident × List Nat) := [\n");
    out.push_str(&shapes.iter().map(|(a, b, c)| format!("  ({}, {}, {:?})", lit_ident(a), lit_ident(b), c)).collect::<Vec<_>>().join(",\n"));
    out.push_str("]\n\nend RotoV.Gen.GateReg\n");
    Ok(out)
}

// ------------------------------------------------------------------ gatetab

/// is the item (or statement) compiled only with the feature `verif-hooks`?
fn is_hook(attrs: &[syn::Attribute]) -> bool {
    attrs.iter().any(|a| a.path().is_ident("cfg") && toks(&a.meta).contains("verif-hooks"))
}

fn flat_tokens(ts: proc_macro2::TokenStream, out: &mut Vec<String>) {
    for tt in ts {
        match tt {
            proc_macro2::TokenTree::Group(g) => {
                let (o, c) = match g.delimiter() {
                    proc_macro2::Delimiter::Parenthesis => ("(", ")"),
                    proc_macro2::Delimiter::Brace => ("{", "}"),
                    proc_macro2::Delimiter::Bracket => ("[", "]"),
                    proc_macro2::Delimiter::None => ("", ""),
                };
                out.push(o.into());
                flat_tokens(g.stream(), out);
                out.push(c.into());
            }
            other => out.push(other.to_string()),
        }
    }
}

/// every struct literal `…::<ty>::<variant> { … }` below a node: the text of its field `field`
struct StructLits<'a> {
    ty: &'a str,
    variant: &'a str,
    field: &'a str,
    found: Vec<String>,
}
impl<'ast> syn::visit::Visit<'ast> for StructLits<'_> {
    fn visit_expr_struct(&mut self, s: &'ast syn::ExprStruct) {
        let segs: Vec<String> = s.path.segments.iter().map(|x| x.ident.to_string()).collect();
        let n = segs.len();
        if n >= 1 && segs[n - 1] == self.variant && (self.ty.is_empty() || (n >= 2 && segs[n - 2] == self.ty)) {
            let f = s.fields.iter().find(|f| f.member.to_token_stream().to_string() == self.field);
            self.found.push(f.map(|f| toks(&f.expr)).unwrap_or_else(|| "<absent>".into()));
        }
        syn::visit::visit_expr_struct(self, s);
    }
}

fn struct_lits(block: &syn::Block, ty: &str, variant: &str, field: &str) -> Vec<String> {
    let mut v = StructLits { ty, variant, field, found: vec![] };
    syn::visit::Visit::visit_block(&mut v, block);
    v.found
}

fn struct_lits_file(file: &syn::File, ty: &str, variant: &str, field: &str) -> Vec<String> {
    let mut v = StructLits { ty, variant, field, found: vec![] };
    for it in &file.items {
        let hook = match it {
            syn::Item::Fn(f) => is_hook(&f.attrs),
            syn::Item::Impl(i) => is_hook(&i.attrs),
            syn::Item::Mod(m) => is_hook(&m.attrs),
            _ => false,
        };
        if !hook {
            syn::visit::Visit::visit_item(&mut v, it);
        }
    }
    v.found
}

/// the variant names a pattern `P::A { .. } | P::B(..)` admits (head path's last segment)
fn pat_variants(p: &Pat, out: &mut Vec<String>) -> Result<(), String> {
    match p {
        Pat::Struct(s) => out.push(s.path.segments.last().map(|x| x.ident.to_string()).unwrap_or_default()),
        Pat::TupleStruct(s) => out.push(s.path.segments.last().map(|x| x.ident.to_string()).unwrap_or_default()),
        Pat::Path(s) => out.push(s.path.segments.last().map(|x| x.ident.to_string()).unwrap_or_default()),
        Pat::Or(o) => {
            for c in &o.cases {
                pat_variants(c, out)?;
            }
        }
        Pat::Paren(q) => pat_variants(&q.pat, out)?,
        other => return Err(format!("pattern `{}` outside the model", toks(other))),
    }
    Ok(())
}

/// `gatetab` → `Generated/GateTab.lean`: the way from a declaration of a
/// script to an entry of `Module::functions` (the table `get_function`
/// consults), stage by stage:
///  * `Mir::lower` (`tree`): which `ast::Declaration` variants are lowered, by
///    which method, and what kind of item each method builds;
///  * `lir::lower` (`item`): `match item.ty` — a MIR function becomes an
///    `ItemKind::Function { signature: Some(signature) }`, a MIR constant an
///    `ItemKind::Constant`; the generated clone/drop/eq items carry
///    `signature: None` and names `::generated::…`;
///  * `ModuleBuilder::declare_function`: the `let … else { return; }` that
///    only lets `ItemKind::Function` through, and the one
///    `self.functions.insert(name.to_string(), FunctionInfo { …, signature: signature.clone() })`;
///    every other mention of the field `functions` in src/codegen/mod.rs is a read.
fn gatetab(repo: &Path) -> R {
    // ---- stage 1: src/mir/lower.rs
    let mir = find::parse(repo, "src/mir/lower.rs")?;
    let tree = find::func(&mir, "tree", None)?;
    let ms = find::matches_on(&tree.block, "d");
    let [m] = &ms[..] else {
        return Err(format!("Mir::lower (`tree`): expected one `match d`, found {}", ms.len()));
    };
    let mut mir_arms: Vec<(String, String)> = vec![];
    let mut wildcard = false;
    for arm in &m.arms {
        if arm.guard.is_some() {
            return Err("Mir::lower: a guarded arm over the declarations is outside the model".into());
        }
        if let Pat::Wild(_) = &arm.pat {
            if toks(&arm.body) != "{}" {
                return Err(format!("Mir::lower: the wildcard arm is not empty: `{}`", toks(&arm.body)));
            }
            wildcard = true;
            continue;
        }
        let mut vs = vec![];
        pat_variants(&arm.pat, &mut vs)?;
        let Pat::TupleStruct(ts) = &arm.pat else {
            return Err(format!("Mir::lower: arm pattern `{}` outside the model", toks(&arm.pat)));
        };
        let binder = ts.elems.first().map(toks).unwrap_or_default();
        // the body: `{ items.insert(<name>, Lowerer::new(…).<method>(<binder>)); }`
        let Expr::Block(b) = &*arm.body else {
            return Err(format!("Mir::lower: arm for {vs:?} is not a block"));
        };
        let [Stmt::Expr(Expr::MethodCall(ins), _)] = &b.block.stmts[..] else {
            return Err(format!("Mir::lower: arm for {vs:?}: expected the single statement `items.insert(…)`"));
        };
        if toks(&ins.receiver) != "items" || ins.method != "insert" || ins.args.len() != 2 {
            return Err(format!("Mir::lower: arm for {vs:?}: expected `items.insert(name, item)`"));
        }
        if toks(&ins.args[0]) != format!("type_info.resolved_name(&{binder}.ident)") {
            return Err(format!("Mir::lower: arm for {vs:?}: item keyed by `{}`", toks(&ins.args[0])));
        }
        let Expr::MethodCall(low) = &ins.args[1] else {
            return Err(format!("Mir::lower: arm for {vs:?}: the item is not `Lowerer::new(…).<method>(…)`"));
        };
        if !toks(&low.receiver).starts_with("Lowerer::new(") || low.args.len() != 1 || toks(&low.args[0]) != binder {
            return Err(format!("Mir::lower: arm for {vs:?}: `{}` outside the model", toks(&ins.args[1])));
        }
        for v in vs {
            mir_arms.push((v, low.method.to_string()));
        }
    }
    if !wildcard {
        // without `_ => {}` the match is exhaustive: every variant must be listed, which rustc checks
    }
    let decl_variants = find::enum_variants(&find::parse(repo, "src/ast.rs")?, "Declaration")?;
    // what each lowering method builds
    let mut mir_kinds: Vec<(String, String, String)> = vec![];
    let fl = find::func(&mir, "function_like", None)?;
    let fl_fn = struct_lits(&fl.block, "ItemKind", "Function", "signature");
    let fl_c = struct_lits(&fl.block, "ItemKind", "Constant", "ty");
    if fl_fn != ["signature"] || !fl_c.is_empty() {
        return Err(format!("mir function_like: expected exactly one `ItemKind::Function {{ signature, .. }}` (found {fl_fn:?}, constants {fl_c:?})"));
    }
    let fl_s = toks(&fl.block);
    require(&fl_s, "letsignature=Signature{types:Vec::new(),parameter_types:parameter_types.iter().map(|x|&x.1).cloned().collect(),return_type:return_type.clone(),};", "mir function_like: the signature handed on")?;
    require(&fl_s, "letname=self.type_info.resolved_name(ident);letname=self.type_info.full_name(&name);", "mir function_like: the item's name")?;
    let mut methods: Vec<String> = mir_arms.iter().map(|a| a.1.clone()).collect();
    methods.sort();
    methods.dedup();
    for meth in &methods {
        let f = find::func(&mir, meth, None)?;
        let s = toks(&f.block);
        let direct_fn = struct_lits(&f.block, "ItemKind", "Function", "signature");
        let direct_c = struct_lits(&f.block, "ItemKind", "Constant", "ty");
        let via_fl = s.matches("self.function_like(").count();
        // the prefix a method puts before the identifier: `format!("test#{}", …)`
        let mut prefix = String::new();
        if let Some(i) = s.find("format!(\"") {
            let rest = &s[i + 9..];
            if let Some(j) = rest.find("{}\"") {
                prefix = rest[..j].to_string();
            }
        }
        let kind = match (via_fl, direct_fn.len(), direct_c.len()) {
            (1, 0, 0) => {
                let Ok(Expr::MethodCall(t)) = find::tail_expr(&f.block) else {
                    return Err(format!("mir {meth}: `self.function_like(…)` is not the value of the method"));
                };
                if t.method != "function_like" {
                    return Err(format!("mir {meth}: tail is `{}`", toks(t)));
                }
                "Function"
            }
            (0, 0, 1) => {
                require(&s, "letresolved_name=self.type_info.resolved_name(&constant.ident);letname=self.type_info.full_name(&resolved_name);", "mir constant: the item's name")?;
                prefix.clear(); // `constant#…` only names the lowerer's scope, the item is `full_name(resolved_name(ident))`
                "Constant"
            }
            other => return Err(format!("mir {meth}: builds items in a way outside the model {other:?}")),
        };
        mir_kinds.push((meth.clone(), kind.to_string(), prefix));
    }

    // the signature each lowering method hands to `function_like` (it becomes the table's signature):
    // a test has no parameters and returns `Type::verdict(Type::unit(), Type::unit())`; a function and a
    // filtermap return what their declared / inferred signature says
    let mut ret_sources: Vec<(String, String)> = vec![];
    for (meth, _, _) in mir_kinds.iter().filter(|k| k.1 == "Function") {
        let f = find::func(&mir, meth, None)?;
        let s = toks(&f.block);
        let src = if s.contains("letreturn_type=Type::verdict(Type::unit(),Type::unit());letparams=ast::Params(Vec::new());self.function_like(&ident,&params,&return_type,&test.body)") {
            "verdict(unit,unit)"
        } else if s.contains("letsignature=self.type_info.function_signature(ident);self.function_like(ident,params,&signature.return_type,body)") {
            "function_signature(ident).return_type"
        } else if s.contains("letDeclarationKind::Function(Some(func_dec))=dec.kindelse{ice!();};letret=&func_dec.signature.return_type;self.function_like(&function.ident,&function.params,ret,&function.body,)") {
            "declaration.signature.return_type"
        } else {
            return Err(format!("mir {meth}: the return type handed to function_like is outside the model: `{}`", &s[..s.len().min(300)]));
        };
        ret_sources.push((meth.clone(), src.to_string()));
    }
    let types_rs = find::parse(repo, "src/typechecker/types.rs")?;
    let verdict_body = toks(&find::func(&types_rs, "verdict", Some("Type"))?.block);
    let unit_body = toks(&find::func(&types_rs, "unit", Some("Type"))?.block);
    if verdict_body != "{Type::named(\"Verdict\",vec![a.borrow().clone(),b.borrow().clone()])}" || unit_body != "{Type::Unit}" {
        return Err(format!("Type::verdict / Type::unit outside the model: `{verdict_body}` / `{unit_body}`"));
    }

    // ---- stage 2: src/lir/lower.rs and the helper generators
    let lir = find::parse(repo, "src/lir/lower.rs")?;
    let item = find::func(&lir, "item", None)?;
    let kms = find::matches_on(&item.block, "item.ty");
    // the second `match item.ty` (by value) builds the kind; the first (`&item.ty`) only picks the return type
    let Some(km) = kms.iter().find(|m| m.arms.iter().any(|a| !struct_lits_expr(&a.body, "ItemKind", "Function", "signature").is_empty())) else {
        return Err("lir item: no `match item.ty` that builds `ItemKind::Function`".into());
    };
    let mut lir_arms: Vec<(String, String, bool)> = vec![];
    for arm in &km.arms {
        let mut vs = vec![];
        pat_variants(&arm.pat, &mut vs)?;
        let fs = struct_lits_expr(&arm.body, "ItemKind", "Function", "signature");
        let cs = struct_lits_expr(&arm.body, "ItemKind", "Constant", "ty");
        let (to, has_sig) = match (&fs[..], &cs[..]) {
            ([sig], []) if sig == "Some(signature)" => {
                // `signature` must be the field of the MIR item bound by this arm's pattern
                let Pat::Struct(ps) = &arm.pat else { return Err("lir item: Function arm pattern".into()) };
                let bound = ps.fields.iter().any(|f| f.member.to_token_stream().to_string() == "signature" && toks(&f.pat) == "signature");
                if !bound {
                    return Err("lir item: `signature` is not the MIR item's signature".into());
                }
                ("Function", true)
            }
            ([], [_]) => ("Constant", false),
            other => return Err(format!("lir item: arm for {vs:?} builds {other:?}: outside the model")),
        };
        for v in vs {
            lir_arms.push((v, to.to_string(), has_sig));
        }
    }
    require(&toks(&item.block), "letname=item.name;", "lir item: the LIR item keeps the MIR item's name")?;
    let all_fn = struct_lits_file(&lir, "ItemKind", "Function", "signature");
    if all_fn != ["Some(signature)"] {
        return Err(format!("src/lir/lower.rs: `ItemKind::Function` built at other places than `item`: {all_fn:?}"));
    }
    let mut helper_items: Vec<(String, bool)> = vec![];
    let dir = repo.join("src/lir/lower");
    let mut files: Vec<String> = std::fs::read_dir(&dir)
        .map_err(|e| format!("{}: {e}", dir.display()))?
        .filter_map(|e| e.ok())
        .map(|e| e.file_name().to_string_lossy().to_string())
        .filter(|n| n.ends_with(".rs"))
        .collect();
    files.sort();
    for fname in files {
        let rel = format!("src/lir/lower/{fname}");
        let f = find::parse(repo, &rel)?;
        let sigs = struct_lits_file(&f, "ItemKind", "Function", "signature");
        if !struct_lits_file(&f, "ItemKind", "Constant", "ty").is_empty() {
            return Err(format!("{rel}: builds an `ItemKind::Constant`: outside the model"));
        }
        if sigs.is_empty() {
            continue;
        }
        if sigs != ["None"] {
            return Err(format!("{rel}: generated items with signatures {sigs:?}: outside the model (expected one item with `signature: None`)"));
        }
        // its name: `let ident = format!("::generated::<op>_{type_id}").into();` … `Item { name: ident, … }`
        let names = struct_lits_file(&f, "", "Item", "name");
        let text = toks(&f);
        let mut prefix = None;
        if let Some(i) = text.find("letident=format!(\"") {
            let rest = &text[i + 18..];
            if let Some(j) = rest.find("{type_id}\").into();") {
                prefix = Some(rest[..j].to_string());
            }
        }
        let (Some(prefix), true) = (prefix, names == ["ident"]) else {
            return Err(format!("{rel}: the name of the generated item is outside the model (names {names:?})"));
        };
        helper_items.push((prefix, false));
    }
    // other files of src/lir must not build items at all
    for extra in ["src/lir/mod.rs", "src/lir/eval.rs", "src/lir/value.rs", "src/lir/print.rs"] {
        if let Ok(f) = find::parse(repo, extra) {
            if !struct_lits_file(&f, "ItemKind", "Function", "signature").is_empty() {
                return Err(format!("{extra}: builds an `ItemKind::Function`: outside the model"));
            }
        }
    }
    let lir_kinds = find::enum_variants(&find::parse(repo, "src/lir/mod.rs")?, "ItemKind")?;

    // ---- stage 3: src/codegen/mod.rs
    let cg = find::parse(repo, "src/codegen/mod.rs")?;
    let df = find::func(&cg, "declare_function", Some("ModuleBuilder"))?;
    let stmts: Vec<&Stmt> = df.block.stmts.iter().filter(|s| !matches!(s, Stmt::Local(l) if is_hook(&l.attrs))).collect();
    let Some(Stmt::Local(first)) = stmts.first().copied() else {
        return Err("declare_function: does not begin with the destructuring `let lir::Item { … } = func else { return; };`".into());
    };
    let (Some(init), Pat::Struct(item_pat)) = (&first.init, &first.pat) else {
        return Err("declare_function: first statement is not a destructuring of the item".into());
    };
    if toks(&init.expr) != "func" || item_pat.path.segments.last().is_none_or(|s| s.ident != "Item") {
        return Err(format!("declare_function: first statement destructures `{}`", toks(&init.expr)));
    }
    let Some((_, div)) = &init.diverge else {
        return Err("declare_function: the destructuring of the item has no `else { return; }`: every kind of item reaches `functions.insert` (a constant's initialiser would become retrievable)".into());
    };
    if toks(div) != "{return;}" {
        return Err(format!("declare_function: the else branch is `{}`", toks(div)));
    }
    let mut accepts = vec![];
    let mut binds_signature = false;
    let mut binds_name = false;
    for fp in &item_pat.fields {
        match fp.member.to_token_stream().to_string().as_str() {
            "kind" => {
                pat_variants(&fp.pat, &mut accepts)?;
                if let Pat::Struct(kp) = &*fp.pat {
                    binds_signature = kp.fields.iter().any(|f| f.member.to_token_stream().to_string() == "signature" && toks(&f.pat) == "signature");
                }
            }
            "name" => binds_name = toks(&fp.pat) == "name",
            _ => {}
        }
    }
    if accepts.is_empty() || !binds_signature || !binds_name {
        return Err(format!("declare_function: the pattern must bind `name` and `kind: ItemKind::… {{ signature, .. }}` (accepts {accepts:?})"));
    }
    // the one insertion, a top-level statement; no other way out of the function
    let mut inserts = 0;
    for s in &stmts[1..] {
        let t = toks(*s);
        if t.starts_with("self.functions.insert(") {
            let Stmt::Expr(Expr::MethodCall(mc), _) = s else { return Err("declare_function: insert shape".into()) };
            if mc.args.len() != 2 || toks(&mc.args[0]) != "name.to_string()" {
                return Err(format!("declare_function: entry keyed by `{}`", mc.args.first().map(toks).unwrap_or_default()));
            }
            let Expr::Struct(fi) = &mc.args[1] else { return Err("declare_function: the entry is not a `FunctionInfo { … }` literal".into()) };
            let field = |n: &str| fi.fields.iter().find(|f| f.member.to_token_stream().to_string() == n).map(|f| toks(&f.expr));
            if path_str(&fi.path) != "FunctionInfo" || field("signature").as_deref() != Some("signature.clone()") || field("id").as_deref() != Some("func_id") {
                return Err(format!("declare_function: entry `{}` outside the model", toks(&mc.args[1])));
            }
            inserts += 1;
        } else if s.to_token_stream().into_iter().any(|tt| tt.to_string() == "return") || t.contains("else{") && t.contains("return") {
            return Err(format!("declare_function: statement `{t}` may leave the function before the insertion"));
        }
    }
    if inserts != 1 {
        return Err(format!("declare_function: expected one top-level `self.functions.insert(…)`, found {inserts}"));
    }
    // every mention of the field `functions` in the file, classified
    let mut uses: Vec<(String, usize)> = vec![];
    let mut bump = |k: &str| match uses.iter_mut().find(|u| u.0 == k) {
        Some(u) => u.1 += 1,
        None => uses.push((k.to_string(), 1)),
    };
    for it in &cg.items {
        let hook = match it {
            syn::Item::Fn(f) => is_hook(&f.attrs),
            syn::Item::Impl(i) => is_hook(&i.attrs),
            _ => false,
        };
        if hook {
            continue;
        }
        let mut tk = vec![];
        flat_tokens(it.to_token_stream(), &mut tk);
        for i in 0..tk.len() {
            if tk[i] != "functions" {
                continue;
            }
            let prev = if i > 0 { tk[i - 1].as_str() } else { "" };
            let next = tk.get(i + 1).map(|s| s.as_str()).unwrap_or("");
            let next2 = tk.get(i + 2).map(|s| s.as_str()).unwrap_or("");
            let after: String = tk[i + 1..(i + 8).min(tk.len())].concat();
            let kind = match (prev, next) {
                (".", ".") if ["get", "keys", "insert"].contains(&next2) => next2.to_string(),
                (".", "[") => "index".to_string(),
                (_, ":") if after.starts_with(":HashMap<String,FunctionInfo>") => "field".to_string(),
                (_, ":") if after.starts_with(":HashMap::new()") => "new".to_string(),
                (_, ":") if after.starts_with(":self.functions") => "move".to_string(),
                (".", ",") | (".", "}") if i >= 2 && tk[i - 2] == "self" => "moved".to_string(),
                _ => {
                    let ctx: String = tk[i.saturating_sub(4)..(i + 6).min(tk.len())].join(" ");
                    return Err(format!("src/codegen/mod.rs: use of the field `functions` outside the model: `… {ctx} …`"));
                }
            };
            bump(&kind);
        }
    }
    let n_insert = uses.iter().find(|u| u.0 == "insert").map(|u| u.1).unwrap_or(0);
    if n_insert != 1 {
        return Err(format!("src/codegen/mod.rs: {n_insert} insertions into `functions` (expected the one of declare_function)"));
    }
    uses.sort();

    // ---- output
    let pairs = |v: &[(String, String)]| v.iter().map(|(a, b)| format!("({}, {})", lit_ident(a), lit_ident(b))).collect::<Vec<_>>().join(",\n  ");
    let mut out = String::new();
    out.push_str("/- GENERATED by /verif/extract from src/mir/lower.rs, src/lir/lower.rs, src/lir/lower/*.rs, src/codegen/mod.rs — do not edit. -/\nimport RotoV.Model.GateTab\nnamespace RotoV.Gen.GateTab\nopen RotoV.Gate RotoV.GateTab\n\n");
    out.push_str(&format!("/-- variants of `ast::Declaration` -/\ndef declVariants : List Ident := [{}]\n\n", decl_variants.iter().map(|v| lit_ident(v)).collect::<Vec<_>>().join(", ")));
    out.push_str(&format!("/-- `Mir::lower`: (declaration variant, lowering method); wildcard arm `_ => {{}}` present: {wildcard} -/\ndef mirArms : List (Ident × Ident) := [\n  {}]\n\n", pairs(&mir_arms)));
    out.push_str(&format!(
        "/-- (lowering method, `mir::ItemKind` variant it builds, prefix before the identifier) -/\ndef mirKinds : List (Ident × Ident × Ident) := [\n  {}]\n\n",
        mir_kinds.iter().map(|(a, b, c)| format!("({}, {}, {})", lit_ident(a), lit_ident(b), lit_ident(c))).collect::<Vec<_>>().join(",\n  ")
    ));
    out.push_str(&format!(
        "/-- `lir::lower`: (`mir::ItemKind` variant, `lir::ItemKind` variant, carries `signature: Some(signature)`) -/\ndef lirArms : List (Ident × Ident × Bool) := [\n  {}]\n\n",
        lir_arms.iter().map(|(a, b, c)| format!("({}, {}, {c})", lit_ident(a), lit_ident(b))).collect::<Vec<_>>().join(",\n  ")
    ));
    out.push_str(&format!(
        "/-- generated helper items: (name prefix, carries a signature) -/\ndef helperItems : List (Ident × Bool) := [\n  {}]\n\n",
        helper_items.iter().map(|(a, b)| format!("({}, {b})", lit_ident(a))).collect::<Vec<_>>().join(",\n  ")
    ));
    out.push_str(&format!("/-- variants of `lir::ItemKind` -/\ndef lirItemKinds : List Ident := [{}]\n\n", lir_kinds.iter().map(|v| lit_ident(v)).collect::<Vec<_>>().join(", ")));
    out.push_str(&format!("/-- variants of `lir::ItemKind` that `declare_function` lets through to `functions.insert` -/\ndef declareAccepts : List Ident := [{}]\n\n", accepts.iter().map(|v| lit_ident(v)).collect::<Vec<_>>().join(", ")));
    out.push_str(&format!(
        "/-- every mention of the field `functions` in src/codegen/mod.rs, by kind -/\ndef functionsFieldUses : List (String × Nat) := [{}]\n\n",
        uses.iter().map(|(k, n)| format!("({k:?}, {n})")).collect::<Vec<_>>().join(", ")
    ));
    out.push_str(&format!(
        "/-- where the return type of the signature handed on by each function-like lowering method comes from -/\ndef returnTypeSources : List (Ident × Ident) := [\n  {}]\n\n",
        pairs(&ret_sources)
    ));
    if ret_sources.iter().any(|r| r.1 == "verdict(unit,unit)") {
        out.push_str("/-- the signature `Mir::lower` gives a test: no parameters, `Type::verdict(Type::unit(), Type::unit())` = `Type::named(\"Verdict\", vec![Type::Unit, Type::Unit])` -/\ndef testSig : Signature := ⟨[], RotoTy.named ");
        out.push_str(&lit_ident("Verdict"));
        out.push_str(" [RotoTy.unit, RotoTy.unit]⟩\n\n");
    }
    out.push_str("def pipeline : Pipeline := ⟨mirArms, mirKinds, lirArms, helperItems, declareAccepts⟩\n\nend RotoV.Gen.GateTab\n");
    Ok(out)
}

fn struct_lits_expr(e: &Expr, ty: &str, variant: &str, field: &str) -> Vec<String> {
    let mut v = StructLits { ty, variant, field, found: vec![] };
    syn::visit::Visit::visit_expr(&mut v, e);
    v.found
}

// ------------------------------------------------------------------- gateuf

/// The alternatives of a pattern `Type::K(b, _, …) | …`: every alternative a tuple-struct pattern of `Type`
/// whose first field binds the same identifier and whose other fields are `_`. Returns (variant names, binder).
fn var_alternatives(p: &Pat, what: &str) -> Result<(Vec<String>, String), String> {
    let mut alts = vec![];
    fn flat<'a>(p: &'a Pat, out: &mut Vec<&'a Pat>) {
        match p {
            Pat::Or(o) => o.cases.iter().for_each(|c| flat(c, out)),
            Pat::Paren(q) => flat(&q.pat, out),
            other => out.push(other),
        }
    }
    flat(p, &mut alts);
    let mut names = vec![];
    let mut binder: Option<String> = None;
    for a in alts {
        let Pat::TupleStruct(ts) = a else {
            return Err(format!("{what}: alternative `{}` outside the model", toks(a)));
        };
        let segs: Vec<String> = ts.path.segments.iter().map(|x| x.ident.to_string()).collect();
        if segs.len() != 2 || segs[0] != "Type" {
            return Err(format!("{what}: alternative `{}` is not a variant of Type", toks(a)));
        }
        let mut it = ts.elems.iter();
        let Some(Pat::Ident(b)) = it.next() else {
            return Err(format!("{what}: `{}` does not bind its first field", toks(a)));
        };
        if b.by_ref.is_some() || b.mutability.is_some() || b.subpat.is_some() || it.any(|r| !matches!(r, Pat::Wild(_))) {
            return Err(format!("{what}: `{}` outside the model", toks(a)));
        }
        let b = b.ident.to_string();
        if binder.get_or_insert(b.clone()) != &b {
            return Err(format!("{what}: alternatives bind different names"));
        }
        if names.contains(&segs[1]) {
            return Err(format!("{what}: variant {} listed twice", segs[1]));
        }
        names.push(segs[1].clone());
    }
    let Some(b) = binder else { return Err(format!("{what}: no alternatives")) };
    Ok((names, b))
}

fn live_stmts(b: &syn::Block) -> Vec<&Stmt> {
    b.stmts
        .iter()
        .filter(|s| match s {
            Stmt::Local(l) => !is_hook(&l.attrs),
            Stmt::Item(_) => false,
            _ => true,
        })
        .collect()
}

/// `UnionFind::find` / `find_ref`: a single `match &self.inner[index]` with one arm of variable patterns guarded by
/// `*i != index` and one catch-all arm. `write` = the arm of `find` (recursive lookup, the slot overwritten with
/// the answer, the answer returned); otherwise the arm of `find_ref` (recursive lookup only).
fn uf_lookup(file: &syn::File, name: &str, write: bool) -> Result<Vec<String>, String> {
    let f = find::func(file, name, Some("UnionFind"))?;
    let what = format!("UnionFind::{name}");
    let params = param_names(&f.sig).ok_or_else(|| format!("{what}: parameters outside the model"))?;
    let [index] = &params[..] else { return Err(format!("{what}: expected one parameter besides self, found {params:?}")) };
    let stmts = live_stmts(&f.block);
    let [Stmt::Expr(Expr::Match(m), None)] = &stmts[..] else {
        return Err(format!("{what}: the body is not a single `match`"));
    };
    if toks(&m.expr) != format!("&self.inner[{index}]") {
        return Err(format!("{what}: matches on `{}`, not on `&self.inner[{index}]`", toks(&m.expr)));
    }
    let [a1, a2] = &m.arms[..] else { return Err(format!("{what}: {} arms, expected 2", m.arms.len())) };
    let (names, b) = var_alternatives(&a1.pat, &what)?;
    let guard = a1.guard.as_ref().map(|(_, g)| toks(g)).unwrap_or_default();
    if guard != format!("*{b}!={index}") {
        return Err(format!("{what}: guard `{guard}`, expected `*{b} != {index}`"));
    }
    let body = toks(&a1.body);
    if write {
        let Expr::Block(eb) = &*a1.body else { return Err(format!("{what}: arm body `{body}` outside the model")) };
        let st = live_stmts(&eb.block);
        let [Stmt::Local(l), s2, Stmt::Expr(ret, None)] = &st[..] else {
            return Err(format!("{what}: arm body `{body}` is not `let n = self.{name}(*{b}); self.inner[{index}] = n.clone(); n`"));
        };
        let Pat::Ident(n) = &l.pat else { return Err(format!("{what}: `{}` outside the model", toks(l))) };
        let n = n.ident.to_string();
        let init = l.init.as_ref().map(|i| toks(&i.expr)).unwrap_or_default();
        if init != format!("self.{name}(*{b})") || toks(s2) != format!("self.inner[{index}]={n}.clone();") || toks(ret) != n {
            return Err(format!("{what}: arm body `{body}` is not `let {n} = self.{name}(*{b}); self.inner[{index}] = {n}.clone(); {n}`"));
        }
    } else if body != format!("{{self.{name}(*{b})}}") && body != format!("self.{name}(*{b})") {
        return Err(format!("{what}: arm body `{body}` is not `self.{name}(*{b})`"));
    }
    let Pat::Ident(t) = &a2.pat else { return Err(format!("{what}: catch-all arm `{}` outside the model", toks(&a2.pat))) };
    let t = t.ident.to_string();
    let fall = toks(&a2.body);
    let want = if write { format!("{t}.clone()") } else { t.clone() };
    if a2.guard.is_some() || fall != want {
        return Err(format!("{what}: catch-all arm `{t} => {fall}`, expected `{t} => {want}`"));
    }
    Ok(names)
}

/// `TypeInfo::resolve`: `let mut t = t.clone(); if let <variable patterns> = t { t = self.unionfind.find(x).clone(); } t`
fn resolve_follows(repo: &Path) -> Result<Vec<String>, String> {
    let info = find::parse(repo, "src/typechecker/info.rs")?;
    let f = find::func(&info, "resolve", Some("TypeInfo"))?;
    let what = "TypeInfo::resolve";
    let params = param_names(&f.sig).ok_or_else(|| format!("{what}: parameters outside the model"))?;
    let [t] = &params[..] else { return Err(format!("{what}: expected one parameter besides self")) };
    let stmts = live_stmts(&f.block);
    let [s1, Stmt::Expr(Expr::If(i), _), Stmt::Expr(ret, None)] = &stmts[..] else {
        return Err(format!("{what}: body is not `let mut {t} = {t}.clone(); if let … = {t} {{ … }} {t}`"));
    };
    if toks(s1) != format!("letmut{t}={t}.clone();") || toks(ret) != *t || i.else_branch.is_some() {
        return Err(format!("{what}: body is not `let mut {t} = {t}.clone(); if let … = {t} {{ … }} {t}`"));
    }
    let Expr::Let(l) = &*i.cond else { return Err(format!("{what}: condition `{}` outside the model", toks(&i.cond))) };
    if toks(&l.expr) != *t {
        return Err(format!("{what}: `if let` examines `{}`, not `{t}`", toks(&l.expr)));
    }
    let (names, x) = var_alternatives(&l.pat, what)?;
    let then = toks(&i.then_branch);
    if then != format!("{{{t}=self.unionfind.find({x}).clone();}}") && then != format!("{{{t}=self.unionfind.find({x});}}") {
        return Err(format!("{what}: `{then}` is not `{t} = self.unionfind.find({x}).clone();`"));
    }
    Ok(names)
}

/// `gateuf` → `Generated/GateUF.lean`: the variable kinds `UnionFind::find`, `UnionFind::find_ref` and
/// `TypeInfo::resolve` list (the rest of the three bodies is asserted statement by statement: the guard
/// `*i != index`, the recursive call, the one write `self.inner[index] = new_t.clone()`, the catch-all arm).
fn gateuf(repo: &Path) -> R {
    let uf = find::parse(repo, "src/typechecker/unionfind.rs")?;
    let f = uf_lookup(&uf, "find", true)?;
    let r = uf_lookup(&uf, "find_ref", false)?;
    let res = resolve_follows(repo)?;
    // the table is only written through `find`, `fresh`, `set`: no other method of the library takes `&mut self`
    for it in &uf.items {
        let syn::Item::Impl(i) = it else { continue };
        if is_hook(&i.attrs) || i.trait_.is_some() || toks(&i.self_ty) != "UnionFind" {
            continue;
        }
        for m in &i.items {
            let syn::ImplItem::Fn(m) = m else { continue };
            if is_hook(&m.attrs) {
                continue;
            }
            let name = m.sig.ident.to_string();
            let body = toks(&m.block);
            let mutable = matches!(m.sig.inputs.first(), Some(syn::FnArg::Receiver(r)) if r.mutability.is_some());
            match name.as_str() {
                "find" | "find_ref" => {}
                "set" => {
                    if body != "{self.inner[index]=t;}" {
                        return Err(format!("UnionFind::set: body `{body}` outside the model"));
                    }
                }
                "fresh" => {
                    if body.matches("self.inner").count() != 2 || !body.contains("self.inner.push(") || !body.contains("self.inner.len()") {
                        return Err(format!("UnionFind::fresh: body `{body}` outside the model"));
                    }
                }
                _ if mutable => return Err(format!("UnionFind::{name} takes `&mut self`: a writer of the table outside the model")),
                _ => {}
            }
        }
    }
    let list = |v: &Vec<String>| v.iter().map(|a| lit_ident(a)).collect::<Vec<_>>().join(", ");
    let mut out = String::new();
    out.push_str("/- GENERATED by /verif/extract from src/typechecker/unionfind.rs, src/typechecker/info.rs — do not edit. -/\nimport RotoV.Model.GateUF\nnamespace RotoV.Gen.GateUF\n\n");
    out.push_str(&format!("/-- `UnionFind::find`: the `Type` variants whose index the first arm goes on with (guard `*i != index`) -/\ndef findFollows : List (List Nat) := [{}]\n\n", list(&f)));
    out.push_str(&format!("/-- `UnionFind::find_ref`: likewise -/\ndef findRefFollows : List (List Nat) := [{}]\n\n", list(&r)));
    out.push_str(&format!("/-- `TypeInfo::resolve`: the `Type` variants that are looked up with `find` -/\ndef resolveFollows : List (List Nat) := [{}]\n\n", list(&res)));
    out.push_str("end RotoV.Gen.GateUF\n");
    Ok(out)
}
