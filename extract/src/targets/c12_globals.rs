//! `c12globals` → `Generated/C12Globals.lean`: process-global state of the crate.
//!
//!  * every `static` item under `src/` (also inside function bodies; test
//!    modules, `tests.rs` and the `verif_hooks` directory skipped): `static mut`
//!    or not, and the kind of its type — `Mutex<…>` possibly inside `LazyLock` /
//!    `OnceLock`, `RwLock`, an atomic, a `thread_local!` (private to a thread),
//!    a type without interior mutability, or anything else (`Cell`, `RefCell`,
//!    `UnsafeCell`, unknown wrappers);
//!  * for every lock-shaped static: every occurrence of its name in the file
//!    that declares it, classified as `lock` (`NAME.lock()` / `NAME\n.lock()`),
//!    `read` / `write` (for an `RwLock`) or `other`; a lock-shaped static that is
//!    `pub` (reachable from other files) is an extraction failure;
//!  * for every lock-shaped static, every function of the declaring file with an
//!    occurrence of its name: its SECTIONS — the code from one acquisition to the
//!    next (or the end of the function) — with the table operations called in it
//!    in source order, by method name: `lookup` (`get`, `contains_key`, `entry`,
//!    `iter`, …) and `insert` (`insert`, `push`, `or_insert_with`, `extend`,
//!    `set`, …). The decision over these facts: a function that looks a key up
//!    under one acquisition and inserts under a later one must look it up again
//!    before inserting (double-checked get-or-insert);
//!  * for every lock-shaped static, `entryCells`: the number of fields with
//!    interior mutability (`OnceLock`, `OnceCell`, `Mutex`, `RwLock`, `Cell`,
//!    `RefCell`, `UnsafeCell`, atomics) inside the structs / enums of the crate
//!    that the static's type mentions, inlined by name across `src/` — state of a
//!    table entry that can change after the entry was inserted;
//!  * `nameSources`: for every arm of the `match ty.description` in
//!    `TypeChecker::rust_type_to_roto_type` (src/typechecker/mod.rs — the function
//!    that turns the Rust signature of every registered function / constant into
//!    Roto types): where the Roto NAME of a registered type comes from — the
//!    runtime's own list (`runtime.get_runtime_type(..)` and no `static` of the crate in the arm), anything else
//!    (`.foreign`: the process-global entry, a cache), or no name at all
//!    (`.structural`: the arm only recurses);
//!  * `threadLocalTables`: every `static` declared inside a `thread_local!` (by name),
//!    with every function under `src/` that names it: its operations on the
//!    thread's table in source order (`.lookup` / `.insert` by the method names
//!    called inside `NAME.with*(…)`, `.other` for anything unrecognised) and
//!    `sharedAfterLookup`: after its first lookup the function acquires a
//!    lock-shaped static (a miss falls through to the shared table). Decision
//!    `threadLocalsPureCaches`: no function answers from the running thread's
//!    table alone (library items are `Send`: created on one thread, registered on
//!    another).
use crate::find;
use proc_macro2::{TokenStream, TokenTree};
use quote::ToTokens;
use std::path::{Path, PathBuf};
use syn::visit::Visit;

fn rs_files(dir: &Path, out: &mut Vec<PathBuf>) -> Result<(), String> {
    let rd = std::fs::read_dir(dir).map_err(|e| format!("{}: {e}", dir.display()))?;
    let mut entries: Vec<PathBuf> = rd.filter_map(|e| e.ok().map(|e| e.path())).collect();
    entries.sort();
    for p in entries {
        if p.is_dir() {
            if p.file_name().map(|n| n == "verif_hooks").unwrap_or(false) {
                continue;
            }
            rs_files(&p, out)?;
        } else if p.extension().map(|e| e == "rs").unwrap_or(false) {
            if p.file_name().map(|n| n == "tests.rs").unwrap_or(false) {
                continue;
            }
            out.push(p);
        }
    }
    Ok(())
}

fn skip_attrs(attrs: &[syn::Attribute]) -> bool {
    attrs.iter().any(|a| {
        a.path().is_ident("cfg") && {
            let s = a.meta.to_token_stream().to_string();
            s.contains("test") || s.contains("verif-hooks")
        }
    })
}

struct Static {
    name: String,
    file: String,
    is_mut: bool,
    is_pub: bool,
    kind: &'static str,
    ty: String,
}

struct Finder {
    file: String,
    statics: Vec<Static>,
    thread_locals: usize,
    /// (file, name, type) of every `static` declared inside a `thread_local!`
    tl_statics: Vec<(String, String, String)>,
    err: Option<String>,
}

/// the statics declared by the body of one `thread_local! { … }`: (name, type)
fn thread_local_statics(body: TokenStream) -> Vec<(String, String)> {
    let toks: Vec<TokenTree> = body.into_iter().collect();
    let mut out = vec![];
    let mut i = 0;
    while i < toks.len() {
        if matches!(&toks[i], TokenTree::Ident(id) if id == "static") {
            if let Some(TokenTree::Ident(name)) = toks.get(i + 1) {
                // the type: from after `:` to the top-level `=`
                let mut ty = String::new();
                let mut j = i + 3;
                while j < toks.len() && !matches!(&toks[j], TokenTree::Punct(p) if p.as_char() == '=') {
                    ty.push_str(&toks[j].to_string().replace(' ', ""));
                    j += 1;
                }
                out.push((name.to_string(), ty));
                i = j;
                continue;
            }
        }
        i += 1;
    }
    out
}

fn kind_of(ty: &str) -> &'static str {
    let toks: Vec<&str> = ty.split(|c: char| !(c.is_alphanumeric() || c == '_')).filter(|s| !s.is_empty()).collect();
    let has = |n: &str| toks.iter().any(|t| *t == n);
    if has("Cell") || has("RefCell") || has("UnsafeCell") || has("OnceCell") || has("Rc") {
        ".other"
    } else if has("Mutex") {
        ".mutex"
    } else if has("RwLock") {
        ".rwlock"
    } else if toks.iter().any(|t| t.starts_with("Atomic")) {
        ".atomic"
    } else if has("LazyLock") || has("OnceLock") || has("Lazy") {
        // initialised once, then read-only — only if nothing mutable inside
        ".immutable"
    } else {
        ".immutable"
    }
}

impl<'ast> Visit<'ast> for Finder {
    fn visit_item_mod(&mut self, m: &'ast syn::ItemMod) {
        if skip_attrs(&m.attrs) {
            return;
        }
        syn::visit::visit_item_mod(self, m);
    }
    fn visit_item_fn(&mut self, f: &'ast syn::ItemFn) {
        if skip_attrs(&f.attrs) {
            return;
        }
        syn::visit::visit_item_fn(self, f);
    }
    fn visit_impl_item_fn(&mut self, f: &'ast syn::ImplItemFn) {
        if skip_attrs(&f.attrs) {
            return;
        }
        syn::visit::visit_impl_item_fn(self, f);
    }
    fn visit_item_static(&mut self, s: &'ast syn::ItemStatic) {
        if skip_attrs(&s.attrs) {
            return;
        }
        let ty = s.ty.to_token_stream().to_string().replace(' ', "");
        self.statics.push(Static {
            name: s.ident.to_string(),
            file: self.file.clone(),
            is_mut: matches!(s.mutability, syn::StaticMutability::Mut(_)),
            is_pub: !matches!(s.vis, syn::Visibility::Inherited),
            kind: kind_of(&ty),
            ty,
        });
    }
    fn visit_item_macro(&mut self, m: &'ast syn::ItemMacro) {
        if skip_attrs(&m.attrs) {
            return;
        }
        syn::visit::visit_item_macro(self, m);
    }
    fn visit_macro(&mut self, m: &'ast syn::Macro) {
        let n = m.path.segments.last().map(|s| s.ident.to_string()).unwrap_or_default();
        if n == "thread_local" {
            self.thread_locals += 1;
            let found = thread_local_statics(m.tokens.clone());
            if found.is_empty() {
                self.err = Some(format!("{}: a thread_local! without a recognisable `static NAME: T = …`", self.file));
            }
            for (name, ty) in found {
                self.tl_statics.push((self.file.clone(), name, ty));
            }
        } else if n == "lazy_static" {
            self.err = Some(format!("{}: lazy_static! is not in the recognised subset", self.file));
        }
    }
}

#[derive(PartialEq)]
enum Tok {
    Ident(String),
    Punct(char),
    Open,
    Close,
    Other,
}

fn flatten(ts: TokenStream, out: &mut Vec<Tok>) {
    for t in ts {
        match t {
            TokenTree::Group(g) => {
                out.push(Tok::Open);
                flatten(g.stream(), out);
                out.push(Tok::Close);
            }
            TokenTree::Ident(i) => out.push(Tok::Ident(i.to_string())),
            TokenTree::Punct(p) => out.push(Tok::Punct(p.as_char())),
            TokenTree::Literal(_) => out.push(Tok::Other),
        }
    }
}

/// every occurrence of `name` in the file's token stream except its declaration
fn uses_of(file: &syn::File, name: &str) -> Vec<&'static str> {
    let mut toks = vec![];
    flatten(file.to_token_stream(), &mut toks);
    let mut out = vec![];
    for i in 0..toks.len() {
        if toks[i] == Tok::Ident(name.to_string()) {
            // the declaration: `static NAME :` / `static mut NAME :`
            let decl = i > 0
                && (toks[i - 1] == Tok::Ident("static".into()) || toks[i - 1] == Tok::Ident("mut".into()));
            if decl {
                continue;
            }
            let dot = toks.get(i + 1) == Some(&Tok::Punct('.'));
            let m = match toks.get(i + 2) {
                Some(Tok::Ident(m)) if dot => m.clone(),
                _ => String::new(),
            };
            let call = toks.get(i + 3) == Some(&Tok::Open);
            out.push(match (m.as_str(), call) {
                ("lock", true) => ".lock",
                ("read", true) => ".read",
                ("write", true) => ".write",
                _ => ".other",
            });
        }
    }
    out
}


const LOOKUPS: [&str; 16] = [
    "get", "get_mut", "contains_key", "contains", "entry", "iter", "find", "position", "get_key_value", "binary_search", "first", "last", "any", "keys",
    "values", "get_index_of",
];
const INSERTS: [&str; 16] = [
    "insert", "push", "push_back", "push_front", "or_insert", "or_insert_with", "or_insert_with_key", "or_default", "extend", "set", "get_or_insert_with",
    "get_or_init", "append", "try_insert", "insert_full", "replace",
];

/// the sections of one function body: (use, ops)
fn sections_of(body: TokenStream, name: &str) -> Vec<(&'static str, Vec<&'static str>)> {
    let mut toks = vec![];
    flatten(body, &mut toks);
    let mut out: Vec<(&'static str, Vec<&'static str>)> = vec![];
    let mut i = 0;
    while i < toks.len() {
        if toks[i] == Tok::Ident(name.to_string()) {
            // the declaration of a function-local static: `static NAME :` / `static mut NAME :`
            if i > 0 && (toks[i - 1] == Tok::Ident("static".into()) || toks[i - 1] == Tok::Ident("mut".into())) {
                i += 1;
                continue;
            }
            let dot = toks.get(i + 1) == Some(&Tok::Punct('.'));
            let m = match toks.get(i + 2) {
                Some(Tok::Ident(m)) if dot => m.clone(),
                _ => String::new(),
            };
            let call = toks.get(i + 3) == Some(&Tok::Open);
            out.push((
                match (m.as_str(), call) {
                    ("lock", true) => ".lock",
                    ("read", true) => ".read",
                    ("write", true) => ".write",
                    _ => ".other",
                },
                vec![],
            ));
            i += if call { 3 } else { 1 };
            continue;
        }
        if let (Tok::Ident(m), Some(Tok::Open)) = (&toks[i], toks.get(i + 1)) {
            // a method call `.m(` (not a path call `T::m(`, not a macro)
            let method = i > 0 && toks[i - 1] == Tok::Punct('.');
            if method {
                if let Some(cur) = out.last_mut() {
                    if LOOKUPS.contains(&m.as_str()) {
                        cur.1.push(".lookup");
                    } else if INSERTS.contains(&m.as_str()) {
                        cur.1.push(".insert");
                    }
                }
            }
        }
        i += 1;
    }
    out
}

struct FnFinder<'a> {
    name: &'a str,
    fns: Vec<(String, Vec<(&'static str, Vec<&'static str>)>)>,
    /// occurrences inside functions that are skipped (`#[cfg(test)]` / `#[cfg(feature = "verif-hooks")]`):
    /// counted (they are among `uses`), not described
    in_skipped: usize,
}

impl<'a> FnFinder<'a> {
    fn body(&mut self, fname: String, block: &syn::Block) {
        let secs = sections_of(block.to_token_stream(), self.name);
        if !secs.is_empty() {
            self.fns.push((fname, secs));
        }
    }
}

impl<'ast, 'a> Visit<'ast> for FnFinder<'a> {
    fn visit_item_mod(&mut self, m: &'ast syn::ItemMod) {
        if skip_attrs(&m.attrs) {
            return;
        }
        syn::visit::visit_item_mod(self, m);
    }
    fn visit_item_fn(&mut self, f: &'ast syn::ItemFn) {
        if skip_attrs(&f.attrs) {
            self.in_skipped += sections_of(f.block.to_token_stream(), self.name).len();
            return;
        }
        self.body(f.sig.ident.to_string(), &f.block);
    }
    fn visit_impl_item_fn(&mut self, f: &'ast syn::ImplItemFn) {
        if skip_attrs(&f.attrs) {
            self.in_skipped += sections_of(f.block.to_token_stream(), self.name).len();
            return;
        }
        self.body(f.sig.ident.to_string(), &f.block);
    }
    fn visit_item_static(&mut self, s: &'ast syn::ItemStatic) {
        // the initialiser (`LazyLock::new(|| …)`) does not use the table
        let _ = s;
    }
}

// ------------------------------------------------------------ thread-local tables

/// occurrences of the identity of the running thread (`thread::current`, `ThreadId`) outside
/// tests and hooks: state keyed by it is thread-affine without any `thread_local!`
struct ThreadIdFinder {
    n: usize,
}

impl<'ast> Visit<'ast> for ThreadIdFinder {
    fn visit_item_mod(&mut self, m: &'ast syn::ItemMod) {
        if skip_attrs(&m.attrs) {
            return;
        }
        syn::visit::visit_item_mod(self, m);
    }
    fn visit_item_fn(&mut self, f: &'ast syn::ItemFn) {
        if skip_attrs(&f.attrs) {
            return;
        }
        syn::visit::visit_item_fn(self, f);
    }
    fn visit_impl_item_fn(&mut self, f: &'ast syn::ImplItemFn) {
        if skip_attrs(&f.attrs) {
            return;
        }
        syn::visit::visit_impl_item_fn(self, f);
    }
    fn visit_path(&mut self, p: &'ast syn::Path) {
        let segs: Vec<String> = p.segments.iter().map(|s| s.ident.to_string()).collect();
        let n = segs.len();
        if segs.last().map(|l| l == "ThreadId").unwrap_or(false) || (n >= 2 && segs[n - 2] == "thread" && segs[n - 1] == "current") {
            self.n += 1;
        }
        syn::visit::visit_path(self, p);
    }
    fn visit_use_tree(&mut self, u: &'ast syn::UseTree) {
        let t = u.to_token_stream().to_string();
        if t.contains("ThreadId") || t.replace(' ', "").contains("thread::current") {
            self.n += 1;
        }
    }
}

const TL_READS: [&str; 3] = ["get", "take", "with_borrow"];
const TL_WRITES: [&str; 3] = ["set", "replace", "with_borrow_mut"];

/// what one function body does with the thread-local `name`: its operations in source
/// order (`.lookup` / `.insert` by the method names called inside `NAME.with*(…)`,
/// `.other` for anything not recognised) and whether, after the first occurrence that looks a
/// key up, the function acquires one of the lock-shaped statics `locks` (a miss falls through
/// to the shared table)
fn tl_fn(body: TokenStream, name: &str, locks: &[String]) -> Option<(Vec<&'static str>, bool)> {
    let mut toks = vec![];
    flatten(body, &mut toks);
    let mut ops: Vec<&'static str> = vec![];
    let mut first_lookup: Option<usize> = None;
    let mut seen = false;
    let mut i = 0;
    while i < toks.len() {
        if toks[i] == Tok::Ident(name.to_string()) {
            seen = true;
            let dot = toks.get(i + 1) == Some(&Tok::Punct('.'));
            let m = match toks.get(i + 2) {
                Some(Tok::Ident(m)) if dot => m.clone(),
                _ => String::new(),
            };
            let call = toks.get(i + 3) == Some(&Tok::Open);
            if !call || !(m.starts_with("with") || TL_READS.contains(&m.as_str()) || TL_WRITES.contains(&m.as_str())) {
                ops.push(".other");
                i += 1;
                continue;
            }
            // the argument group of the call
            let mut depth = 0usize;
            let mut j = i + 3;
            let mut inner: Vec<&'static str> = vec![];
            while j < toks.len() {
                match &toks[j] {
                    Tok::Open => depth += 1,
                    Tok::Close => {
                        depth -= 1;
                        if depth == 0 {
                            break;
                        }
                    }
                    Tok::Ident(mm) if j > 0 && toks[j - 1] == Tok::Punct('.') && toks.get(j + 1) == Some(&Tok::Open) => {
                        if LOOKUPS.contains(&mm.as_str()) {
                            inner.push(".lookup");
                        } else if INSERTS.contains(&mm.as_str()) {
                            inner.push(".insert");
                        }
                    }
                    _ => {}
                }
                j += 1;
            }
            if m == "get" || m == "take" {
                inner.push(".lookup");
            } else if m == "set" || m == "replace" {
                inner.push(".insert");
            }
            if inner.is_empty() {
                inner.push(".other");
            }
            if first_lookup.is_none() && inner.contains(&".lookup") {
                first_lookup = Some(i);
            }
            ops.extend(inner);
            i = j;
            continue;
        }
        i += 1;
    }
    if !seen {
        return None;
    }
    let shared_after = match first_lookup {
        None => false,
        Some(at) => (at..toks.len()).any(|k| {
            matches!(&toks[k], Tok::Ident(n) if locks.contains(n))
                && toks.get(k + 1) == Some(&Tok::Punct('.'))
                && matches!(toks.get(k + 2), Some(Tok::Ident(m)) if m == "lock" || m == "read" || m == "write")
                && toks.get(k + 3) == Some(&Tok::Open)
        }),
    };
    Some((ops, shared_after))
}

struct TlFinder<'a> {
    name: &'a str,
    locks: &'a [String],
    fns: Vec<(String, Vec<&'static str>, bool)>,
}

impl<'ast, 'a> Visit<'ast> for TlFinder<'a> {
    fn visit_item_mod(&mut self, m: &'ast syn::ItemMod) {
        if skip_attrs(&m.attrs) {
            return;
        }
        syn::visit::visit_item_mod(self, m);
    }
    fn visit_item_fn(&mut self, f: &'ast syn::ItemFn) {
        if skip_attrs(&f.attrs) {
            return;
        }
        if let Some((ops, sh)) = tl_fn(f.block.to_token_stream(), self.name, self.locks) {
            self.fns.push((f.sig.ident.to_string(), ops, sh));
        }
    }
    fn visit_impl_item_fn(&mut self, f: &'ast syn::ImplItemFn) {
        if skip_attrs(&f.attrs) {
            return;
        }
        if let Some((ops, sh)) = tl_fn(f.block.to_token_stream(), self.name, self.locks) {
            self.fns.push((f.sig.ident.to_string(), ops, sh));
        }
    }
    fn visit_item_macro(&mut self, _m: &'ast syn::ItemMacro) {
        // the declaration itself
    }
}

const CELLS: [&str; 8] = ["OnceLock", "OnceCell", "LazyLock", "LazyCell", "Mutex", "RwLock", "RefCell", "UnsafeCell"];

fn idents_of(ts: TokenStream) -> Vec<String> {
    let mut toks = vec![];
    flatten(ts, &mut toks);
    toks.into_iter().filter_map(|t| if let Tok::Ident(i) = t { Some(i) } else { None }).collect()
}

/// the field types (as identifier lists) of every struct / enum called `name` under src/
fn fields_of(parsed: &[(String, syn::File)], name: &str) -> Vec<Vec<String>> {
    struct V<'a> {
        name: &'a str,
        out: Vec<Vec<String>>,
    }
    impl<'ast, 'a> Visit<'ast> for V<'a> {
        fn visit_item_struct(&mut self, s: &'ast syn::ItemStruct) {
            if s.ident == self.name && !skip_attrs(&s.attrs) {
                for f in s.fields.iter() {
                    self.out.push(idents_of(f.ty.to_token_stream()));
                }
            }
        }
        fn visit_item_enum(&mut self, e: &'ast syn::ItemEnum) {
            if e.ident == self.name && !skip_attrs(&e.attrs) {
                for v in e.variants.iter() {
                    for f in v.fields.iter() {
                        self.out.push(idents_of(f.ty.to_token_stream()));
                    }
                }
            }
        }
    }
    let mut v = V { name, out: vec![] };
    for (_, f) in parsed {
        v.visit_file(f);
    }
    v.out
}

/// cells inside the crate types the static's type mentions (the static's own wrappers not counted)
fn entry_cells(parsed: &[(String, syn::File)], ty: &str) -> usize {
    let mut todo: Vec<String> = ty.split(|c: char| !(c.is_alphanumeric() || c == '_')).filter(|s| !s.is_empty()).map(|s| s.to_string()).collect();
    let mut seen: Vec<String> = vec![];
    let mut cells = 0;
    while let Some(n) = todo.pop() {
        if seen.contains(&n) {
            continue;
        }
        seen.push(n.clone());
        for field in fields_of(parsed, &n) {
            for id in field {
                if CELLS.contains(&id.as_str()) || id == "Cell" || id.starts_with("Atomic") {
                    cells += 1;
                } else if !seen.contains(&id) {
                    todo.push(id);
                }
            }
        }
    }
    cells
}

/// the arms of `match ty.description` in `TypeChecker::rust_type_to_roto_type`
fn name_sources(repo: &Path, static_names: &[String]) -> Result<Vec<(String, &'static str)>, String> {
    let file = find::parse(repo, "src/typechecker/mod.rs")?;
    struct F {
        block: Option<syn::Block>,
    }
    impl<'ast> Visit<'ast> for F {
        fn visit_impl_item_fn(&mut self, f: &'ast syn::ImplItemFn) {
            if f.sig.ident == "rust_type_to_roto_type" && !skip_attrs(&f.attrs) {
                self.block = Some(f.block.clone());
            }
        }
    }
    let mut f = F { block: None };
    f.visit_file(&file);
    let block = f.block.ok_or("src/typechecker/mod.rs: fn rust_type_to_roto_type not found")?;
    struct M<'a> {
        arms: Vec<(String, &'static str)>,
        seen: usize,
        statics: &'a [String],
    }
    impl<'ast, 'a> Visit<'ast> for M<'a> {
        fn visit_expr_match(&mut self, m: &'ast syn::ExprMatch) {
            let scrutinee = m.expr.to_token_stream().to_string().replace(' ', "");
            if !scrutinee.ends_with(".description") {
                syn::visit::visit_expr_match(self, m);
                return;
            }
            self.seen += 1;
            for arm in &m.arms {
                let pat = arm.pat.to_token_stream().to_string().replace(' ', "");
                let body = idents_of(arm.body.to_token_stream());
                let names = body.iter().any(|i| i == "TypeName" || i == "Name");
                // the runtime's own list, and no process-global state (a `static` of the crate) in the arm
                let own = body.windows(2).any(|w| w[0] == "runtime" && w[1] == "get_runtime_type") && !body.iter().any(|i| self.statics.contains(i));
                self.arms.push((pat, if !names { ".structural" } else if own { ".ownList" } else { ".foreign" }));
            }
        }
    }
    let mut m = M { arms: vec![], seen: 0, statics: static_names };
    m.visit_block(&block);
    if m.seen != 1 {
        return Err(format!("src/typechecker/mod.rs: rust_type_to_roto_type has {} matches over `.description` (expected 1)", m.seen));
    }
    Ok(m.arms)
}

pub fn c12globals(repo: &Path) -> Result<String, String> {
    let mut files = vec![];
    rs_files(&repo.join("src"), &mut files)?;
    let mut statics = vec![];
    let mut thread_locals = 0;
    let mut tl_statics: Vec<(String, String, String)> = vec![];
    let mut parsed = vec![];
    for p in &files {
        let rel = p.strip_prefix(repo).unwrap().to_string_lossy().to_string();
        let f = find::parse(repo, &rel)?;
        let mut fd = Finder { file: rel.clone(), statics: vec![], thread_locals: 0, tl_statics: vec![], err: None };
        fd.visit_file(&f);
        if let Some(e) = fd.err {
            return Err(e);
        }
        statics.extend(fd.statics);
        thread_locals += fd.thread_locals;
        tl_statics.extend(fd.tl_statics);
        parsed.push((rel, f));
    }
    let mut s = String::new();
    s.push_str("/- GENERATED by /verif/extract (target c12globals) from every file under src/ — do not edit. -/\nimport RotoV.Model.ConcShare\nnamespace RotoV.Gen.C12Globals\nopen RotoV.Conc.Share\n\n");
    s.push_str("def facts : GlobalFacts where\n");
    s.push_str(&format!("  threadLocals := {thread_locals}\n"));
    s.push_str("  statics := [\n");
    let mut first = true;
    for st in &statics {
        let lockish = st.kind == ".mutex" || st.kind == ".rwlock";
        if lockish && st.is_pub {
            return Err(format!("{}: lock-shaped static {} is visible outside its file", st.file, st.name));
        }
        let uses = if lockish {
            let f = &parsed.iter().find(|(r, _)| *r == st.file).unwrap().1;
            uses_of(f, &st.name)
        } else {
            vec![]
        };
        let (fns, cells) = if lockish {
            let f = &parsed.iter().find(|(r, _)| *r == st.file).unwrap().1;
            let mut ff = FnFinder { name: &st.name, fns: vec![], in_skipped: 0 };
            ff.visit_file(f);
            // every occurrence of the name must be inside a function the scan sees
            let in_fns: usize = ff.fns.iter().map(|(_, s)| s.len()).sum::<usize>() + ff.in_skipped;
            if in_fns != uses.len() {
                return Err(format!("{}: {} of the {} occurrences of {} are outside the functions of the file (closure in a const / macro?)", st.file, uses.len() - in_fns.min(uses.len()), uses.len(), st.name));
            }
            (ff.fns, entry_cells(&parsed, &st.ty))
        } else {
            (vec![], 0)
        };
        if !first {
            s.push_str(",\n");
        }
        first = false;
        let fns_txt: Vec<String> = fns
            .iter()
            .map(|(n, secs)| {
                let secs: Vec<String> = secs.iter().map(|(u, ops)| format!("{{ use := {u}, ops := [{}] }}", ops.join(", "))).collect();
                format!("\n        /- fn {n} -/ {{ sections := [{}] }}", secs.join(", "))
            })
            .collect();
        s.push_str(&format!(
            "    -- {} in {}: {}\n    {{ kind := {}, isMut := {}, uses := [{}],\n      fns := [{}],\n      entryCells := {} }}",
            st.name,
            st.file,
            st.ty,
            st.kind,
            st.is_mut,
            uses.join(", "),
            fns_txt.join(","),
            cells
        ));
    }
    s.push_str("]\n");
    // every static of a `thread_local!` by name: the functions that use it (all files: a `pub` one is used elsewhere)
    let lock_names: Vec<String> = statics.iter().filter(|st| st.kind == ".mutex" || st.kind == ".rwlock").map(|st| st.name.clone()).collect();
    let mut thread_id_uses = 0;
    for (_, f) in &parsed {
        let mut tf = ThreadIdFinder { n: 0 };
        tf.visit_file(f);
        thread_id_uses += tf.n;
    }
    s.push_str(&format!("  threadIdUses := {thread_id_uses}\n"));
    s.push_str("  threadLocalTables := [");
    let mut tl_txt = vec![];
    for (file, name, ty) in &tl_statics {
        let mut fns_txt = vec![];
        for (rel, f) in &parsed {
            let mut tf = TlFinder { name, locks: &lock_names, fns: vec![] };
            tf.visit_file(f);
            for (fname, ops, sh) in tf.fns {
                fns_txt.push(format!("\n        /- fn {fname} in {rel} -/ {{ ops := [{}], sharedAfterLookup := {sh} }}", ops.join(", ")));
            }
        }
        tl_txt.push(format!("\n    -- thread_local {name} in {file}: {ty}\n    {{ fns := [{}] }}", fns_txt.join(",")));
    }
    s.push_str(&tl_txt.join(","));
    s.push_str("]\n\n/-- where `TypeChecker::rust_type_to_roto_type` takes the Roto name of a registered type from, per arm of its match over `ty.description` -/\ndef nameSources : List NameSource := [");
    let static_names: Vec<String> = statics.iter().map(|st| st.name.clone()).collect();
    let arms = name_sources(repo, &static_names)?;
    let txt: Vec<String> = arms.iter().map(|(p, k)| format!("\n  /- {p} -/ {k}")).collect();
    s.push_str(&txt.join(","));
    s.push_str("]\n\nend RotoV.Gen.C12Globals\n");
    Ok(s)
}
