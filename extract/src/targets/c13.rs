//! Translator targets owned by property C13 — `Generated/ScopeFacts.lean`.
//!
//! Name resolution is an algorithm over a mutable graph (tied by the
//! correspondence run), but the *decisions* the model hard-wires are read off the
//! working tree here, as plain facts, so that changing one of them changes a Lean
//! definition and `RotoV.C13.source_facts_as_modelled` stops checking:
//!
//!  * `ScopeGraph::resolve_name` (src/typechecker/scope.rs): the order in which
//!    the loop consults the scope's declarations, the `recurse` gate, the scope's
//!    imports and the parent scope;
//!  * `resolve_module_part_of_path` (src/typechecker/expr.rs): the values given
//!    to `recurse` (initially, after a leading `super`, after every segment), and
//!    that a leading `pkg` is looked up from the global scope;
//!  * `declare_modules` (src/typechecker/mod.rs): the parent of a module scope;
//!  * `TypeInfo::full_name` (src/typechecker/info.rs): the separator;
//!  * `Module::get_function` (src/codegen/mod.rs): the prefix of the looked-up name;
//!  * src/file_tree.rs: that every way to build a tree calls its root `pkg`; the
//!    stems `find_files` skips, the extension it wants, the
//!    file `process_subdir` requires, the file `directory` starts from, the file
//!    name `read_internal` treats as "named after the directory".
//!
//! The facts are located by *what is consulted*, not by the shape of the code:
//! a refactoring that keeps the order / the literals extracts to the same file.

#[allow(unused_imports)]
use super::{Gen, Target};
use crate::find;
use quote::ToTokens;
use std::path::Path;
use syn::visit::Visit;

pub const TARGETS: &[Target] = &[("scopefacts", "ScopeFacts", scopefacts as Gen)];

fn codes(s: &str) -> String {
    format!("[{}]", s.chars().map(|c| (c as u32).to_string()).collect::<Vec<_>>().join(", "))
}

fn flat(t: &impl ToTokens) -> String {
    t.to_token_stream().to_string().replace(' ', "")
}

/// what `resolve_name` consults, in source order
struct Order(Vec<&'static str>);
impl<'ast> Visit<'ast> for Order {
    fn visit_expr_method_call(&mut self, m: &'ast syn::ExprMethodCall) {
        // receivers first: they are evaluated first
        self.visit_expr(&m.receiver);
        let recv = flat(&m.receiver);
        if m.method == "get" && recv.ends_with("declarations") {
            self.0.push("decl");
        } else if m.method == "get" && recv.ends_with(".imports") {
            self.0.push("imports");
        } else if m.method == "parent" && recv == "self" {
            self.0.push("parent");
        }
        for a in &m.args {
            self.visit_expr(a);
        }
    }
    fn visit_expr_unary(&mut self, u: &'ast syn::ExprUnary) {
        if matches!(u.op, syn::UnOp::Not(_)) && flat(&u.expr) == "recurse" {
            self.0.push("gate");
        }
        syn::visit::visit_expr_unary(self, u);
    }
    fn visit_expr_path(&mut self, p: &'ast syn::ExprPath) {
        // `if recurse && …` is the same gate written positively (it guards what follows)
        let _ = p;
    }
}

/// every value given to the variable `recurse`, in source order
struct Recurse(Vec<String>);
impl<'ast> Visit<'ast> for Recurse {
    fn visit_local(&mut self, l: &'ast syn::Local) {
        if flat(&l.pat).trim_start_matches("mut") == "recurse" {
            if let Some(init) = &l.init {
                self.0.push(flat(&init.expr));
            }
        }
        syn::visit::visit_local(self, l);
    }
    fn visit_expr_assign(&mut self, a: &'ast syn::ExprAssign) {
        if flat(&a.left) == "recurse" {
            self.0.push(flat(&a.right));
        }
        syn::visit::visit_expr_assign(self, a);
    }
}

/// string literals compared (`==` / `!=`) with the expression named `lhs`
struct Compared<'a>(&'a str, Vec<(String, String)>);
impl<'ast> Visit<'ast> for Compared<'_> {
    fn visit_expr_binary(&mut self, b: &'ast syn::ExprBinary) {
        let op = match b.op {
            syn::BinOp::Eq(_) => "==",
            syn::BinOp::Ne(_) => "!=",
            _ => "",
        };
        if !op.is_empty() && flat(&b.left) == self.0 {
            if let syn::Expr::Lit(syn::ExprLit { lit: syn::Lit::Str(s), .. }) = &*b.right {
                self.1.push((op.to_string(), s.value()));
            }
        }
        syn::visit::visit_expr_binary(self, b);
    }
}

/// string-literal arguments of calls of the method `name`
struct MethodLits<'a>(&'a str, Vec<String>);
impl<'ast> Visit<'ast> for MethodLits<'_> {
    fn visit_expr_method_call(&mut self, m: &'ast syn::ExprMethodCall) {
        if m.method == self.0 {
            for a in &m.args {
                match a {
                    syn::Expr::Lit(syn::ExprLit { lit: syn::Lit::Str(s), .. }) => self.1.push(s.value()),
                    syn::Expr::Lit(syn::ExprLit { lit: syn::Lit::Char(c), .. }) => self.1.push(c.value().to_string()),
                    _ => {}
                }
            }
        }
        syn::visit::visit_expr_method_call(self, m);
    }
}

/// first argument of the `wrap(…)` call whose second argument builds a module scope
struct ModuleWrap(Vec<String>);
impl<'ast> Visit<'ast> for ModuleWrap {
    fn visit_expr_method_call(&mut self, m: &'ast syn::ExprMethodCall) {
        if m.method == "wrap" && m.args.len() == 2 && flat(&m.args[1]).starts_with("ScopeType::Module(") {
            self.0.push(flat(&m.args[0]));
        }
        syn::visit::visit_expr_method_call(self, m);
    }
}

/// the format string of the first `format!` in a block
struct FormatLit(Vec<String>);
impl<'ast> Visit<'ast> for FormatLit {
    fn visit_macro(&mut self, m: &'ast syn::Macro) {
        if m.path.is_ident("format") {
            if let Some(proc_macro2::TokenTree::Literal(l)) = m.tokens.clone().into_iter().next() {
                if let Ok(syn::Lit::Str(s)) = syn::parse_str::<syn::Lit>(&l.to_string()) {
                    self.0.push(s.value());
                }
            }
        }
    }
}

fn one<T: Clone>(what: &str, v: &[T]) -> Result<T, String> {
    match v {
        [x] => Ok(x.clone()),
        _ => Err(format!("{what}: expected exactly one occurrence, found {}", v.len())),
    }
}

fn scopefacts(repo: &Path) -> Result<String, String> {
    // --- resolve_name
    let scope_rs = find::parse(repo, "src/typechecker/scope.rs")?;
    let f = find::func(&scope_rs, "resolve_name", Some("ScopeGraph"))?;
    let mut o = Order(vec![]);
    o.visit_block(&f.block);
    let mut order = o.0;
    // `if recurse && let Some(x) = …imports.get(..)`: the gate is the `recurse` operand
    // of a `&&` that guards the imports: make it explicit when no `!recurse` precedes
    let text = flat(&f.block);
    if !order.contains(&"gate") && text.contains("recurse&&") {
        if let Some(pos) = order.iter().position(|x| *x == "imports") {
            order.insert(pos, "gate");
        }
    }
    // the declaration looked up right after the imports is the import's target
    if let Some(pos) = order.iter().position(|x| *x == "imports") {
        if order.get(pos + 1) == Some(&"decl") {
            order[pos + 1] = "target";
        }
    }
    for want in ["decl", "gate", "imports", "target", "parent"] {
        if order.iter().filter(|x| **x == want).count() != 1 {
            return Err(format!("resolve_name: step `{want}` occurs {} times ({order:?})", order.iter().filter(|x| **x == want).count()));
        }
    }

    // --- resolve_module_part_of_path
    let expr_rs = find::parse(repo, "src/typechecker/expr.rs")?;
    let f = find::func(&expr_rs, "resolve_module_part_of_path", None)?;
    let mut r = Recurse(vec![]);
    r.visit_block(&f.block);
    let mut recurse = vec![];
    for v in &r.0 {
        match v.as_str() {
            "true" => recurse.push("true"),
            "false" => recurse.push("false"),
            other => return Err(format!("resolve_module_part_of_path: `recurse` is given `{other}`")),
        }
    }
    // `pkg` at the start of a path: looked up from the global scope
    let text = flat(&f.block);
    let pkg_global = text.contains("ifrecurse&&ident.node==\"pkg\".into(){scope=ScopeRef::GLOBAL;}");
    let uses = flat(&f.block).matches("resolve_name(scope,ident,recurse)").count();
    if uses != 1 {
        return Err(format!("resolve_module_part_of_path: expected one `resolve_name(scope, ident, recurse)`, found {uses}"));
    }

    // --- declare_modules
    let mod_rs = find::parse(repo, "src/typechecker/mod.rs")?;
    let f = find::func(&mod_rs, "declare_modules", None)?;
    let mut w = ModuleWrap(vec![]);
    w.visit_block(&f.block);
    let module_parent = one("declare_modules: wrap(_, ScopeType::Module(_))", &w.0)?;

    // --- full_name
    let info_rs = find::parse(repo, "src/typechecker/info.rs")?;
    let f = find::func(&info_rs, "full_name", None)?;
    let mut p = MethodLits("push", vec![]);
    p.visit_block(&f.block);
    let sep = one("full_name: push(<char>)", &p.1)?;
    if !flat(&f.block).contains("print_scope(name.scope)") || !flat(&f.block).contains("push_str(name.ident.as_str())") {
        return Err("full_name is not print_scope(scope) + separator + ident".into());
    }

    // --- get_function
    let cg_rs = find::parse(repo, "src/codegen/mod.rs")?;
    let f = find::func(&cg_rs, "get_function", Some("Module"))?;
    let mut fl = FormatLit(vec![]);
    fl.visit_block(&f.block);
    let fmt = fl.0.first().cloned().ok_or("get_function: no format! found")?;
    let prefix = fmt.strip_suffix("{name}").ok_or_else(|| format!("get_function: format string `{fmt}` does not end in {{name}}"))?.to_string();

    // --- file discovery
    let ft_rs = find::parse(repo, "src/file_tree.rs")?;
    let f = find::func(&ft_rs, "find_files", None)?;
    let mut c = Compared("ident", vec![]);
    c.visit_block(&f.block);
    let skipped: Vec<String> = c.1.iter().filter(|(op, _)| op == "==").map(|(_, s)| s.clone()).collect();
    let mut e = Compared("ext", vec![]);
    e.visit_block(&f.block);
    let ext = one("find_files: ext != <literal>", &e.1.iter().filter(|(op, _)| op == "!=").map(|(_, s)| s.clone()).collect::<Vec<_>>())?;
    // the root of every tree is called `pkg`
    let mut root_named_pkg = true;
    for (fname, pat) in [
        ("file_spec", "files[0].module_name=\"pkg\".into();"),
        ("single_file", "file.module_name=\"pkg\".into();"),
        ("directory", "assert_eq!(pkg_file.module_name,\"pkg\");"),
    ] {
        let f = find::func(&ft_rs, fname, None)?;
        if !flat(&f.block).contains(pat) {
            root_named_pkg = false;
        }
    }
    let f = find::func(&ft_rs, "process_subdir", None)?;
    let mut j = MethodLits("join", vec![]);
    j.visit_block(&f.block);
    let dir_file = one("process_subdir: join(<literal>)", &j.1)?;
    if !flat(&f.block).contains("if!file_path.exists(){returnOk(());}") {
        return Err("process_subdir does not ignore directories without that file".into());
    }
    let f = find::func(&ft_rs, "directory", None)?;
    let mut j = MethodLits("join", vec![]);
    j.visit_block(&f.block);
    let root_file = one("directory: join(<literal>)", &j.1)?;
    let f = find::func(&ft_rs, "read_internal", None)?;
    let mut c = Compared("file_name", vec![]);
    c.visit_block(&f.block);
    let named_after_dir = one("read_internal: file_name == <literal>", &c.1.iter().filter(|(op, _)| op == "==").map(|(_, s)| s.clone()).collect::<Vec<_>>())?;

    let mut out = String::new();
    out.push_str("/- GENERATED by /verif/extract from src/typechecker/{scope,expr,mod,info}.rs, src/codegen/mod.rs, src/file_tree.rs — do not edit. -/\nnamespace RotoV.Gen.ScopeFacts\n\n");
    out.push_str("/-- what one iteration of `resolve_name` consults -/\ninductive Step | decl | gate | imports | target | parent\n  deriving DecidableEq, Repr\n\n");
    out.push_str(&format!("/-- … in this order -/\ndef resolveNameOrder : List Step := [{}]\n\n", order.iter().map(|s| format!(".{s}")).collect::<Vec<_>>().join(", ")));
    out.push_str(&format!("/-- the values `resolve_module_part_of_path` gives to `recurse`, in source order -/\ndef recurseValues : List Bool := [{}]\n\n", recurse.join(", ")));
    out.push_str(&format!("/-- a first segment `pkg` (not after `super`) is looked up from `ScopeRef::GLOBAL` -/\ndef pkgFromGlobal : Bool := {pkg_global}\n\n"));
    out.push_str(&format!("/-- first argument of `wrap` for a script module's scope (character codes) -/\ndef moduleScopeParent : List Nat := {}\n\n", codes(&module_parent)));
    out.push_str(&format!("def fullNameSeparator : List Nat := {}\n\n", codes(&sep)));
    out.push_str(&format!("/-- `get_function` looks up this prefix followed by the given name -/\ndef getFunctionPrefix : List Nat := {}\n\n", codes(&prefix)));
    out.push_str(&format!("/-- `file_spec`, `single_file` and `directory` all call the root module `pkg` -/\ndef rootNamedPkg : Bool := {root_named_pkg}\n\n"));
    out.push_str(&format!("/-- stems `find_files` does not turn into modules -/\ndef skippedStems : List (List Nat) := [{}]\n\n", skipped.iter().map(|s| codes(s)).collect::<Vec<_>>().join(", ")));
    out.push_str(&format!("def moduleExtension : List Nat := {}\n\n", codes(&ext)));
    out.push_str(&format!("/-- the file a directory needs to be a module -/\ndef dirModuleFile : List Nat := {}\n\n", codes(&dir_file)));
    out.push_str(&format!("def rootFile : List Nat := {}\n\n", codes(&root_file)));
    out.push_str(&format!("/-- the file name whose module is named after its directory -/\ndef namedAfterDirectory : List Nat := {}\n\n", codes(&named_after_dir)));
    out.push_str("end RotoV.Gen.ScopeFacts\n");
    Ok(out)
}
