//! Translator targets owned by property C13 — `Generated/ScopeFacts.lean`.
//!
//! Name resolution is an algorithm over a mutable graph (tied by the
//! correspondence run), but the *decisions* the model hard-wires are read off the
//! working tree here, as plain facts, so that changing one of them changes a Lean
//! definition and `RotoV.C13.source_facts_as_modelled` stops checking:
//!
//!  * `ScopeGraph::resolve_name` (src/typechecker/scope.rs): no longer a fact but
//!    the whole loop body, transliterated by target `scoperesolve` (end of this file);
//!  * `resolve_module_part_of_path` (src/typechecker/expr.rs): no longer facts but
//!    the whole function, transliterated by target `scopepath` (end of this file);
//!  * `declare_modules` (src/typechecker/mod.rs): the parent of a module scope;
//!  * `TypeInfo::full_name` (src/typechecker/info.rs): the separator;
//!  * `Module::get_function` (src/codegen/mod.rs): the prefix of the looked-up name;
//!  * src/file_tree.rs: that every way to build a tree calls its root `pkg`; the
//!    stems `find_files` skips, the extension it wants, the
//!    file `process_subdir` requires, the file `directory` starts from, the file
//!    name `read_internal` treats as "named after the directory".
//!
//! The facts are located by *what is consulted*, not by the shape of the code:
//! a refactoring that keeps the order / the literals extracts to the same file.

#[allow(unused_imports)]
use super::{Gen, Target};
use crate::find;
use quote::ToTokens;
use std::path::Path;
use syn::visit::Visit;

pub const TARGETS: &[Target] = &[
    ("scopefacts", "ScopeFacts", scopefacts as Gen),
    ("scopeimports", "ScopeImportsLoop", scopeimports as Gen),
    ("scoperesolve", "ScopeResolveLoop", scoperesolve as Gen),
    ("scopepath", "ScopePathLoop", scopepath as Gen),
    ("scopeimportone", "ScopeImportOne", scopeimportone as Gen),
];

fn codes(s: &str) -> String {
    format!("[{}]", s.chars().map(|c| (c as u32).to_string()).collect::<Vec<_>>().join(", "))
}

fn flat(t: &impl ToTokens) -> String {
    t.to_token_stream().to_string().replace(' ', "")
}

/// string literals compared (`==` / `!=`) with the expression named `lhs`
struct Compared<'a>(&'a str, Vec<(String, String)>);
impl<'ast> Visit<'ast> for Compared<'_> {
    fn visit_expr_binary(&mut self, b: &'ast syn::ExprBinary) {
        let op = match b.op {
            syn::BinOp::Eq(_) => "==",
            syn::BinOp::Ne(_) => "!=",
            _ => "",
        };
        if !op.is_empty() && flat(&b.left) == self.0 {
            if let syn::Expr::Lit(syn::ExprLit { lit: syn::Lit::Str(s), .. }) = &*b.right {
                self.1.push((op.to_string(), s.value()));
            }
        }
        syn::visit::visit_expr_binary(self, b);
    }
}

/// names of the locals (`let v = …`) whose initialiser contains `needle`
struct BoundTo<'a>(&'a str, Vec<String>);
impl<'ast> Visit<'ast> for BoundTo<'_> {
    fn visit_local(&mut self, l: &'ast syn::Local) {
        if let (syn::Pat::Ident(pi), Some(init)) = (&l.pat, &l.init) {
            if flat(&init.expr).contains(self.0) {
                self.1.push(pi.ident.to_string());
            }
        }
        syn::visit::visit_local(self, l);
    }
}

/// `matches!(var, "a" | "b")`: the literals (`.1`); any other `matches!` on `var` goes to `.2`
struct MatchesLits<'a>(&'a str, Vec<String>, Vec<String>);
struct MatchesArgs(syn::Expr, syn::Pat, bool);
impl syn::parse::Parse for MatchesArgs {
    fn parse(input: syn::parse::ParseStream) -> syn::Result<Self> {
        let e: syn::Expr = input.parse()?;
        input.parse::<syn::Token![,]>()?;
        let p = syn::Pat::parse_multi_with_leading_vert(input)?;
        let guard = !input.is_empty() && !(input.peek(syn::Token![,]) && { input.parse::<syn::Token![,]>()?; input.is_empty() });
        if guard {
            // swallow the rest: a guard is outside the subset
            let _: proc_macro2::TokenStream = input.parse()?;
        }
        Ok(MatchesArgs(e, p, guard))
    }
}
impl<'ast> Visit<'ast> for MatchesLits<'_> {
    fn visit_macro(&mut self, m: &'ast syn::Macro) {
        if !m.path.is_ident("matches") {
            return;
        }
        let txt = m.tokens.to_string().replace(' ', "");
        match syn::parse2::<MatchesArgs>(m.tokens.clone()) {
            Ok(MatchesArgs(e, p, guard)) if flat(&e) == self.0 => {
                let alts: Vec<syn::Pat> = match p {
                    syn::Pat::Or(o) => o.cases.into_iter().collect(),
                    other => vec![other],
                };
                let mut lits = vec![];
                for a in &alts {
                    match a {
                        syn::Pat::Lit(syn::ExprLit { lit: syn::Lit::Str(s), .. }) => lits.push(s.value()),
                        _ => {
                            self.2.push(txt.clone());
                            return;
                        }
                    }
                }
                if guard {
                    self.2.push(txt);
                } else {
                    self.1.extend(lits);
                }
            }
            Ok(_) => {}
            Err(_) => self.2.push(txt),
        }
    }
}

/// string-literal arguments of calls of the method `name`
struct MethodLits<'a>(&'a str, Vec<String>);
impl<'ast> Visit<'ast> for MethodLits<'_> {
    fn visit_expr_method_call(&mut self, m: &'ast syn::ExprMethodCall) {
        if m.method == self.0 {
            for a in &m.args {
                match a {
                    syn::Expr::Lit(syn::ExprLit { lit: syn::Lit::Str(s), .. }) => self.1.push(s.value()),
                    syn::Expr::Lit(syn::ExprLit { lit: syn::Lit::Char(c), .. }) => self.1.push(c.value().to_string()),
                    _ => {}
                }
            }
        }
        syn::visit::visit_expr_method_call(self, m);
    }
}

/// first argument of the `wrap(…)` call whose second argument builds a module scope
struct ModuleWrap(Vec<String>);
impl<'ast> Visit<'ast> for ModuleWrap {
    fn visit_expr_method_call(&mut self, m: &'ast syn::ExprMethodCall) {
        if m.method == "wrap" && m.args.len() == 2 && flat(&m.args[1]).starts_with("ScopeType::Module(") {
            self.0.push(flat(&m.args[0]));
        }
        syn::visit::visit_expr_method_call(self, m);
    }
}

/// the format string of the first `format!` in a block
struct FormatLit(Vec<String>);
impl<'ast> Visit<'ast> for FormatLit {
    fn visit_macro(&mut self, m: &'ast syn::Macro) {
        if m.path.is_ident("format") {
            if let Some(proc_macro2::TokenTree::Literal(l)) = m.tokens.clone().into_iter().next() {
                if let Ok(syn::Lit::Str(s)) = syn::parse_str::<syn::Lit>(&l.to_string()) {
                    self.0.push(s.value());
                }
            }
        }
    }
}

fn one<T: Clone>(what: &str, v: &[T]) -> Result<T, String> {
    match v {
        [x] => Ok(x.clone()),
        _ => Err(format!("{what}: expected exactly one occurrence, found {}", v.len())),
    }
}

fn scopefacts(repo: &Path) -> Result<String, String> {
    // --- declare_modules
    let mod_rs = find::parse(repo, "src/typechecker/mod.rs")?;
    let f = find::func(&mod_rs, "declare_modules", None)?;
    let mut w = ModuleWrap(vec![]);
    w.visit_block(&f.block);
    let module_parent = one("declare_modules: wrap(_, ScopeType::Module(_))", &w.0)?;

    // --- full_name
    let info_rs = find::parse(repo, "src/typechecker/info.rs")?;
    let f = find::func(&info_rs, "full_name", None)?;
    let mut p = MethodLits("push", vec![]);
    p.visit_block(&f.block);
    let sep = one("full_name: push(<char>)", &p.1)?;
    if !flat(&f.block).contains("print_scope(name.scope)") || !flat(&f.block).contains("push_str(name.ident.as_str())") {
        return Err("full_name is not print_scope(scope) + separator + ident".into());
    }

    // --- get_function
    let cg_rs = find::parse(repo, "src/codegen/mod.rs")?;
    let f = find::func(&cg_rs, "get_function", Some("Module"))?;
    let mut fl = FormatLit(vec![]);
    fl.visit_block(&f.block);
    let fmt = fl.0.first().cloned().ok_or("get_function: no format! found")?;
    let prefix = fmt.strip_suffix("{name}").ok_or_else(|| format!("get_function: format string `{fmt}` does not end in {{name}}"))?.to_string();

    // --- file discovery
    let ft_rs = find::parse(repo, "src/file_tree.rs")?;
    let f = find::func(&ft_rs, "find_files", None)?;
    // the stem is whatever local is bound to `<entry path>.file_stem()…`; the stems
    // that are skipped are the literals it is compared with (`==`, `matches!`)
    let mut sv = BoundTo(".file_stem()", vec![]);
    sv.visit_block(&f.block);
    let stem_var = one("find_files: local bound to `….file_stem()…`", &sv.1)?;
    let mut c = Compared(&stem_var, vec![]);
    c.visit_block(&f.block);
    if c.1.iter().any(|(op, _)| op != "==") {
        return Err(format!("find_files: `{stem_var}` compared with `!=`"));
    }
    let mut skipped: Vec<String> = c.1.iter().map(|(_, s)| s.clone()).collect();
    let mut mm = MatchesLits(&stem_var, vec![], vec![]);
    mm.visit_block(&f.block);
    if let Some(bad) = mm.2.first() {
        return Err(format!("find_files: `matches!({bad})` outside the subset"));
    }
    skipped.extend(mm.1);
    let mut e = Compared("ext", vec![]);
    e.visit_block(&f.block);
    let ext = one("find_files: ext != <literal>", &e.1.iter().filter(|(op, _)| op == "!=").map(|(_, s)| s.clone()).collect::<Vec<_>>())?;
    // the root of every tree is called `pkg`
    let mut root_named_pkg = true;
    for (fname, pat) in [
        ("file_spec", "files[0].module_name=\"pkg\".into();"),
        ("single_file", "file.module_name=\"pkg\".into();"),
        ("directory", "assert_eq!(pkg_file.module_name,\"pkg\");"),
    ] {
        let f = find::func(&ft_rs, fname, None)?;
        if !flat(&f.block).contains(pat) {
            root_named_pkg = false;
        }
    }
    let f = find::func(&ft_rs, "process_subdir", None)?;
    let mut j = MethodLits("join", vec![]);
    j.visit_block(&f.block);
    let dir_file = one("process_subdir: join(<literal>)", &j.1)?;
    if !flat(&f.block).contains("if!file_path.exists(){returnOk(());}") {
        return Err("process_subdir does not ignore directories without that file".into());
    }
    let f = find::func(&ft_rs, "directory", None)?;
    let mut j = MethodLits("join", vec![]);
    j.visit_block(&f.block);
    let root_file = one("directory: join(<literal>)", &j.1)?;
    let f = find::func(&ft_rs, "read_internal", None)?;
    let mut c = Compared("file_name", vec![]);
    c.visit_block(&f.block);
    let named_after_dir = one("read_internal: file_name == <literal>", &c.1.iter().filter(|(op, _)| op == "==").map(|(_, s)| s.clone()).collect::<Vec<_>>())?;

    let mut out = String::new();
    out.push_str("/- GENERATED by /verif/extract from src/typechecker/{scope,expr,mod,info}.rs, src/codegen/mod.rs, src/file_tree.rs — do not edit. -/\nnamespace RotoV.Gen.ScopeFacts\n\n");
    out.push_str(&format!("/-- first argument of `wrap` for a script module's scope (character codes) -/\ndef moduleScopeParent : List Nat := {}\n\n", codes(&module_parent)));
    out.push_str(&format!("def fullNameSeparator : List Nat := {}\n\n", codes(&sep)));
    out.push_str(&format!("/-- `get_function` looks up this prefix followed by the given name -/\ndef getFunctionPrefix : List Nat := {}\n\n", codes(&prefix)));
    out.push_str(&format!("/-- `file_spec`, `single_file` and `directory` all call the root module `pkg` -/\ndef rootNamedPkg : Bool := {root_named_pkg}\n\n"));
    out.push_str(&format!("/-- stems `find_files` does not turn into modules -/\ndef skippedStems : List (List Nat) := [{}]\n\n", skipped.iter().map(|s| codes(s)).collect::<Vec<_>>().join(", ")));
    out.push_str(&format!("def moduleExtension : List Nat := {}\n\n", codes(&ext)));
    out.push_str(&format!("/-- the file a directory needs to be a module -/\ndef dirModuleFile : List Nat := {}\n\n", codes(&dir_file)));
    out.push_str(&format!("def rootFile : List Nat := {}\n\n", codes(&root_file)));
    out.push_str(&format!("/-- the file name whose module is named after its directory -/\ndef namedAfterDirectory : List Nat := {}\n\n", codes(&named_after_dir)));
    out.push_str("end RotoV.Gen.ScopeFacts\n");
    Ok(out)
}

// ---------------------------------------------------------------- `imports`
//
// `TypeChecker::imports` (src/typechecker/mod.rs) is transliterated statement by
// statement into the little language of `lean/RotoV/Model/ScopeImportsLoop.lean`
// (`IBlock`); `RotoV.C13.imports_loop_as_modelled` proves that the transliterated
// body means `Scope.imports`.  Anything outside the statement forms listed there
// is an extraction failure.  Also read off: which functions call `self.import` /
// `self.imports`, and that `declare_imports` / `block` hand *all* import paths of
// the scope to one `imports` call.

fn is_hook(attrs: &[syn::Attribute]) -> bool {
    attrs.iter().any(|a| flat(a).starts_with("#[cfg(feature=\"verif-hooks\")]"))
}

struct LoopTr {
    vars: Vec<String>,
}

impl LoopTr {
    fn len_expr(&self, e: &syn::Expr) -> Result<String, String> {
        match e {
            syn::Expr::Paren(p) => self.len_expr(&p.expr),
            syn::Expr::Lit(syn::ExprLit { lit: syn::Lit::Int(i), .. }) => Ok(format!("(.lit {})", i.base10_digits())),
            syn::Expr::Path(p) => {
                let n = flat(p);
                match self.vars.iter().position(|v| *v == n) {
                    Some(i) => Ok(format!("(.var {i})")),
                    None => Err(format!("imports: `{n}` is not a length bound by `let … = paths.len()`")),
                }
            }
            _ if flat(e) == "paths.len()" => Ok(".len".into()),
            _ => Err(format!("imports: length expression `{}` outside the subset", flat(e))),
        }
    }
    fn cond(&self, e: &syn::Expr) -> Result<String, String> {
        match e {
            syn::Expr::Paren(p) => self.cond(&p.expr),
            syn::Expr::Unary(u) if matches!(u.op, syn::UnOp::Not(_)) => Ok(format!("(.not {})", self.cond(&u.expr)?)),
            syn::Expr::Binary(b) => {
                let op = match b.op {
                    syn::BinOp::Eq(_) => "eq",
                    syn::BinOp::Ne(_) => "ne",
                    syn::BinOp::Lt(_) => "lt",
                    syn::BinOp::Le(_) => "le",
                    syn::BinOp::Gt(_) => "gt",
                    syn::BinOp::Ge(_) => "ge",
                    _ => return Err(format!("imports: condition `{}` outside the subset", flat(e))),
                };
                Ok(format!("(.cmp .{op} {} {})", self.len_expr(&b.left)?, self.len_expr(&b.right)?))
            }
            _ if flat(e) == "paths.is_empty()" => Ok(".isEmpty".into()),
            _ => Err(format!("imports: condition `{}` outside the subset", flat(e))),
        }
    }
    fn block(&mut self, stmts: &[syn::Stmt]) -> Result<String, String> {
        let mut out: Vec<String> = vec![];
        for st in stmts {
            match st {
                syn::Stmt::Local(l) => {
                    if is_hook(&l.attrs) {
                        continue;
                    }
                    let name = flat(&l.pat).trim_start_matches("mut").to_string();
                    let init = l.init.as_ref().ok_or_else(|| format!("imports: `let {name}` without a value"))?;
                    if init.diverge.is_some() || flat(&init.expr) != "paths.len()" || !matches!(l.pat, syn::Pat::Ident(_)) {
                        return Err(format!("imports: `{}` outside the subset (only `let v = paths.len();`)", flat(l)));
                    }
                    let i = match self.vars.iter().position(|v| *v == name) {
                        Some(i) => i,
                        None => {
                            self.vars.push(name);
                            self.vars.len() - 1
                        }
                    };
                    out.push(format!("(.letLen {i})"));
                }
                syn::Stmt::Expr(e, _) => out.push(self.stmt_expr(e)?),
                syn::Stmt::Macro(m) if is_hook(&m.attrs) => continue,
                other => return Err(format!("imports: statement `{}` outside the subset", flat(other))),
            }
        }
        let mut s = ".done".to_string();
        for x in out.iter().rev() {
            s = format!("(.seq {x} {s})");
        }
        Ok(s)
    }
    fn stmt_expr(&mut self, e: &syn::Expr) -> Result<String, String> {
        let txt = flat(e);
        match e {
            _ if txt == "paths.retain(|p|self.import(scope,p).is_err())" => Ok(".retainFailed".into()),
            syn::Expr::ForLoop(f) => {
                let over = flat(&f.expr);
                if f.label.is_none() && flat(&f.pat) == "p" && (over == "&paths" || over == "paths.iter()") && flat(&f.body) == "{self.import(scope,p)?;}" {
                    Ok(".tryEach".into())
                } else {
                    Err(format!("imports: loop `{txt}` outside the subset"))
                }
            }
            syn::Expr::If(i) => {
                let c = self.cond(&i.cond)?;
                let t = self.block(&i.then_branch.stmts)?;
                let el = match &i.else_branch {
                    None => ".done".to_string(),
                    Some((_, e)) => match &**e {
                        syn::Expr::Block(b) if b.label.is_none() => self.block(&b.block.stmts)?,
                        syn::Expr::If(_) => format!("(.seq {} .done)", self.stmt_expr(e)?),
                        other => return Err(format!("imports: else branch `{}` outside the subset", flat(other))),
                    },
                };
                Ok(format!("(.ite {c} {t} {el})"))
            }
            syn::Expr::Return(r) if r.expr.as_ref().is_some_and(|x| flat(x) == "Ok(())") => Ok(".retOk".into()),
            _ if txt == "Ok(())" => Ok(".retOk".into()),
            syn::Expr::Loop(l) if l.label.is_none() => Ok(format!("(.loop {})", self.block(&l.body.stmts)?)),
            syn::Expr::Break(b) if b.label.is_none() && b.expr.is_none() => Ok(".brk".into()),
            _ => Err(format!("imports: statement `{txt}` outside the subset")),
        }
    }
}

/// names of the functions (of the given files) whose body contains `needle`
struct Callers<'a> {
    needle: &'a str,
    found: Vec<String>,
}
impl<'ast> Visit<'ast> for Callers<'_> {
    fn visit_impl_item_fn(&mut self, i: &'ast syn::ImplItemFn) {
        if !is_hook(&i.attrs) && flat(&i.block).contains(self.needle) {
            self.found.push(i.sig.ident.to_string());
        }
    }
    fn visit_item_fn(&mut self, i: &'ast syn::ItemFn) {
        if !is_hook(&i.attrs) && flat(&i.block).contains(self.needle) {
            self.found.push(i.sig.ident.to_string());
        }
    }
}

fn scopeimports(repo: &Path) -> Result<String, String> {
    let mod_rs = find::parse(repo, "src/typechecker/mod.rs")?;
    let f = find::func(&mod_rs, "imports", Some("TypeChecker"))?;
    let params: Vec<String> = f.sig.inputs.iter().filter_map(|a| match a {
        syn::FnArg::Typed(t) => Some(flat(&t.pat)),
        _ => None,
    }).collect();
    if params != ["scope", "paths"] {
        return Err(format!("imports: parameters {params:?}, expected scope, paths"));
    }
    let stmts: Vec<syn::Stmt> = f.block.stmts.iter().filter(|s| !matches!(s, syn::Stmt::Local(l) if is_hook(&l.attrs))).cloned().collect();
    let Some((first, rest)) = stmts.split_first() else { return Err("imports: empty body".into()) };
    if flat(first) != "letmutpaths=paths.to_vec();" {
        return Err(format!("imports: the body does not start with `let mut paths = paths.to_vec();` but `{}`", flat(first)));
    }
    let mut tr = LoopTr { vars: vec![] };
    let body = tr.block(rest)?;

    // who calls `import` / `imports`
    let mut files = vec![mod_rs.clone()];
    for rel in ["src/typechecker/expr.rs", "src/typechecker/scope.rs", "src/typechecker/info.rs"] {
        files.push(find::parse(repo, rel)?);
    }
    let callers = |needle: &str| -> Vec<String> {
        let mut c = Callers { needle, found: vec![] };
        for f in &files {
            c.visit_file(f);
        }
        c.found.sort();
        c.found
    };
    let import_callers = callers("self.import(");
    let imports_callers = callers("self.imports(");

    // `declare_imports`: per module, one vector collects the paths of every import
    // declaration, and one `imports` call gets it after the collecting loop
    let f = find::func(&mod_rs, "declare_imports", None)?;
    let mut whole_module = false;
    for st in &f.block.stmts {
        if let syn::Stmt::Expr(syn::Expr::ForLoop(outer), _) = st {
            let direct: Vec<String> = outer.body.stmts.iter().map(|s| flat(s)).collect();
            let decl = direct.iter().position(|s| s == "letmutpaths=Vec::new();");
            let call = direct.iter().position(|s| s == "self.imports(scope,&paths)?;");
            let collect = outer.body.stmts.iter().position(|s| matches!(s, syn::Stmt::Expr(syn::Expr::ForLoop(inner), _)
                if flat(&inner.expr) == "&module.ast.declarations" && flat(&inner.body).contains("paths.push(path)") && !flat(&inner.body).contains("self.imports(")));
            if let (Some(d), Some(c), Some(k)) = (decl, collect, call) {
                whole_module = d < c && c < k && flat(&outer.expr) == "modules";
            }
        }
    }
    // `block`: the block's whole import list in one call, before the statements
    let expr_rs = find::parse(repo, "src/typechecker/expr.rs")?;
    let f = find::func(&expr_rs, "block", None)?;
    let txt = flat(&f.block);
    let whole_block = match (txt.find("self.imports(scope,&block.imports.iter().collect::<Vec<_>>())?;"), txt.find("forstmtin&block.stmts")) {
        (Some(a), Some(b)) => a < b,
        _ => false,
    };

    let names = |v: &[String]| format!("[{}]", v.iter().map(|s| codes(s)).collect::<Vec<_>>().join(", "));
    let mut out = String::new();
    out.push_str("/- GENERATED by /verif/extract from src/typechecker/{mod,expr}.rs — do not edit. -/\nimport RotoV.Model.ScopeImportsLoop\n\nnamespace RotoV.Gen.ScopeImportsLoop\nopen RotoV.Scope.Loop\n\n");
    out.push_str(&format!("/-- the body of `TypeChecker::imports` after `let mut paths = paths.to_vec();`\n    (length variables in order of binding: {}) -/\ndef importsBody : IBlock :=\n  {body}\n\n", tr.vars.join(", ")));
    out.push_str(&format!("/-- the functions that call `self.import(…)` (character codes) -/\ndef importCallers : List (List Nat) := {}\n\n", names(&import_callers)));
    out.push_str(&format!("/-- the functions that call `self.imports(…)` -/\ndef importsCallers : List (List Nat) := {}\n\n", names(&imports_callers)));
    out.push_str(&format!("/-- `declare_imports` collects the paths of every import declaration of a module and hands them to one `imports` call -/\ndef declareImportsWholeModule : Bool := {whole_module}\n\n"));
    out.push_str(&format!("/-- `block` hands the block's whole import list to one `imports` call before its statements -/\ndef blockImportsWhole : Bool := {whole_block}\n\n"));
    out.push_str("end RotoV.Gen.ScopeImportsLoop\n");
    Ok(out)
}

// ---------------------------------------------------------------- `resolve_name`
//
// `ScopeGraph::resolve_name` (src/typechecker/scope.rs) is transliterated
// statement by statement into the little language of
// `lean/RotoV/Model/ScopeResolveLoop.lean` (`RBlock` / `RExpr`);
// `RotoV.C13.resolve_name_as_modelled` proves that the transliterated body means
// `Graph.resolveName` of the hand model.  Locals are bound by name (any name),
// so a renaming or an extra immutable local extracts to an equivalent program;
// a helper method, another loop, an `else`, a different key is an extraction
// failure or a different program.

struct ResolveTr {
    /// names of the locals in scope, outermost first (`""` = bound, not nameable)
    env: Vec<String>,
}

impl ResolveTr {
    fn expr(&self, e: &syn::Expr) -> Result<String, String> {
        match e {
            syn::Expr::Paren(p) => self.expr(&p.expr),
            syn::Expr::Reference(r) if r.mutability.is_none() => self.expr(&r.expr),
            syn::Expr::Path(p) => {
                let n = flat(p);
                match self.env.iter().rposition(|v| !v.is_empty() && *v == n) {
                    Some(i) => Ok(format!("(.var {i})")),
                    None => Err(format!("resolve_name: `{n}` is not a local bound in the loop body")),
                }
            }
            syn::Expr::Struct(st) if flat(&st.path) == "ResolvedName" && st.rest.is_none() && st.fields.len() == 2 => {
                let mut have_scope = false;
                let mut have_ident = false;
                for f in &st.fields {
                    match (flat(&f.member).as_str(), flat(&f.expr).as_str()) {
                        ("scope", "scope") => have_scope = true,
                        ("ident", "**ident") => have_ident = true,
                        (m, v) => return Err(format!("resolve_name: key field `{m}: {v}` outside the subset")),
                    }
                }
                if have_scope && have_ident {
                    Ok(".mkName".into())
                } else {
                    Err(format!("resolve_name: key `{}` outside the subset", flat(e)))
                }
            }
            syn::Expr::Field(_) if flat(e) == "self.scopes[scope.0].imports" => Ok(".scopeImports".into()),
            syn::Expr::Field(f) if flat(&f.member) == "1" => Ok(format!("(.snd {})", self.expr(&f.base)?)),
            syn::Expr::MethodCall(m) if m.turbofish.is_none() => {
                let name = m.method.to_string();
                match (name.as_str(), m.args.len()) {
                    ("clone", 0) => self.expr(&m.receiver),
                    ("unwrap", 0) => Ok(format!("(.unwrap {})", self.expr(&m.receiver)?)),
                    ("get", 1) if flat(&m.receiver) == "self.declarations" => Ok(format!("(.declGet {})", self.expr(&m.args[0])?)),
                    ("get", 1) if matches!(flat(&m.args[0]).as_str(), "ident" | "&ident" | "&**ident") => {
                        Ok(format!("(.tableGet {})", self.expr(&m.receiver)?))
                    }
                    _ => Err(format!("resolve_name: call `{}` outside the subset", flat(e))),
                }
            }
            _ => Err(format!("resolve_name: expression `{}` outside the subset", flat(e))),
        }
    }

    fn block(&mut self, stmts: &[syn::Stmt]) -> Result<String, String> {
        let Some((st, rest)) = stmts.split_first() else { return Ok(".done".into()) };
        let depth = self.env.len();
        let out = self.stmt(st, rest);
        self.env.truncate(depth);
        out
    }

    fn no_rest(&self, what: &str, rest: &[syn::Stmt]) -> Result<(), String> {
        if rest.is_empty() {
            Ok(())
        } else {
            Err(format!("resolve_name: statements after `{what}`"))
        }
    }

    fn stmt(&mut self, st: &syn::Stmt, rest: &[syn::Stmt]) -> Result<String, String> {
        match st {
            syn::Stmt::Local(l) if is_hook(&l.attrs) => self.block(rest),
            syn::Stmt::Macro(m) if is_hook(&m.attrs) => self.block(rest),
            syn::Stmt::Local(l) => {
                let syn::Pat::Ident(pi) = &l.pat else {
                    return Err(format!("resolve_name: `{}` outside the subset (only `let v = e;`)", flat(l)));
                };
                if pi.mutability.is_some() || pi.by_ref.is_some() || pi.subpat.is_some() {
                    return Err(format!("resolve_name: `{}` outside the subset (only `let v = e;`)", flat(l)));
                }
                let init = l.init.as_ref().ok_or_else(|| format!("resolve_name: `{}` without a value", flat(l)))?;
                if init.diverge.is_some() {
                    return Err(format!("resolve_name: `{}` outside the subset (let-else)", flat(l)));
                }
                let e = self.expr(&init.expr)?;
                self.env.push(pi.ident.to_string());
                Ok(format!("(.letE {e} {})", self.block(rest)?))
            }
            syn::Stmt::Expr(e, _) => match e {
                syn::Expr::If(i) => {
                    if i.else_branch.is_some() {
                        return Err(format!("resolve_name: `if … else` outside the subset: `{}`", flat(&i.cond)));
                    }
                    let depth = self.env.len();
                    let head = match &*i.cond {
                        syn::Expr::Let(l) => {
                            let scrut = self.expr(&l.expr)?;
                            // `Some(v)` or `Some((_, v))`
                            let syn::Pat::TupleStruct(ts) = &*l.pat else {
                                return Err(format!("resolve_name: pattern `{}` outside the subset", flat(&l.pat)));
                            };
                            if flat(&ts.path) != "Some" || ts.elems.len() != 1 {
                                return Err(format!("resolve_name: pattern `{}` outside the subset", flat(&l.pat)));
                            }
                            let mut wrap_snd = false;
                            match &ts.elems[0] {
                                syn::Pat::Ident(pi) if pi.by_ref.is_none() && pi.mutability.is_none() && pi.subpat.is_none() => {
                                    self.env.push(pi.ident.to_string());
                                }
                                syn::Pat::Tuple(t) if t.elems.len() == 2 && matches!(t.elems[0], syn::Pat::Wild(_)) => {
                                    let syn::Pat::Ident(pi) = &t.elems[1] else {
                                        return Err(format!("resolve_name: pattern `{}` outside the subset", flat(&l.pat)));
                                    };
                                    if pi.by_ref.is_some() || pi.mutability.is_some() || pi.subpat.is_some() {
                                        return Err(format!("resolve_name: pattern `{}` outside the subset", flat(&l.pat)));
                                    }
                                    self.env.push(String::new());
                                    self.env.push(pi.ident.to_string());
                                    wrap_snd = true;
                                }
                                _ => return Err(format!("resolve_name: pattern `{}` outside the subset", flat(&l.pat))),
                            }
                            let mut t = self.block(&i.then_branch.stmts)?;
                            if wrap_snd {
                                t = format!("(.letE (.snd (.var {depth})) {t})");
                            }
                            format!(".ifLetSome {scrut} {t}")
                        }
                        c if flat(c) == "!recurse" => format!(".ifNotRecurse {}", self.block(&i.then_branch.stmts)?),
                        c => return Err(format!("resolve_name: condition `{}` outside the subset", flat(c))),
                    };
                    self.env.truncate(depth);
                    Ok(format!("({head} {})", self.block(rest)?))
                }
                syn::Expr::Return(r) => {
                    self.no_rest("return", rest)?;
                    match r.expr.as_deref() {
                        Some(x) if flat(x) == "None" => Ok(".retNone".into()),
                        Some(syn::Expr::Call(c)) if flat(&c.func) == "Some" && c.args.len() == 1 => Ok(format!("(.retSome {})", self.expr(&c.args[0])?)),
                        _ => Err(format!("resolve_name: `{}` outside the subset", flat(e))),
                    }
                }
                syn::Expr::Assign(a) if flat(&a.left) == "scope" && flat(&a.right) == "self.parent(scope)?" => {
                    Ok(format!("(.ascend {})", self.block(rest)?))
                }
                other => Err(format!("resolve_name: statement `{}` outside the subset", flat(other))),
            },
            other => Err(format!("resolve_name: statement `{}` outside the subset", flat(other))),
        }
    }
}

fn scoperesolve(repo: &Path) -> Result<String, String> {
    let scope_rs = find::parse(repo, "src/typechecker/scope.rs")?;
    let f = find::func(&scope_rs, "resolve_name", Some("ScopeGraph"))?;
    let params: Vec<String> = f.sig.inputs.iter().filter_map(|a| match a {
        syn::FnArg::Typed(t) => Some(flat(&t.pat)),
        _ => None,
    }).collect();
    if params != ["mutscope", "ident", "recurse"] {
        return Err(format!("resolve_name: parameters {params:?}, expected mut scope, ident, recurse"));
    }
    let stmts: Vec<&syn::Stmt> = f.block.stmts.iter().filter(|s| !matches!(s, syn::Stmt::Local(l) if is_hook(&l.attrs))).collect();
    let body = match stmts.as_slice() {
        [syn::Stmt::Expr(syn::Expr::Loop(l), _)] if l.label.is_none() => {
            let mut tr = ResolveTr { env: vec![] };
            tr.block(&l.body.stmts)?
        }
        _ => return Err("resolve_name: the body is not a single `loop { … }`".into()),
    };
    // `parent` is the plain field read the model assumes
    let p = find::func(&scope_rs, "parent", Some("ScopeGraph"))?;
    if flat(&p.block) != "{self.scopes[scope.0].parent}" {
        return Err(format!("ScopeGraph::parent is not `self.scopes[scope.0].parent` but `{}`", flat(&p.block)));
    }
    let mut out = String::new();
    out.push_str("/- GENERATED by /verif/extract from src/typechecker/scope.rs — do not edit. -/\nimport RotoV.Model.ScopeResolveLoop\n\nnamespace RotoV.Gen.ScopeResolveLoop\nopen RotoV.Scope.RLoop\n\n");
    out.push_str(&format!("/-- the body of the `loop` of `ScopeGraph::resolve_name` -/\ndef resolveNameBody : RBlock :=\n  {body}\n\n"));
    out.push_str("end RotoV.Gen.ScopeResolveLoop\n");
    Ok(out)
}

// ---------------------------------------------------------------- `resolve_module_part_of_path`
//
// `TypeChecker::resolve_module_part_of_path` (src/typechecker/expr.rs) is
// transliterated into the little language of `lean/RotoV/Model/ScopePathLoop.lean`
// (`PBlock` / `PExpr`): the body of the `while ident.node == "super".into()`
// loop, the statements between the loops, the body of the `loop`.
// `RotoV.C13.resolve_module_part_as_modelled` proves that they mean
// `Scope.resolveModulePart` of the hand model.

struct PathTr {
    env: Vec<String>,
}

const IS_SUPER: &str = "ident.node==\"super\".into()";
const IS_PKG: &str = "ident.node==\"pkg\".into()";

impl PathTr {
    fn var(&self, e: &syn::Expr) -> Result<String, String> {
        let n = flat(e);
        match (e, self.env.iter().rposition(|v| *v == n)) {
            (syn::Expr::Path(_), Some(i)) => Ok(format!("(.var {i})")),
            _ => Err(format!("resolve_module_part_of_path: `{n}` is not a local bound by `let Some(…) = … else`")),
        }
    }

    fn opt_expr(&self, e: &syn::Expr) -> Result<String, String> {
        let txt = flat(e);
        match txt.as_str() {
            "self.type_info.scope_graph.parent_module(scope)" => Ok(".parentModule".into()),
            "self.type_info.scope_graph.resolve_name(scope,ident,recurse)" => Ok(".resolveName".into()),
            "idents.next()" => Ok(".nextIdent".into()),
            _ => match e {
                syn::Expr::Field(f) if flat(&f.member) == "scope" => Ok(format!("(.declScope {})", self.var(&f.base)?)),
                _ => Err(format!("resolve_module_part_of_path: expression `{txt}` outside the subset")),
            },
        }
    }

    fn block(&mut self, stmts: &[syn::Stmt]) -> Result<String, String> {
        let Some((st, rest)) = stmts.split_first() else { return Ok(".done".into()) };
        let depth = self.env.len();
        let out = self.stmt(st, rest);
        self.env.truncate(depth);
        out
    }

    fn ret(&self, e: &syn::Expr) -> Result<String, String> {
        let bad = || format!("resolve_module_part_of_path: `return {}` outside the subset", flat(e));
        let syn::Expr::Call(c) = e else { return Err(bad()) };
        if c.args.len() != 1 {
            return Err(bad());
        }
        match (flat(&c.func).as_str(), &c.args[0]) {
            ("Ok", syn::Expr::Tuple(t)) if t.elems.len() == 2 && flat(&t.elems[0]) == "ident" => Ok(format!("(.retOk {})", self.var(&t.elems[1])?)),
            ("Err", syn::Expr::MethodCall(m)) if flat(&m.receiver) == "self" && m.method == "error_not_defined" && m.args.len() == 1 && flat(&m.args[0]) == "ident" => {
                Ok(".retNotDefined".into())
            }
            ("Err", syn::Expr::MethodCall(m)) if flat(&m.receiver) == "self" && m.method == "error_simple" => {
                let mut lits = MethodLitsAll(vec![]);
                lits.visit_expr_method_call(m);
                if lits.0.iter().any(|l| l.contains("too many leading `super` keywords")) {
                    Ok(".retTooManySuper".into())
                } else {
                    Err(bad())
                }
            }
            _ => Err(bad()),
        }
    }

    fn stmt(&mut self, st: &syn::Stmt, rest: &[syn::Stmt]) -> Result<String, String> {
        match st {
            syn::Stmt::Local(l) if is_hook(&l.attrs) => self.block(rest),
            syn::Stmt::Macro(m) if is_hook(&m.attrs) => self.block(rest),
            syn::Stmt::Macro(m) if m.mac.path.is_ident("unreachable") && m.mac.tokens.is_empty() => {
                if !rest.is_empty() {
                    return Err("resolve_module_part_of_path: statements after `unreachable!()`".into());
                }
                Ok(".unreachable".into())
            }
            syn::Stmt::Local(l) => {
                // `let Some(v) = e else { … };`
                let bad = || format!("resolve_module_part_of_path: `{}` outside the subset (only `let Some(v) = e else {{ … }};`)", flat(l));
                let syn::Pat::TupleStruct(ts) = &l.pat else { return Err(bad()) };
                let Some(init) = &l.init else { return Err(bad()) };
                let Some((_, els)) = &init.diverge else { return Err(bad()) };
                let syn::Expr::Block(eb) = &**els else { return Err(bad()) };
                if flat(&ts.path) != "Some" || ts.elems.len() != 1 {
                    return Err(bad());
                }
                let syn::Pat::Ident(pi) = &ts.elems[0] else { return Err(bad()) };
                if pi.by_ref.is_some() || pi.mutability.is_some() || pi.subpat.is_some() {
                    return Err(bad());
                }
                let e = self.opt_expr(&init.expr)?;
                let els = self.block(&eb.block.stmts)?;
                self.env.push(pi.ident.to_string());
                Ok(format!("(.letElse {e} {els} {})", self.block(rest)?))
            }
            syn::Stmt::Expr(e, _) => match e {
                syn::Expr::If(i) => {
                    if i.else_branch.is_some() {
                        return Err(format!("resolve_module_part_of_path: `if … else` outside the subset: `{}`", flat(&i.cond)));
                    }
                    let c = flat(&i.cond);
                    let head = if c == IS_SUPER {
                        ".ifSuper"
                    } else if c == format!("recurse&&{IS_PKG}") {
                        ".ifRecurseAndPkg"
                    } else {
                        return Err(format!("resolve_module_part_of_path: condition `{c}` outside the subset"));
                    };
                    let t = self.block(&i.then_branch.stmts)?;
                    Ok(format!("({head} {t} {})", self.block(rest)?))
                }
                syn::Expr::Return(r) => {
                    if !rest.is_empty() {
                        return Err("resolve_module_part_of_path: statements after `return`".into());
                    }
                    let x = r.expr.as_deref().ok_or("resolve_module_part_of_path: bare `return`")?;
                    self.ret(x)
                }
                syn::Expr::Assign(a) => {
                    let k = |me: &mut Self| me.block(rest);
                    match (flat(&a.left).as_str(), flat(&a.right).as_str()) {
                        ("scope", "ScopeRef::GLOBAL") => Ok(format!("(.setScopeGlobal {})", k(self)?)),
                        ("scope", _) => {
                            let v = self.var(&a.right)?;
                            Ok(format!("(.setScope {v} {})", k(self)?))
                        }
                        ("ident", _) => {
                            let v = self.var(&a.right)?;
                            Ok(format!("(.setIdent {v} {})", k(self)?))
                        }
                        ("recurse", b @ ("true" | "false")) => {
                            let b = b.to_string();
                            Ok(format!("(.setRecurse {b} {})", k(self)?))
                        }
                        (l, r) => Err(format!("resolve_module_part_of_path: assignment `{l} = {r}` outside the subset")),
                    }
                }
                other => Err(format!("resolve_module_part_of_path: statement `{}` outside the subset", flat(other))),
            },
            other => Err(format!("resolve_module_part_of_path: statement `{}` outside the subset", flat(other))),
        }
    }
}

/// every string literal below an expression
struct MethodLitsAll(Vec<String>);
impl<'ast> Visit<'ast> for MethodLitsAll {
    fn visit_lit_str(&mut self, s: &'ast syn::LitStr) {
        self.0.push(s.value());
    }
}

fn scopepath(repo: &Path) -> Result<String, String> {
    let expr_rs = find::parse(repo, "src/typechecker/expr.rs")?;
    let f = find::func(&expr_rs, "resolve_module_part_of_path", None)?;
    let params: Vec<String> = f.sig.inputs.iter().filter_map(|a| match a {
        syn::FnArg::Typed(t) => Some(flat(&t.pat)),
        _ => None,
    }).collect();
    if params != ["mutscope", "mutidents"] {
        return Err(format!("resolve_module_part_of_path: parameters {params:?}, expected mut scope, mut idents"));
    }
    let stmts: Vec<&syn::Stmt> = f.block.stmts.iter().filter(|s| !matches!(s, syn::Stmt::Local(l) if is_hook(&l.attrs))).collect();
    let [first, second, third, between @ .., last] = stmts.as_slice() else {
        return Err("resolve_module_part_of_path: fewer than four statements".into());
    };
    if flat(*first) != "letmutident=idents.next().unwrap();" {
        return Err(format!("resolve_module_part_of_path: does not start with `let mut ident = idents.next().unwrap();` but `{}`", flat(*first)));
    }
    let recurse0 = match flat(*second).as_str() {
        "letmutrecurse=true;" => "true",
        "letmutrecurse=false;" => "false",
        other => return Err(format!("resolve_module_part_of_path: second statement `{other}` is not `let mut recurse = <bool>;`")),
    };
    let w = match third {
        syn::Stmt::Expr(syn::Expr::While(w), _) if w.label.is_none() && flat(&w.cond) == IS_SUPER => PathTr { env: vec![] }.block(&w.body.stmts)?,
        other => return Err(format!("resolve_module_part_of_path: third statement is not `while {IS_SUPER}` but `{}`", flat(*other).chars().take(80).collect::<String>())),
    };
    let between: Vec<syn::Stmt> = between.iter().map(|s| (*s).clone()).collect();
    let s = PathTr { env: vec![] }.block(&between)?;
    let l = match last {
        syn::Stmt::Expr(syn::Expr::Loop(l), _) if l.label.is_none() => PathTr { env: vec![] }.block(&l.body.stmts)?,
        _ => return Err("resolve_module_part_of_path: the last statement is not `loop { … }`".into()),
    };
    let mut out = String::new();
    out.push_str("/- GENERATED by /verif/extract from src/typechecker/expr.rs — do not edit. -/\nimport RotoV.Model.ScopePathLoop\n\nnamespace RotoV.Gen.ScopePathLoop\nopen RotoV.Scope.PLoop\n\n");
    out.push_str(&format!("/-- `let mut recurse = …;` -/\ndef initialRecurse : Bool := {recurse0}\n\n"));
    out.push_str(&format!("/-- the body of `while ident.node == \"super\".into()` -/\ndef whileBody : PBlock :=\n  {w}\n\n"));
    out.push_str(&format!("/-- the statements between the two loops -/\ndef betweenBody : PBlock :=\n  {s}\n\n"));
    out.push_str(&format!("/-- the body of the final `loop` -/\ndef loopBody : PBlock :=\n  {l}\n\n"));
    out.push_str("end RotoV.Gen.ScopePathLoop\n");
    Ok(out)
}

// ---------------------------------------------------------------- `import`
//
// `TypeChecker::import` (src/typechecker/mod.rs): its statements as steps of
// `lean/RotoV/Model/ScopeImportOne.lean`; `RotoV.C13.import_as_modelled` proves
// that they mean `Scope.importOne`.  `ScopeGraph::insert_import`: the table it
// writes and the key.

fn scopeimportone(repo: &Path) -> Result<String, String> {
    let mod_rs = find::parse(repo, "src/typechecker/mod.rs")?;
    let f = find::func(&mod_rs, "import", Some("TypeChecker"))?;
    let params: Vec<String> = f.sig.inputs.iter().filter_map(|a| match a {
        syn::FnArg::Typed(t) => Some(flat(&t.pat)),
        _ => None,
    }).collect();
    if params != ["scope", "path"] {
        return Err(format!("import: parameters {params:?}, expected scope, path"));
    }
    let stmts: Vec<&syn::Stmt> = f.block.stmts.iter().filter(|s| !matches!(s, syn::Stmt::Local(l) if is_hook(&l.attrs))).collect();
    let Some((first, rest)) = stmts.split_first() else { return Err("import: empty body".into()) };
    if flat(*first) != "letmutidents=path.idents.iter();" {
        return Err(format!("import: the body does not start with `let mut idents = path.idents.iter();` but `{}`", flat(*first)));
    }
    let mut steps: Vec<&str> = vec![];
    // the names bound to the resolved identifier and declaration
    let mut bound: Option<(String, String)> = None;
    for (k, st) in rest.iter().enumerate() {
        let last = k + 1 == rest.len();
        match st {
            syn::Stmt::Local(l) => {
                let syn::Pat::Tuple(t) = &l.pat else { return Err(format!("import: `{}` outside the subset", flat(l))) };
                let names: Vec<String> = t.elems.iter().map(|p| flat(p)).collect();
                let init = l.init.as_ref().map(|i| flat(&i.expr)).unwrap_or_default();
                if names.len() != 2 || names.iter().any(|n| !n.chars().all(|c| c.is_alphanumeric() || c == '_')) || init != "self.resolve_module_part_of_path(scope,&mutidents)?" || bound.is_some() {
                    return Err(format!("import: `{}` outside the subset", flat(l)));
                }
                bound = Some((names[0].clone(), names[1].clone()));
                steps.push(".resolve");
            }
            syn::Stmt::Expr(syn::Expr::If(i), _) if !last => {
                let Some((a, b)) = &bound else { return Err("import: leftover test before the path is resolved".into()) };
                let ok_cond = match &*i.cond {
                    syn::Expr::Let(l) => {
                        flat(&l.expr) == "idents.next()" && matches!(&*l.pat, syn::Pat::TupleStruct(ts) if flat(&ts.path) == "Some" && ts.elems.len() == 1
                            && matches!(&ts.elems[0], syn::Pat::Wild(_) | syn::Pat::Ident(_)))
                    }
                    c => flat(c) == "idents.next().is_some()",
                };
                if !ok_cond || i.else_branch.is_some() || flat(&i.then_branch) != format!("{{returnErr(self.error_expected_module({a},{b}));}}") {
                    return Err(format!("import: `if {} …` outside the subset", flat(&i.cond)));
                }
                steps.push(".leftoverIsError");
            }
            syn::Stmt::Expr(e, None) if last => {
                let Some((a, b)) = &bound else { return Err("import: insert before the path is resolved".into()) };
                let want = format!("self.type_info.scope_graph.insert_import(scope,{a}.id,{b}.name).map_err(|old|self.error_declared_twice({a},old))");
                if flat(e) != want {
                    return Err(format!("import: tail expression `{}` outside the subset", flat(e)));
                }
                steps.push(".insert");
            }
            other => return Err(format!("import: statement `{}` outside the subset", flat(*other))),
        }
    }
    // `insert_import`: writes `self.scopes[scope.0].imports`, keyed by `name.ident`, stores `(id, name)`,
    // an occupied entry is the error
    let scope_rs = find::parse(repo, "src/typechecker/scope.rs")?;
    let f = find::func(&scope_rs, "insert_import", Some("ScopeGraph"))?;
    let txt = flat(&f.block);
    let params: Vec<String> = f.sig.inputs.iter().filter_map(|a| match a {
        syn::FnArg::Typed(t) => Some(flat(&t.pat)),
        _ => None,
    }).collect();
    let as_modelled = params == ["scope", "id", "name"]
        && txt.contains("&mutself.scopes[scope.0].imports")
        && txt.matches(".entry(name.ident)").count() == 1
        && txt.contains("Entry::Occupied(entry)=>Err(entry.get().0)")
        && txt.contains("entry.insert((id,name));Ok(())");
    let mut out = String::new();
    out.push_str("/- GENERATED by /verif/extract from src/typechecker/{mod,scope}.rs — do not edit. -/\nimport RotoV.Model.ScopeImportOne\n\nnamespace RotoV.Gen.ScopeImportOne\nopen RotoV.Scope.ImportOne\n\n");
    out.push_str(&format!("/-- the statements of `TypeChecker::import` after `let mut idents = path.idents.iter();` -/\ndef importSteps : List IStep := [{}]\n\n", steps.join(", ")));
    out.push_str(&format!("/-- `insert_import` writes the table of `scope`, keyed by the identifier of the target name; an occupied entry is the error -/\ndef insertImportAsModelled : Bool := {as_modelled}\n\n"));
    out.push_str("end RotoV.Gen.ScopeImportOne\n");
    Ok(out)
}
