//! `tclistops` → `Generated/TcListOps.lean`: every operation in the type
//! checker (`src/typechecker/*.rs`, product code only) that is PARTIAL IN THE
//! LENGTH OF A LIST — `x[0]`, `x[1..]`, `x.pop().unwrap()`,
//! `x.first()/last()/next()/split_first()….unwrap()`, `x.remove(0)`,
//! `….reduce(..).unwrap()` — with the evidence the translator can see in the
//! source that the list is long enough:
//!
//!  * `guard k`  — a condition that dominates the operation says `len > k`
//!    (`if x.len() > k`, `!x.is_empty()`, an early `return` on the opposite),
//!    and nothing shortens the list in between;
//!  * `param f i` — the list is parameter `i` of the enclosing function `f`
//!    (through length-preserving steps: `iter`, `map`, `collect`, `&`, …): `f`
//!    (and nothing has been taken out of it since the function began) is a
//!    PARTIAL HELPER with a precondition on that parameter, and the
//!    obligation moves to every call of `f` (`calls`, same evidence kinds,
//!    closed transitively: a caller that forwards its own parameter becomes a
//!    helper itself);
//!  * `astPath` — the `idents` of an `ast::Path` (only the parser builds
//!    those, and the parser model proves they are never empty);
//!  * `typeArity` — `arguments[0]` of a `Type::Name` in the arm
//!    `TypeDefinition::List(..)` of `TypeInfo::convert`: a type name carries as
//!    many arguments as its definition has parameters (`resolve_type_path`
//!    rejects any other count, `instantiate` makes one variable per parameter);
//!    a data invariant, not a local guard — pinned to that one site;
//!  * `complement used all` — the list is what the loop
//!    `for v in all { if !used.contains(&v) { list.push(v) } }` collected,
//!    under a dominating `used.len() < all.len()` (theorem
//!    `complement_nonempty`);
//!  * `none` — nothing of the kind: the site is unaudited.
//!
//! Items under `#[cfg(feature = "verif-hooks")]` / `#[cfg(test)]` / `#[test]`
//! are skipped. The theorems over this list are in `Props/C06TcLists.lean`.
use quote::ToTokens;
use std::collections::BTreeMap;
use std::path::Path;
use syn::visit::Visit;

fn txt(t: &impl ToTokens) -> String {
    t.to_token_stream().to_string().replace(' ', "")
}

fn lean_str(s: &str) -> String {
    let mut o = String::from("\"");
    for c in s.chars() {
        match c {
            '"' => o.push_str("\\\""),
            '\\' => o.push_str("\\\\"),
            c if c.is_ascii() && !c.is_ascii_control() => o.push(c),
            c => o.push_str(&format!("\\u{{{:x}}}", c as u32)),
        }
    }
    o.push('"');
    o
}

fn skipped(attrs: &[syn::Attribute]) -> bool {
    attrs.iter().any(|a| {
        let t = txt(a);
        t == "#[cfg(feature=\"verif-hooks\")]" || t == "#[cfg(test)]" || t == "#[test]"
    })
}

#[derive(Clone)]
struct Func {
    file: String,
    name: String,
    params: Vec<String>,
    block: syn::Block,
}

struct Collect {
    file: String,
    out: Vec<Func>,
}

fn params_of(sig: &syn::Signature) -> Vec<String> {
    sig.inputs
        .iter()
        .filter_map(|a| match a {
            syn::FnArg::Receiver(_) => None,
            syn::FnArg::Typed(t) => Some(match &*t.pat {
                syn::Pat::Ident(i) => i.ident.to_string(),
                other => txt(other),
            }),
        })
        .collect()
}

impl<'ast> Visit<'ast> for Collect {
    fn visit_item_fn(&mut self, i: &'ast syn::ItemFn) {
        if skipped(&i.attrs) {
            return;
        }
        self.out.push(Func { file: self.file.clone(), name: i.sig.ident.to_string(), params: params_of(&i.sig), block: (*i.block).clone() });
        syn::visit::visit_item_fn(self, i);
    }
    fn visit_impl_item_fn(&mut self, i: &'ast syn::ImplItemFn) {
        if skipped(&i.attrs) {
            return;
        }
        self.out.push(Func { file: self.file.clone(), name: i.sig.ident.to_string(), params: params_of(&i.sig), block: i.block.clone() });
        syn::visit::visit_impl_item_fn(self, i);
    }
    fn visit_item_impl(&mut self, i: &'ast syn::ItemImpl) {
        if skipped(&i.attrs) {
            return;
        }
        syn::visit::visit_item_impl(self, i);
    }
    fn visit_item_mod(&mut self, i: &'ast syn::ItemMod) {
        if skipped(&i.attrs) {
            return;
        }
        syn::visit::visit_item_mod(self, i);
    }
}

/// where a list comes from
#[derive(Clone, Debug, PartialEq)]
struct Root {
    text: String,
    /// the list IS parameter `i` of the enclosing function (same length)
    param: Option<usize>,
}

/// steps that keep the number of elements
const PRESERVE: &[&str] = &[
    "iter", "into_iter", "iter_mut", "map", "collect", "cloned", "copied", "clone", "to_vec", "as_slice", "as_ref", "rev",
    "enumerate", "to_owned", "as_mut", "peekable", "by_ref", "borrow", "deref",
];
/// methods that may shorten the list they are called on
const SHORTEN: &[&str] = &[
    "pop", "remove", "clear", "truncate", "drain", "retain", "swap_remove", "split_off", "take", "dedup", "next", "next_back",
    "retain_mut", "pop_front", "pop_back",
];
/// `x.M().unwrap()` needs one element
const TAKE_ONE: &[&str] = &["first", "last", "pop", "split_first", "split_last", "next", "next_back", "max", "min", "first_mut", "last_mut", "pop_front", "pop_back"];
const TAKE_ONE_ARGS: &[&str] = &["reduce", "max_by", "max_by_key", "min_by", "min_by_key"];

#[derive(Clone, Debug)]
enum Ev {
    Guard(usize),
    Param(String, usize),
    AstPath,
    TypeArity,
    Complement(String, String),
    None,
}

impl Ev {
    fn lean(&self, id: &dyn Fn(&str) -> usize) -> String {
        match self {
            Ev::Guard(k) => format!(".guard {k}"),
            Ev::Param(f, i) => format!(".param {} {i}", id(f)),
            Ev::AstPath => ".astPath".into(),
            Ev::TypeArity => ".typeArity".into(),
            Ev::Complement(u, a) => format!(".complement {} {}", lean_str(u), lean_str(a)),
            Ev::None => ".none".into(),
        }
    }
}

struct SiteOut {
    file: String,
    func: String,
    text: String,
    op: String,
    need: usize,
    ev: Ev,
}

struct CallOut {
    file: String,
    caller: String,
    callee: String,
    param: usize,
    text: String,
    ev: Ev,
}

/// one pass over one function body
struct Walk<'a> {
    f: &'a Func,
    /// helpers known so far: (function, parameter) → elements needed
    helpers: &'a BTreeMap<(String, usize), usize>,
    lets: Vec<(String, Root)>,
    /// (root text, k): the list has MORE than k elements
    facts: Vec<(String, usize)>,
    /// (a, b): a.len() < b.len()
    shorter: Vec<(String, String)>,
    sites: Vec<SiteOut>,
    calls: Vec<CallOut>,
    /// helper obligations this function passes on: (own parameter, need)
    forwards: Vec<(usize, usize)>,
    /// inside a match arm `TypeDefinition::List(..) => …`
    in_list_arm: bool,
    /// lists something has been taken out of since the function began: no longer as long as the parameter they came from
    tainted: Vec<String>,
    /// `let n = x.len();`: (n, root of x)
    len_alias: Vec<(String, String)>,
}

fn int_lit(e: &syn::Expr) -> Option<usize> {
    match e {
        syn::Expr::Lit(l) => match &l.lit {
            syn::Lit::Int(i) => i.base10_parse().ok(),
            _ => None,
        },
        syn::Expr::Paren(p) => int_lit(&p.expr),
        _ => None,
    }
}

fn diverges(b: &syn::Block) -> bool {
    match b.stmts.last() {
        Some(syn::Stmt::Expr(e, _)) => matches!(e, syn::Expr::Return(_) | syn::Expr::Continue(_) | syn::Expr::Break(_)),
        Some(syn::Stmt::Macro(m)) => {
            let n = txt(&m.mac.path);
            n == "ice" || n == "panic" || n == "unreachable" || n == "todo"
        }
        _ => false,
    }
}

impl Walk<'_> {
    fn root_of(&self, e: &syn::Expr) -> Option<Root> {
        match e {
            syn::Expr::Paren(p) => self.root_of(&p.expr),
            syn::Expr::Group(p) => self.root_of(&p.expr),
            syn::Expr::Reference(r) => self.root_of(&r.expr),
            syn::Expr::Unary(u) if matches!(u.op, syn::UnOp::Deref(_)) => self.root_of(&u.expr),
            syn::Expr::MethodCall(m) if PRESERVE.contains(&m.method.to_string().as_str()) => self.root_of(&m.receiver),
            syn::Expr::Field(f) => {
                let base = self.root_of(&f.base)?;
                Some(Root { text: format!("{}.{}", base.text, txt(&f.member)), param: None })
            }
            syn::Expr::Index(i) if txt(&i.index) == ".." => self.root_of(&i.expr),
            syn::Expr::Path(p) if p.path.segments.len() == 1 => {
                let x = p.path.segments[0].ident.to_string();
                if let Some((_, r)) = self.lets.iter().rev().find(|(n, _)| *n == x) {
                    return Some(r.clone());
                }
                if let Some(i) = self.f.params.iter().position(|p| *p == x) {
                    return Some(Root { text: x, param: Some(i) });
                }
                // a parameter taken apart in the signature: `ast::Path { idents }: &ast::Path`
                if x == "idents" && self.f.params.iter().any(|p| p == "ast::Path{idents}" || p == "Path{idents}") {
                    return Some(Root { text: "ast::Path.idents".into(), param: None });
                }
                Some(Root { text: x, param: None })
            }
            _ => None,
        }
    }

    fn evidence(&mut self, root: &Option<Root>, need: usize, call: Option<&syn::Expr>) -> Ev {
        if need == 0 {
            return Ev::Guard(0);
        }
        let Some(r) = root else { return Ev::None };
        if let Some(k) = self.facts.iter().filter(|(t, _)| *t == r.text).map(|(_, k)| *k).max() {
            if k + 1 >= need {
                return Ev::Guard(k);
            }
        }
        if let (Some(i), false) = (r.param, self.tainted.contains(&r.text)) {
            self.forwards.push((i, need));
            return Ev::Param(self.f.name.clone(), i);
        }
        if r.text.ends_with(".idents") && need == 1 {
            return Ev::AstPath;
        }
        // the arguments of a `Type::Name` whose definition is the list type (one parameter)
        if self.f.file == "src/typechecker/info.rs" && self.f.name == "convert" && r.text.starts_with("arguments") && need == 1 && self.in_list_arm {
            return Ev::TypeArity;
        }
        if call.is_some() && need == 1 {
            let bare = |s: &str| s.split('\'').next().unwrap_or("").to_string();
            if let Some((u, a)) = self.complement_of(&bare(&r.text)) {
                if self.shorter.iter().any(|(x, y)| bare(x) == u && bare(y) == a) {
                    return Ev::Complement(u, a);
                }
            }
        }
        Ev::None
    }

    /// `list` is a local `Vec::new()` whose only `push` is the one in
    /// `for v in ALL { [let v = v.name;] if !USED.contains(&v) { list.push(v); } }`
    fn complement_of(&self, list: &str) -> Option<(String, String)> {
        struct F<'b> {
            list: &'b str,
            pushes: usize,
            found: Option<(String, String)>,
        }
        impl<'ast> Visit<'ast> for F<'_> {
            fn visit_expr_method_call(&mut self, m: &'ast syn::ExprMethodCall) {
                if m.method == "push" && txt(&m.receiver) == self.list {
                    self.pushes += 1;
                }
                if ["extend", "insert", "append", "pop", "remove", "clear", "truncate", "retain", "drain"].contains(&m.method.to_string().as_str())
                    && txt(&m.receiver) == self.list
                {
                    self.pushes += 100;
                }
                syn::visit::visit_expr_method_call(self, m);
            }
            fn visit_expr_for_loop(&mut self, l: &'ast syn::ExprForLoop) {
                let v = txt(&l.pat);
                let mut stmts: Vec<&syn::Stmt> = l.body.stmts.iter().collect();
                // optional projection `let v = v.name;`
                if let Some(syn::Stmt::Local(loc)) = stmts.first() {
                    let ok = txt(&loc.pat) == v
                        && loc.init.as_ref().is_some_and(|i| matches!(&*i.expr, syn::Expr::Field(f) if txt(&f.base) == v));
                    if ok {
                        stmts.remove(0);
                    }
                }
                if let [syn::Stmt::Expr(syn::Expr::If(i), _)] = &stmts[..] {
                    if i.else_branch.is_none() {
                        if let syn::Expr::Unary(u) = &*i.cond {
                            if let (syn::UnOp::Not(_), syn::Expr::MethodCall(c)) = (&u.op, &*u.expr) {
                                let arg_ok = c.args.len() == 1 && txt(&c.args[0]) == format!("&{v}");
                                let body_ok = i.then_branch.stmts.len() == 1
                                    && txt(&i.then_branch.stmts[0]).trim_end_matches(';') == format!("{}.push({v})", self.list);
                                if c.method == "contains" && arg_ok && body_ok {
                                    self.found = Some((txt(&c.receiver), txt(&l.expr).trim_start_matches('&').to_string()));
                                }
                            }
                        }
                    }
                }
                syn::visit::visit_expr_for_loop(self, l);
            }
        }
        // the local must start empty
        let starts_empty = {
            struct L<'b> {
                list: &'b str,
                ok: bool,
            }
            impl<'ast> Visit<'ast> for L<'_> {
                fn visit_local(&mut self, l: &'ast syn::Local) {
                    if let syn::Pat::Ident(i) = &l.pat {
                        if i.ident == self.list {
                            let init = l.init.as_ref().map(|i| txt(&i.expr)).unwrap_or_default();
                            self.ok = init == "Vec::new()" || init == "vec![]";
                        }
                    }
                    syn::visit::visit_local(self, l);
                }
            }
            let mut l = L { list, ok: false };
            l.visit_block(&self.f.block);
            l.ok
        };
        let mut f = F { list, pushes: 0, found: None };
        f.visit_block(&self.f.block);
        if starts_empty && f.pushes == 1 { f.found } else { None }
    }

    /// facts a condition gives when it is TRUE (`pos`) or FALSE (`!pos`)
    fn cond_facts(&self, c: &syn::Expr, pos: bool, out: &mut Vec<(String, usize)>, shorter: &mut Vec<(String, String)>) {
        match c {
            syn::Expr::Paren(p) => self.cond_facts(&p.expr, pos, out, shorter),
            syn::Expr::Binary(b) if matches!(b.op, syn::BinOp::And(_)) && pos => {
                self.cond_facts(&b.left, pos, out, shorter);
                self.cond_facts(&b.right, pos, out, shorter);
            }
            syn::Expr::Binary(b) if matches!(b.op, syn::BinOp::Or(_)) && !pos => {
                self.cond_facts(&b.left, pos, out, shorter);
                self.cond_facts(&b.right, pos, out, shorter);
            }
            syn::Expr::Unary(u) if matches!(u.op, syn::UnOp::Not(_)) => self.cond_facts(&u.expr, !pos, out, shorter),
            syn::Expr::MethodCall(m) if m.method == "is_empty" && m.args.is_empty() => {
                if !pos {
                    if let Some(r) = self.root_of(&m.receiver) {
                        out.push((r.text, 0));
                    }
                }
            }
            syn::Expr::Binary(b) => {
                let len_of = |e: &syn::Expr| -> Option<String> {
                    match e {
                        syn::Expr::MethodCall(m) if m.method == "len" && m.args.is_empty() => self.root_of(&m.receiver).map(|r| r.text),
                        syn::Expr::Path(p) if p.path.segments.len() == 1 => {
                            let x = p.path.segments[0].ident.to_string();
                            self.len_alias.iter().rev().find(|(n, _)| *n == x).map(|(_, r)| r.clone())
                        }
                        _ => None,
                    }
                };
                // normalise to  len(X) REL k  with REL ∈ {>, >=, <, <=, ==, !=}
                let (x, k, rel) = match (len_of(&b.left), int_lit(&b.right), len_of(&b.right), int_lit(&b.left)) {
                    (Some(x), Some(k), _, _) => (x, k, txt(&b.op)),
                    (_, _, Some(x), Some(k)) => {
                        let r = match txt(&b.op).as_str() {
                            "<" => ">",
                            "<=" => ">=",
                            ">" => "<",
                            ">=" => "<=",
                            _ => return,
                        };
                        (x, k, r.to_string())
                    }
                    _ => {
                        if pos && txt(&b.op) == "<" {
                            if let (Some(a), Some(bb)) = (len_of(&b.left), len_of(&b.right)) {
                                shorter.push((a, bb));
                            }
                        }
                        if pos && txt(&b.op) == ">" {
                            if let (Some(a), Some(bb)) = (len_of(&b.left), len_of(&b.right)) {
                                shorter.push((bb, a));
                            }
                        }
                        return;
                    }
                };
                // more-than-k facts
                let more = match (rel.as_str(), pos) {
                    (">", true) => Some(k),
                    (">=", true) if k >= 1 => Some(k - 1),
                    ("<", false) if k >= 1 => Some(k - 1),
                    ("<=", false) => Some(k),
                    ("!=", true) if k == 0 => Some(0),
                    ("==", false) if k == 0 => Some(0),
                    _ => None,
                };
                if let Some(m) = more {
                    out.push((x, m));
                }
            }
            _ => {}
        }
    }
    fn shorten(&mut self, root: &str) {
        self.tainted.push(root.to_string());
        self.len_alias.retain(|(_, r)| r != root);
        self.facts.retain(|(t, _)| t != root);
        self.shorter.retain(|(a, b)| a != root && b != root);
    }

    fn site(&mut self, text: String, op: String, need: usize, root: Option<Root>) {
        let ev = self.evidence(&root, need, None);
        self.sites.push(SiteOut { file: self.f.file.clone(), func: self.f.name.clone(), text, op, need, ev });
    }

    fn helper_call(&mut self, callee: &str, args: Vec<&syn::Expr>, text: String) {
        let wanted: Vec<(usize, usize)> =
            self.helpers.iter().filter(|((f, _), _)| f == callee).map(|((_, i), n)| (*i, *n)).collect();
        for (i, need) in wanted {
            let root = args.get(i).and_then(|a| self.root_of(a));
            let ev = match args.get(i) {
                Some(a) => self.evidence(&root, need, Some(a)),
                None => Ev::None,
            };
            self.calls.push(CallOut {
                file: self.f.file.clone(),
                caller: self.f.name.clone(),
                callee: callee.to_string(),
                param: i,
                text: text.clone(),
                ev,
            });
        }
    }
}

impl<'ast> Visit<'ast> for Walk<'_> {
    fn visit_item(&mut self, _i: &'ast syn::Item) {
        // nested items are functions of their own (collected separately)
    }
    fn visit_block(&mut self, b: &'ast syn::Block) {
        let (nf, ns, nl) = (self.facts.len(), self.shorter.len(), self.lets.len());
        for s in &b.stmts {
            self.visit_stmt(s);
            // an early exit on the opposite condition
            if let syn::Stmt::Expr(syn::Expr::If(i), _) = s {
                if i.else_branch.is_none() && diverges(&i.then_branch) {
                    let (mut f, mut sh) = (vec![], vec![]);
                    self.cond_facts(&i.cond, false, &mut f, &mut sh);
                    self.facts.extend(f);
                }
            }
        }
        self.facts.truncate(nf);
        self.shorter.truncate(ns);
        self.lets.truncate(nl);
    }
    fn visit_local(&mut self, l: &'ast syn::Local) {
        if let Some(init) = &l.init {
            self.visit_expr(&init.expr);
            if let Some((_, e)) = &init.diverge {
                self.visit_expr(e);
            }
        }
        let name = match &l.pat {
            syn::Pat::Ident(i) => Some(i.ident.to_string()),
            syn::Pat::Type(t) => match &*t.pat {
                syn::Pat::Ident(i) => Some(i.ident.to_string()),
                _ => None,
            },
            _ => None,
        };
        if let (Some(name), Some(init)) = (&name, &l.init) {
            self.len_alias.retain(|(n, _)| n != name);
            if let syn::Expr::MethodCall(m) = &*init.expr {
                if m.method == "len" && m.args.is_empty() {
                    if let Some(r) = self.root_of(&m.receiver) {
                        self.len_alias.push((name.clone(), r.text));
                    }
                }
            }
        }
        if let Some(name) = name {
            // a shadowed name: facts about the old one are about another list
            let fresh = Root { text: format!("{name}'{}", self.lets.len()), param: None };
            let root = l.init.as_ref().and_then(|i| self.root_of(&i.expr)).unwrap_or(fresh);
            self.lets.push((name, root));
        } else {
            // names bound by a pattern: locals of unknown origin
            struct P(Vec<String>);
            impl<'a> Visit<'a> for P {
                fn visit_pat_ident(&mut self, i: &'a syn::PatIdent) {
                    self.0.push(i.ident.to_string());
                }
            }
            let mut p = P(vec![]);
            p.visit_pat(&l.pat);
            for n in p.0 {
                let fresh = Root { text: format!("{n}'{}", self.lets.len()), param: None };
                self.lets.push((n, fresh));
            }
        }
    }
    fn visit_expr_if(&mut self, i: &'ast syn::ExprIf) {
        self.visit_expr(&i.cond);
        let (nf, ns) = (self.facts.len(), self.shorter.len());
        let (mut f, mut sh) = (vec![], vec![]);
        self.cond_facts(&i.cond, true, &mut f, &mut sh);
        self.facts.extend(f);
        self.shorter.extend(sh);
        self.visit_block(&i.then_branch);
        self.facts.truncate(nf);
        self.shorter.truncate(ns);
        if let Some((_, e)) = &i.else_branch {
            let (mut f, mut sh) = (vec![], vec![]);
            self.cond_facts(&i.cond, false, &mut f, &mut sh);
            self.facts.extend(f);
            self.visit_expr(e);
            self.facts.truncate(nf);
        }
    }
    fn visit_expr_closure(&mut self, c: &'ast syn::ExprClosure) {
        // parameters of a closure shadow
        let nl = self.lets.len();
        struct P(Vec<String>);
        impl<'a> Visit<'a> for P {
            fn visit_pat_ident(&mut self, i: &'a syn::PatIdent) {
                self.0.push(i.ident.to_string());
            }
        }
        let mut p = P(vec![]);
        for i in &c.inputs {
            p.visit_pat(i);
        }
        for n in p.0 {
            let fresh = Root { text: format!("{n}'{}", self.lets.len()), param: None };
            self.lets.push((n, fresh));
        }
        self.visit_expr(&c.body);
        self.lets.truncate(nl);
    }
    fn visit_arm(&mut self, a: &'ast syn::Arm) {
        let nl = self.lets.len();
        struct P(Vec<String>);
        impl<'x> Visit<'x> for P {
            fn visit_pat_ident(&mut self, i: &'x syn::PatIdent) {
                self.0.push(i.ident.to_string());
            }
        }
        let mut p = P(vec![]);
        p.visit_pat(&a.pat);
        for n in p.0 {
            let fresh = Root { text: format!("{n}'{}", self.lets.len()), param: None };
            self.lets.push((n, fresh));
        }
        if let Some((_, g)) = &a.guard {
            self.visit_expr(g);
        }
        let was = self.in_list_arm;
        self.in_list_arm = txt(&a.pat).starts_with("TypeDefinition::List(");
        self.visit_expr(&a.body);
        self.in_list_arm = was;
        self.lets.truncate(nl);
    }
    fn visit_expr_index(&mut self, e: &'ast syn::ExprIndex) {
        let root = self.root_of(&e.expr);
        if let Some(k) = int_lit(&e.index) {
            self.site(txt(e), format!(".index {k}"), k + 1, root);
        } else if let syn::Expr::Range(r) = &*e.index {
            let a = r.start.as_deref().map(int_lit);
            let b = r.end.as_deref().map(int_lit);
            let inclusive = matches!(r.limits, syn::RangeLimits::Closed(_));
            match (a, b) {
                (None, None) => {}
                (Some(Some(a)), None) => self.site(txt(e), format!(".sliceFrom {a}"), a, root),
                (_, Some(Some(b))) => {
                    let b = if inclusive { b + 1 } else { b };
                    self.site(txt(e), format!(".sliceTo {b}"), b, root)
                }
                _ => {} // computed offsets: the class of `reportslices`
            }
        }
        syn::visit::visit_expr_index(self, e);
    }
    fn visit_expr_method_call(&mut self, e: &'ast syn::ExprMethodCall) {
        let m = e.method.to_string();
        if m == "unwrap" || m == "expect" {
            if let syn::Expr::MethodCall(inner) = &*e.receiver {
                let im = inner.method.to_string();
                let hit = (TAKE_ONE.contains(&im.as_str()) && inner.args.is_empty()) || TAKE_ONE_ARGS.contains(&im.as_str());
                if hit {
                    let root = self.root_of(&inner.receiver);
                    self.site(txt(e), format!(".takeOne {}", lean_str(&im)), 1, root);
                }
            }
        }
        if (m == "remove" || m == "swap_remove") && e.args.len() == 1 {
            if let Some(k) = int_lit(&e.args[0]) {
                let root = self.root_of(&e.receiver);
                self.site(txt(e), format!(".removeAt {k}"), k + 1, root);
            }
        }
        // a call of a partial helper as a method (`self.error_…(…)`)
        if self.helpers.keys().any(|(f, _)| *f == m) && (txt(&e.receiver) == "self" || txt(&e.receiver) == "Self") {
            self.helper_call(&m, e.args.iter().collect(), txt(e));
        }
        syn::visit::visit_expr_method_call(self, e);
        if SHORTEN.contains(&m.as_str()) {
            if let Some(r) = self.root_of(&e.receiver) {
                self.shorten(&r.text);
            }
        }
    }
    fn visit_expr_call(&mut self, e: &'ast syn::ExprCall) {
        if let syn::Expr::Path(p) = &*e.func {
            if let Some(last) = p.path.segments.last() {
                let name = last.ident.to_string();
                if self.helpers.keys().any(|(f, _)| *f == name) {
                    self.helper_call(&name, e.args.iter().collect(), txt(e));
                }
            }
        }
        syn::visit::visit_expr_call(self, e);
    }
    fn visit_macro(&mut self, m: &'ast syn::Macro) {
        if let Ok(args) = m.parse_body_with(syn::punctuated::Punctuated::<syn::Expr, syn::Token![,]>::parse_terminated) {
            for a in &args {
                self.visit_expr(a);
            }
        }
    }
}

pub fn tclistops(repo: &Path) -> Result<String, String> {
    let dir = repo.join("src/typechecker");
    let mut files: Vec<String> = std::fs::read_dir(&dir)
        .map_err(|e| format!("cannot list {}: {e}", dir.display()))?
        .flatten()
        .map(|e| e.file_name().to_string_lossy().to_string())
        .filter(|n| n.ends_with(".rs") && n != "tests.rs")
        .collect();
    files.sort();
    let mut funcs = vec![];
    for f in &files {
        let rel = format!("src/typechecker/{f}");
        let file = crate::find::parse(repo, &rel)?;
        let mut c = Collect { file: rel, out: vec![] };
        c.visit_file(&file);
        funcs.extend(c.out);
    }
    // fixpoint: helpers grow as callers forward their own parameters
    let mut helpers: BTreeMap<(String, usize), usize> = BTreeMap::new();
    let (mut sites, mut calls);
    let mut rounds = 0;
    loop {
        rounds += 1;
        if rounds > 16 {
            return Err("tclistops: the helper closure did not settle in 16 rounds".into());
        }
        sites = vec![];
        calls = vec![];
        let mut next = helpers.clone();
        for f in &funcs {
            let mut w = Walk { f, helpers: &helpers, lets: vec![], facts: vec![], shorter: vec![], sites: vec![], calls: vec![], forwards: vec![], in_list_arm: false, tainted: vec![], len_alias: vec![] };
            w.visit_block(&f.block);
            for (i, need) in &w.forwards {
                let e = next.entry((f.name.clone(), *i)).or_insert(0);
                *e = (*e).max(*need);
            }
            sites.extend(w.sites);
            calls.extend(w.calls);
        }
        if next == helpers {
            break;
        }
        helpers = next;
    }
    // a helper's name must identify one function
    for (h, _) in helpers.keys() {
        let n = funcs.iter().filter(|f| f.name == *h).count();
        if n != 1 {
            return Err(format!("tclistops: {n} functions named `{h}` in src/typechecker — cannot attribute its calls"));
        }
    }
    let mut out = String::from(
        "/- GENERATED by /verif/extract from src/typechecker/*.rs — do not edit. -/\nimport RotoV.Model.TcListOps\nnamespace RotoV.Gen.TcListOps\nopen RotoV.TcList\n\n",
    );
    let mut names: Vec<String> = helpers.keys().map(|(f, _)| f.clone()).collect();
    names.dedup();
    let id = |f: &str| names.iter().position(|n| n == f).unwrap_or(usize::MAX);
    out.push_str(&format!(
        "/-- the partial helpers, by number -/\ndef helperNames : List String := [{}]\n\n",
        names.iter().map(|f| lean_str(f)).collect::<Vec<_>>().join(", ")
    ));
    out.push_str(&format!("/-- the files read -/\ndef files : List String := [{}]\n\n", files.iter().map(|f| lean_str(f)).collect::<Vec<_>>().join(", ")));
    out.push_str("/-- every operation that is partial in the length of a list -/\ndef sites : List Site :=\n  [");
    out.push_str(
        &sites
            .iter()
            .map(|s| {
                format!(
                    "{{ file := {}, fn := {}, text := {}, op := {}, ev := {} }}",
                    lean_str(&s.file),
                    lean_str(&s.func),
                    lean_str(&s.text),
                    s.op,
                    s.ev.lean(&id)
                )
            })
            .collect::<Vec<_>>()
            .join(",\n   "),
    );
    let _ = sites.iter().map(|s| s.need).count();
    out.push_str("]\n\n/-- partial helpers: (function, parameter, elements it needs) -/\ndef helpers : List Helper :=\n  [");
    out.push_str(
        &helpers
            .iter()
            .map(|((f, i), n)| format!("{{ fn := {}, param := {i}, need := {n} }}", id(f)))
            .collect::<Vec<_>>()
            .join(",\n   "),
    );
    out.push_str("]\n\n/-- every call of a partial helper -/\ndef calls : List Call :=\n  [");
    out.push_str(
        &calls
            .iter()
            .map(|c| {
                format!(
                    "{{ file := {}, caller := {}, callee := {}, param := {}, text := {}, ev := {} }}",
                    lean_str(&c.file),
                    lean_str(&c.caller),
                    id(&c.callee),
                    c.param,
                    lean_str(&c.text.chars().take(120).collect::<String>()),
                    c.ev.lean(&id)
                )
            })
            .collect::<Vec<_>>()
            .join(",\n   "),
    );
    // the constructors of type errors (what the oracle's representatives must reach)
    let mut ctors: Vec<String> = funcs
        .iter()
        .filter(|f| f.file == "src/typechecker/error.rs" && f.name.starts_with("error_"))
        .map(|f| f.name.clone())
        .collect();
    ctors.sort();
    ctors.dedup();
    out.push_str(&format!(
        "]\n\n/-- the `error_…` constructors of src/typechecker/error.rs -/\ndef errorFns : List String :=\n  [{}]\n\nend RotoV.Gen.TcListOps\n",
        ctors.iter().map(|f| lean_str(f)).collect::<Vec<_>>().join(", ")
    ));
    Ok(out)
}
