//! Translator targets owned by property C09.
//!
//! `Precedence.lean` (from src/parser/precedence.rs, src/parser/lexer.rs,
//! src/parser/expr.rs):
//!  * `Precedence` — the enum, in declaration order (its derived `Ord` is the
//!    variant order; the derive is checked to be present);
//!  * `precedence`, `associativity`, `relative_associativity` — whole
//!    functions through `r2l`;
//!  * `peek_binop` — the token ↦ operator table of the Pratt loop;
//!  * `keywords`, `boolWords` — the string arms of `keyword_or_ident`;
//!  * `intSuffixes`, `intTokenFloatSuffixes`, `floatSuffixes` — the string arms
//!    of `simple_literal`'s suffix matches.
//!
//! `LookAhead.lean` (from src/parser/lexer.rs, src/parser/expr.rs and a census
//! of all of src/parser/*.rs) — the facts the look-ahead / lexer-mode model
//! (`Model/LookAhead.lean`) is parameterised by:
//!  * `peekStops` — the tokens after which the fill loop of `Lexer::peek_many`
//!    refuses to lex on (the shape of the whole loop is checked);
//!  * `recordWindows` — the `peek_many::<N>()` windows `Parser::atom` tries on
//!    a `{`, in order;
//!  * `returnValueStarts` — the token kinds of `can_start_expression`;
//!  * checked, not emitted: `peek`/`next` use the queue as modelled,
//!    `f_string_part` does not consult it, `f_string` calls it right after
//!    taking `f"`, and there is no other `peek_many` / raw-mode call site in
//!    the parser.
//!
//! `C09FStrText.lean` (from src/parser/expr.rs `unescape_f_string_part`) — the
//! decisions of the brace pass over an f-string text part, as data for
//! `Model/FString.partTextWith`:
//!  * `backslashConds` — the `&&` chain of iterator tests of the backslash arm
//!    (`chars.next()` pattern = consumes whatever comes, `chars.peek()` =
//!    consumes nothing, `chars.next_if(..)` = consumes on a match only);
//!  * `backslashSkipStop` — the character that ends the skip loop;
//!  * `braceChars` — the characters whose doubling is a brace escape;
//!  * checked, not emitted: the loop over `s.char_indices().peekable()`, the
//!    piece bookkeeping (`piece_start = i + 2`, pieces handed to `unescape_str`).
//!
//! `C09IdentScan.lean` (from src/parser/lexer.rs `keyword_or_ident`) — the two
//! character tests of the identifier scan, as data for `Model/IdentScan.scanWith`:
//!  * `identFirst` — the `||` chain tested on the first character
//!    (`is_xid_start(c)`, `c == '_'`);
//!  * `identRest` — the `||` chain handed to `eat_while` for every later one;
//!  * checked, not emitted: the scan is straight-line (first character, one
//!    test with an early `Continue`, the slice by `len_utf8()`, ONE `eat_while`,
//!    `bump_to`, the match on the word); pure `let` names are inlined; anything
//!    else (a second scan, a conditional, a loop) is an extraction failure.
#[allow(unused_imports)]
use super::{Gen, Target};
use crate::find;
use crate::r2l::{Cx, Meth};
use quote::ToTokens;
use std::path::Path;
use syn::visit::Visit;

pub const TARGETS: &[Target] = &[
    ("precedence", "Precedence", precedence as Gen),
    ("lookahead", "LookAhead", lookahead as Gen),
    ("fstrtext", "C09FStrText", fstrtext as Gen),
    ("identscan", "C09IdentScan", identscan as Gen),
];

const BINOPS: [&str; 13] = [
    "And", "Or", "Eq", "Ne", "Lt", "Le", "Gt", "Ge", "Add", "Sub", "Mul", "Div", "Mod",
];

fn derives(file: &syn::File, name: &str) -> Result<String, String> {
    struct F<'a>(&'a str, Vec<String>);
    impl<'ast> Visit<'ast> for F<'_> {
        fn visit_item_enum(&mut self, e: &'ast syn::ItemEnum) {
            if e.ident == self.0 {
                let mut s = String::new();
                for a in &e.attrs {
                    s.push_str(&a.to_token_stream().to_string());
                }
                self.1.push(s);
            }
        }
    }
    let mut f = F(name, vec![]);
    f.visit_file(file);
    match f.1.len() {
        1 => Ok(f.1.pop().unwrap()),
        n => Err(format!("enum {name}: {n} definitions found")),
    }
}

/// String-literal patterns of the arms of `match <scrut>` (in source order)
/// with the printed arm body.
fn str_arms(block: &syn::Block, scrut: &str) -> Result<Vec<(Vec<String>, String)>, String> {
    let ms = find::matches_on(block, scrut);
    if ms.len() != 1 {
        return Err(format!("expected one `match {scrut}`, found {}", ms.len()));
    }
    let mut out = vec![];
    for a in &ms[0].arms {
        let mut lits = vec![];
        fn collect(p: &syn::Pat, lits: &mut Vec<String>) -> bool {
            match p {
                syn::Pat::Lit(l) => {
                    if let syn::Lit::Str(s) = &l.lit {
                        lits.push(s.value());
                        true
                    } else {
                        false
                    }
                }
                syn::Pat::Or(o) => o.cases.iter().all(|c| collect(c, lits)),
                _ => false,
            }
        }
        if collect(&a.pat, &mut lits) {
            if a.guard.is_some() {
                return Err(format!("guarded string arm in `match {scrut}`"));
            }
            out.push((lits, a.body.to_token_stream().to_string().replace(' ', "")));
        }
    }
    Ok(out)
}

fn lean_str_list(xs: &[String]) -> String {
    let v: Vec<String> = xs.iter().map(|s| format!("{s:?}")).collect();
    format!("[{}]", v.join(", "))
}

pub fn precedence(repo: &Path) -> Result<String, String> {
    let prec = find::parse(repo, "src/parser/precedence.rs")?;
    let lexer = find::parse(repo, "src/parser/lexer.rs")?;
    let expr = find::parse(repo, "src/parser/expr.rs")?;
    let ast = find::parse(repo, "src/ast.rs")?;

    let mut out = format!(
        "/- GENERATED by /verif/extract from src/parser/precedence.rs, src/parser/lexer.rs, src/parser/expr.rs — do not edit. -/\nimport RotoV.Model.RustStd\nimport RotoV.Model.Lir\nimport RotoV.Model.Pratt\nset_option linter.unusedVariables false\nnamespace RotoV.Gen.Precedence\nopen RotoV RotoV.Pratt\n\n"
    );

    // ---- the operator enum must be the 13 operators the model knows
    let ops = find::enum_variants(&ast, "BinOp")?;
    if ops != BINOPS {
        return Err(format!("ast::BinOp variants changed: {ops:?}"));
    }
    // ---- Associativity must be exactly Left | Right | Not (the model's `Assoc`)
    let assoc = find::enum_variants(&prec, "Associativity")?;
    if assoc != ["Left", "Right", "Not"] {
        return Err(format!("Associativity variants changed: {assoc:?}"));
    }
    // ---- Precedence: declaration order = derived Ord
    let levels = find::enum_variants(&prec, "Precedence")?;
    let d = derives(&prec, "Precedence")?;
    if !(d.contains("PartialOrd") && d.contains("Ord")) {
        return Err("Precedence no longer derives PartialOrd/Ord".into());
    }
    out.push_str(&format!(
        "inductive Precedence | {}\n  deriving DecidableEq, Repr, Inhabited\n\n",
        levels.join(" | ")
    ));
    out.push_str("/-- position in the declaration = the derived `Ord` -/\ndef Precedence.idx : Precedence → Nat\n");
    for (i, l) in levels.iter().enumerate() {
        out.push_str(&format!("  | .{l} => {i}\n"));
    }
    out.push_str("\ndef Precedence.cmp (a b : Precedence) : Ordering := compare a.idx b.idx\n\n");

    // ---- the three functions
    let mut cx = Cx::default();
    for o in BINOPS {
        cx.paths.insert(format!("Self::{o}"), format!("BinOp.{o}"));
        cx.paths.insert(format!("BinOp::{o}"), format!("BinOp.{o}"));
    }
    for l in &levels {
        cx.paths.insert(format!("Precedence::{l}"), format!("Precedence.{l}"));
    }
    for a in &assoc {
        cx.paths.insert(format!("Associativity::{a}"), format!("Assoc.{a}"));
    }
    cx.paths.insert("Ordering::Less".into(), "Ordering.lt".into());
    cx.paths.insert("Ordering::Greater".into(), "Ordering.gt".into());
    cx.paths.insert("Ordering::Equal".into(), "Ordering.eq".into());
    cx.methods.insert("precedence".into(), Meth::FallibleDbg("precedence".into()));
    cx.methods.insert("associativity".into(), Meth::FallibleDbg("associativity".into()));
    cx.methods.insert("cmp".into(), Meth::Pure("Precedence.cmp".into()));

    for (name, params, ret) in [
        ("precedence", "(self : BinOp)", "Precedence"),
        ("associativity", "(self : BinOp)", "Assoc"),
        ("relative_associativity", "(self : BinOp) (other : BinOp)", "Assoc"),
    ] {
        let f = find::func(&prec, name, Some("BinOp"))?;
        let body = cx.block(&f.block.stmts)?;
        out.push_str(&format!(
            "def {name} (dbg : Bool) {params} : Res ({ret}) :=\n {body}\n\n"
        ));
    }

    // ---- peek_binop: token ↦ operator
    {
        let f = find::func(&expr, "peek_binop", Some("Parser"))?;
        let ms = find::matches_on(&f.block, "self.peek()?");
        if ms.len() != 1 {
            return Err(format!("peek_binop: expected one match, found {}", ms.len()));
        }
        let mut pairs = vec![];
        for a in &ms[0].arms {
            let p = a.pat.to_token_stream().to_string().replace(' ', "");
            let b = a.body.to_token_stream().to_string().replace(' ', "");
            if p == "_" {
                if b != "returnNone" {
                    return Err(format!("peek_binop: wildcard arm is `{b}`"));
                }
                continue;
            }
            let (Some(t), Some(o)) = (p.strip_prefix("Token::"), b.strip_prefix("BinOp::")) else {
                return Err(format!("peek_binop: unsupported arm `{p} => {b}`"));
            };
            if !BINOPS.contains(&o) {
                return Err(format!("peek_binop: unknown operator {o}"));
            }
            pairs.push((t.to_string(), o.to_string()));
        }
        out.push_str("/-- `Parser::peek_binop`: (token name, operator) in source order -/\ndef peekBinopTable : List (String × BinOp) := [");
        let v: Vec<String> = pairs.iter().map(|(t, o)| format!("({t:?}, BinOp.{o})")).collect();
        out.push_str(&v.join(", "));
        out.push_str("]\n\n");
    }
    // ---- negation / access: the skeleton the Pratt model's `negation` / `access` follow
    {
        let f = find::func(&expr, "negation", Some("Parser"))?;
        let (branches, els) = if_chain(find::tail_expr(&f.block)?);
        if f.block.stmts.len() != 1 || branches.is_empty() {
            return Err("negation: expected one `if … else if … else …` chain".into());
        }
        let mut toks = vec![];
        let mut operands = vec![];
        for (cond, block) in &branches {
            let tok = cond
                .strip_prefix("self.peek_is(Token::")
                .and_then(|c| c.strip_suffix(')'))
                .ok_or(format!("negation: unsupported condition `{cond}`"))?;
            let sh = shape_of(block);
            if sh.control > 0 {
                return Err(format!("negation: the `{tok}` branch contains a conditional / loop / return / macro (a prefix operator must apply to whatever follows, unconditionally)"));
            }
            if !squash(block).contains(&format!("self.take(Token::{tok})?")) {
                return Err(format!("negation: the `{tok}` branch does not take the token"));
            }
            let parsers: Vec<&String> = sh.self_calls.iter().filter(|c| !["take", "get_span", "peek_is", "next_is"].contains(&c.as_str())).collect();
            if parsers.len() != 1 {
                return Err(format!("negation: the `{tok}` branch must call exactly one parsing function, found {parsers:?}"));
            }
            let callee = parsers[0].clone();
            let var = bound_to_call(block, &callee).ok_or(format!("negation: the `{tok}` branch does not bind the result of `self.{callee}(…)`"))?;
            let node = wrapping_node(&squash(block), &var).ok_or(format!("negation: the `{tok}` branch does not wrap `{var}` into a node"))?;
            toks.push(format!("({tok:?}, {node:?})"));
            operands.push(callee);
        }
        let els = els.ok_or("negation: no fall-through branch")?;
        let fall = squash(find::tail_expr(els)?);
        let fall = fall
            .strip_prefix("self.")
            .and_then(|c| c.strip_suffix("(r)"))
            .filter(|_| els.stmts.len() == 1)
            .ok_or(format!("negation: unsupported fall-through `{fall}`"))?
            .to_string();
        out.push_str(&format!("def prefixTokens : List (String × String) := [{}]\n", toks.join(", ")));
        out.push_str(&format!("/-- the parsing function each prefix branch applies to what follows the operator (nothing else is parsed there, no conditional) -/\ndef prefixOperand : List String := {}\n", lean_str_list(&operands)));
        out.push_str(&format!("/-- without a prefix operator `negation` is -/\ndef negationElse : String := {fall:?}\n"));

        let f = find::func(&expr, "access", Some("Parser"))?;
        let stmts = &f.block.stmts;
        if stmts.len() != 3 {
            return Err(format!("access: expected `let mut expr = …; loop {{…}} Ok(expr)`, found {} statements", stmts.len()));
        }
        let (var, first) = match &stmts[0] {
            syn::Stmt::Local(l) => match (&l.pat, &l.init) {
                (syn::Pat::Ident(i), Some(init)) => (i.ident.to_string(), squash(&init.expr)),
                _ => return Err("access: unsupported first statement".into()),
            },
            _ => return Err("access: unsupported first statement".into()),
        };
        let first = first
            .strip_prefix("self.")
            .and_then(|c| c.strip_suffix("(r)?"))
            .ok_or(format!("access: unsupported operand parser `{first}`"))?
            .to_string();
        let body = match &stmts[1] {
            syn::Stmt::Expr(syn::Expr::Loop(l), _) => &l.body,
            _ => return Err("access: second statement is not a `loop`".into()),
        };
        if body.stmts.len() != 1 {
            return Err("access: the loop body is not one `if` chain".into());
        }
        let (branches, els) = if_chain(find::tail_expr(body).or_else(|_| match &body.stmts[0] {
            syn::Stmt::Expr(e, _) => Ok(e),
            _ => Err("access: loop body".to_string()),
        })?);
        if els.map(|b| squash(b)) != Some("{break;}".to_string()) {
            return Err("access: the loop does not end with `else { break; }`".into());
        }
        let mut forms = vec![];
        for (cond, block) in &branches {
            let tok = cond
                .strip_prefix("self.peek_is(Token::")
                .or_else(|| cond.strip_prefix("self.next_is(Token::"))
                .and_then(|c| c.strip_suffix(')'))
                .ok_or(format!("access: unsupported condition `{cond}`"))?;
            if shape_of(block).control > 0 {
                return Err(format!("access: the `{tok}` branch contains a conditional / loop / return / macro"));
            }
            let txt = squash(block);
            let node = wrapping_node(&txt, &var).ok_or(format!("access: the `{tok}` branch does not wrap `{var}` into a node"))?;
            if !txt.contains(&format!("{var}=self.spans.add(")) && !txt.contains(&format!("{var}=self.spans.add(")) {
                return Err(format!("access: the `{tok}` branch does not assign the new node to `{var}`"));
            }
            forms.push(format!("({tok:?}, {node:?})"));
        }
        if squash(&stmts[2]) != format!("Ok({var})") {
            return Err("access: does not return the expression built by the loop".into());
        }
        out.push_str(&format!("/-- `Parser::access`: the operand is parsed by -/\ndef accessOperand : String := {first:?}\n"));
        out.push_str(&format!("/-- … and then, in a loop, every one of these (token, node) applies to the expression so far -/\ndef accessForms : List (String × String) := [{}]\n\n", forms.join(", ")));
    }

    // ---- keyword table
    {
        let f = find::func(&lexer, "keyword_or_ident", Some("Lexer"))?;
        let arms = str_arms(&f.block, "ident")?;
        let mut kws = vec![];
        let mut bools = vec![];
        for (lits, body) in arms {
            if body.starts_with("Keyword::") {
                kws.extend(lits);
            } else if body.contains("Token::Bool") {
                bools.extend(lits);
            } else {
                return Err(format!("keyword_or_ident: unsupported arm body `{body}`"));
            }
        }
        out.push_str(&format!("def keywords : List String := {}\n", lean_str_list(&kws)));
        out.push_str(&format!("def boolWords : List String := {}\n\n", lean_str_list(&bools)));
    }

    // ---- numeric suffix tables (simple_literal)
    {
        let f = find::func(&expr, "simple_literal", Some("Parser"))?;
        let lits_of = |m: &syn::ExprMatch| -> Vec<(String, String)> {
            let mut v = vec![];
            for a in &m.arms {
                if let syn::Pat::Lit(l) = &a.pat {
                    if let syn::Lit::Str(s) = &l.lit {
                        v.push((s.value(), a.body.to_token_stream().to_string().replace(' ', "")));
                    }
                }
            }
            v
        };
        let ms = find::matches_on(&f.block, "int_ty");
        if ms.len() != 2 {
            return Err(format!("simple_literal: expected two `match int_ty`, found {}", ms.len()));
        }
        // outer: float suffixes on an integer token; inner: integer suffixes
        let outer = lits_of(&ms[0]);
        let inner = lits_of(&ms[1]);
        let mut int_float = vec![];
        for (s, b) in &outer {
            if !b.contains("Literal::Float") {
                return Err(format!("simple_literal: outer int_ty arm {s:?} is not a float"));
            }
            int_float.push(s.clone());
        }
        let mut ints = vec![];
        for (s, b) in &inner {
            let want = if s.is_empty() { "None".to_string() } else { format!("Some(IntType::{})", s.to_uppercase()) };
            if *b != want {
                return Err(format!("simple_literal: suffix {s:?} maps to `{b}`, expected `{want}`"));
            }
            ints.push(s.clone());
        }
        let ms = find::matches_on(&f.block, "float_ty");
        if ms.len() != 1 {
            return Err(format!("simple_literal: expected one `match float_ty`, found {}", ms.len()));
        }
        let mut floats = vec![];
        for (s, b) in lits_of(&ms[0]) {
            let want = if s.is_empty() { "None".to_string() } else { format!("Some(FloatType::{})", s.to_uppercase()) };
            if b != want {
                return Err(format!("simple_literal: float suffix {s:?} maps to `{b}`, expected `{want}`"));
            }
            floats.push(s);
        }
        out.push_str(&format!("/-- suffixes accepted on an integer token that give an integer (\"\" = none) -/\ndef intSuffixes : List String := {}\n", lean_str_list(&ints)));
        out.push_str(&format!("/-- suffixes on an integer token that make it a float -/\ndef intTokenFloatSuffixes : List String := {}\n", lean_str_list(&int_float)));
        out.push_str(&format!("def floatSuffixes : List String := {}\n", lean_str_list(&floats)));
        // underscores: every `_` is removed from the digits of Integer and Float tokens
        // (the stripped text may keep the name of the token text or get a name of its
        // own; what counts is that it is the first thing the arm does and that nothing
        // but the stripped text is parsed)
        underscore_strip(&f.block, "Integer")?;
        underscore_strip(&f.block, "Float")?;
        out.push_str("def underscoreStripAll : Bool := true\n");
    }
    out.push_str("\nend RotoV.Gen.Precedence\n");
    Ok(out)
}

/// `if c1 {b1} else if c2 {b2} … else {e}`: the (condition, block) pairs and the final else
fn if_chain(e: &syn::Expr) -> (Vec<(String, &syn::Block)>, Option<&syn::Block>) {
    let mut out = vec![];
    let mut cur = e;
    loop {
        match cur {
            syn::Expr::If(i) => {
                out.push((squash(&i.cond), &i.then_branch));
                match &i.else_branch {
                    Some((_, e)) => cur = e,
                    None => return (out, None),
                }
            }
            syn::Expr::Block(b) => return (out, Some(&b.block)),
            _ => return (out, None),
        }
    }
}

struct Shape {
    /// conditionals, loops, early exits, macros, closures inside the block
    control: usize,
    /// methods called on `self`
    self_calls: Vec<String>,
}

fn shape_of(b: &syn::Block) -> Shape {
    use syn::visit::Visit;
    struct V(Shape);
    impl<'ast> Visit<'ast> for V {
        fn visit_expr(&mut self, e: &'ast syn::Expr) {
            match e {
                syn::Expr::If(_) | syn::Expr::Match(_) | syn::Expr::While(_) | syn::Expr::Loop(_) | syn::Expr::ForLoop(_)
                | syn::Expr::Return(_) | syn::Expr::Break(_) | syn::Expr::Continue(_) | syn::Expr::Macro(_) | syn::Expr::Closure(_)
                | syn::Expr::Let(_) => self.0.control += 1,
                syn::Expr::MethodCall(m) if squash(&m.receiver) == "self" => self.0.self_calls.push(m.method.to_string()),
                _ => {}
            }
            syn::visit::visit_expr(self, e);
        }
        fn visit_stmt_macro(&mut self, m: &'ast syn::StmtMacro) {
            self.0.control += 1;
            syn::visit::visit_stmt_macro(self, m);
        }
    }
    let mut v = V(Shape { control: 0, self_calls: vec![] });
    v.visit_block(b);
    v.0
}

/// the name bound by `let NAME = self.<callee>(…)?`
fn bound_to_call(b: &syn::Block, callee: &str) -> Option<String> {
    for s in &b.stmts {
        if let syn::Stmt::Local(l) = s {
            if let (syn::Pat::Ident(i), Some(init)) = (&l.pat, &l.init) {
                if squash(&init.expr).starts_with(&format!("self.{callee}(")) {
                    return Some(i.ident.to_string());
                }
            }
        }
    }
    None
}

/// `N` of the (unique) `Expr::N(Box::new(var)…` in a squashed block
fn wrapping_node(txt: &str, var: &str) -> Option<String> {
    let mut found = vec![];
    for (i, _) in txt.match_indices("Expr::") {
        let rest = &txt[i + 6..];
        let n: String = rest.chars().take_while(|c| c.is_alphanumeric() || *c == '_').collect();
        let after = &rest[n.len()..];
        if let Some(a) = after.strip_prefix(&format!("(Box::new({var})")) {
            if a.starts_with(')') || a.starts_with(',') {
                found.push(n);
            }
        }
    }
    if found.len() == 1 { found.pop() } else { None }
}

/// In the `Token::<variant>(text, _)` arm of `simple_literal`: the first statement is
/// `let N = text.replace("_", "")` and every `.parse::<T>()` of the arm is applied to `N`.
fn underscore_strip(block: &syn::Block, variant: &str) -> Result<(), String> {
    use syn::visit::Visit;
    struct Arms<'a> {
        variant: &'a str,
        found: Vec<syn::Arm>,
    }
    impl<'a, 'ast> Visit<'ast> for Arms<'a> {
        fn visit_arm(&mut self, a: &'ast syn::Arm) {
            if let syn::Pat::TupleStruct(ts) = &a.pat {
                if ts.path.segments.last().map(|s| s.ident == self.variant).unwrap_or(false)
                    && ts.path.segments.first().map(|s| s.ident == "Token").unwrap_or(false)
                {
                    self.found.push(a.clone());
                }
            }
            syn::visit::visit_arm(self, a);
        }
    }
    let mut arms = Arms { variant, found: vec![] };
    arms.visit_block(block);
    if arms.found.len() != 1 {
        return Err(format!("simple_literal: expected one `Token::{variant}(..)` arm, found {}", arms.found.len()));
    }
    let arm = &arms.found[0];
    let syn::Pat::TupleStruct(ts) = &arm.pat else { unreachable!() };
    let text = match ts.elems.first() {
        Some(syn::Pat::Ident(i)) => i.ident.to_string(),
        _ => return Err(format!("simple_literal: `Token::{variant}` arm does not bind the token text to a name")),
    };
    let syn::Expr::Block(body) = &*arm.body else {
        return Err(format!("simple_literal: `Token::{variant}` arm is not a block"));
    };
    let first = body.block.stmts.iter().find(|s| !matches!(s, syn::Stmt::Item(_)));
    let stripped = match first {
        Some(syn::Stmt::Local(l)) => {
            let name = match &l.pat {
                syn::Pat::Ident(i) => i.ident.to_string(),
                _ => return Err(format!("simple_literal: `Token::{variant}` arm: first `let` binds a pattern")),
            };
            let init = l.init.as_ref().map(|i| squash(&i.expr)).unwrap_or_default();
            if init != format!("{text}.replace(\"_\",\"\")") {
                return Err(format!("simple_literal: `Token::{variant}` arm must start with `let … = {text}.replace(\"_\", \"\")`, found `{init}`"));
            }
            name
        }
        _ => return Err(format!("simple_literal: `Token::{variant}` arm must start with `let … = {text}.replace(\"_\", \"\")`")),
    };
    struct Parses {
        receivers: Vec<String>,
    }
    impl<'ast> Visit<'ast> for Parses {
        fn visit_expr_method_call(&mut self, m: &'ast syn::ExprMethodCall) {
            if m.method == "parse" {
                self.receivers.push(squash(&m.receiver));
            }
            syn::visit::visit_expr_method_call(self, m);
        }
    }
    let mut ps = Parses { receivers: vec![] };
    ps.visit_block(&body.block);
    if ps.receivers.is_empty() {
        return Err(format!("simple_literal: `Token::{variant}` arm parses nothing"));
    }
    if let Some(r) = ps.receivers.iter().find(|r| **r != stripped) {
        return Err(format!("simple_literal: `Token::{variant}` arm parses `{r}`, not the underscore-stripped text `{stripped}`"));
    }
    Ok(())
}

// ------------------------------------------------------------- look-ahead

fn squash(t: impl ToTokens) -> String {
    t.to_token_stream().to_string().replace(' ', "")
}

/// `Token::X` / `Token::X(_)` ↦ the model's token class
fn tok_class(pat: &str) -> Result<&'static str, String> {
    Ok(match pat {
        "Token::CurlyLeft" => "lcurly",
        "Token::CurlyRight" => "rcurly",
        "Token::RoundLeft" => "lparen",
        "Token::RoundRight" => "rparen",
        "Token::SquareLeft" => "lsquare",
        "Token::SquareRight" => "rsquare",
        "Token::Comma" => "comma",
        "Token::Colon" => "colon",
        "Token::SemiColon" => "semi",
        "Token::Eq" => "eq",
        "Token::Period" => "period",
        "Token::Keyword(Keyword::Let)" => "kwLet",
        "Token::Ident(_)" => "ident",
        "Token::FStringStart" => "fstart",
        "Token::String(_)" | "Token::Char(_)" | "Token::Integer(_,_)" | "Token::Float(_,_)" | "Token::Hex(_)" | "Token::Bool(_)" => "lit",
        other => return Err(format!("token pattern `{other}` is outside the look-ahead model's vocabulary")),
    })
}

/// every `Token::Name` (with an optional `(..)` payload pattern) in a squashed text
fn token_pats(txt: &str) -> Vec<String> {
    let mut out = vec![];
    let mut rest = txt;
    while let Some(i) = rest.find("Token::") {
        let tail = &rest[i + 7..];
        let n = tail.find(|c: char| !(c.is_alphanumeric() || c == '_')).unwrap_or(tail.len());
        let mut pat = format!("Token::{}", &tail[..n]);
        let after = &tail[n..];
        if after.starts_with('(') {
            // payload pattern up to the matching parenthesis
            let mut depth = 0;
            for (k, c) in after.char_indices() {
                if c == '(' {
                    depth += 1;
                } else if c == ')' {
                    depth -= 1;
                    if depth == 0 {
                        pat.push_str(&after[..=k]);
                        break;
                    }
                }
            }
        }
        out.push(pat);
        rest = &tail[n..];
    }
    out
}

pub fn lookahead(repo: &Path) -> Result<String, String> {
    let lexer = find::parse(repo, "src/parser/lexer.rs")?;
    let expr = find::parse(repo, "src/parser/expr.rs")?;

    // ---- Lexer::next / Lexer::peek: the queue discipline the model assumes
    let next = squash(&find::func(&lexer, "next", Some("Lexer"))?.block);
    if next != "{ifletSome(t)=self.peeked.pop_front(){returnSome(t);}self.next_inner()}" {
        return Err(format!("Lexer::next no longer pops the queue first / lexes otherwise: {next}"));
    }
    let peek = squash(&find::func(&lexer, "peek", Some("Lexer"))?.block);
    if peek != "{ifself.peeked.is_empty()&&letSome(t)=self.next_inner(){self.peeked.push_back(t);}self.peeked.front()}" {
        return Err(format!("Lexer::peek changed shape: {peek}"));
    }
    // ---- Lexer::f_string_part scans the raw input and ignores the queue
    let fsp = squash(&find::func(&lexer, "f_string_part", Some("Lexer"))?.block);
    if fsp.contains("peeked") {
        return Err("Lexer::f_string_part consults the token queue: the model's `fPart` does not".into());
    }
    if !fsp.starts_with("{letmutchars=self.input.char_indices();") {
        return Err("Lexer::f_string_part no longer scans `self.input`".into());
    }

    // ---- Lexer::peek_many: the fill loop
    let pm = find::func(&lexer, "peek_many", Some("Lexer"))?;
    let Some(syn::Stmt::Expr(syn::Expr::ForLoop(fl), _)) = pm.block.stmts.first() else {
        return Err("Lexer::peek_many does not start with the fill loop".into());
    };
    if squash(&fl.expr) != "0..N-self.peeked.len()" {
        return Err(format!("Lexer::peek_many: fill loop runs over `{}`", squash(&fl.expr)));
    }
    let mut stops: Vec<&'static str> = vec![];
    let mut phase = 0; // 0: guards, 1: after `let t = next_inner()?`, 2: after push_back
    for st in &fl.body.stmts {
        let txt = squash(st);
        match (phase, st) {
            (0, syn::Stmt::Expr(syn::Expr::If(i), _)) => {
                let cond = squash(&i.cond);
                let then = squash(&i.then_branch);
                if i.else_branch.is_some() || then != "{returnNone;}" || !cond.contains("self.peeked.back()") {
                    return Err(format!("Lexer::peek_many: unsupported statement in the fill loop: {txt}"));
                }
                // the guard must be about the kind of the last queued token only
                let shape_a = cond.starts_with("letSome((Ok(") && cond.ends_with("),_))=self.peeked.back()");
                let shape_b = cond.starts_with("matches!(self.peeked.back(),Some((Ok(") && cond.ends_with("),_)))");
                if !(shape_a || shape_b) {
                    return Err(format!("Lexer::peek_many: guard of unknown shape: {cond}"));
                }
                let pats = token_pats(&cond);
                if pats.is_empty() {
                    return Err(format!("Lexer::peek_many: guard names no token: {cond}"));
                }
                for p in pats {
                    stops.push(tok_class(&p)?);
                }
            }
            (0, _) if txt == "lett=self.next_inner()?;" => phase = 1,
            (1, _) if txt == "self.peeked.push_back(t);" => phase = 2,
            _ => return Err(format!("Lexer::peek_many: unsupported statement in the fill loop: {txt}")),
        }
    }
    if phase != 2 {
        return Err("Lexer::peek_many: the fill loop does not lex and queue one token per round".into());
    }

    // ---- Parser::atom: the windows tried on `{`
    let atom = squash(&find::func(&expr, "atom", Some("Parser"))?.block);
    let mut windows: Vec<Vec<&'static str>> = vec![];
    let mut recon: Vec<String> = vec![];
    {
        let mut rest = atom.as_str();
        let key = "matches!(self.peek_many::<";
        while let Some(i) = rest.find(key) {
            let tail = &rest[i + key.len()..];
            let Some(j) = tail.find(">(),Some([") else {
                return Err("atom: `matches!(self.peek_many::<N>(), …)` of unknown shape".into());
            };
            let n: usize = tail[..j].parse().map_err(|_| format!("atom: window size `{}`", &tail[..j]))?;
            let body = &tail[j + 10..];
            let Some(k) = body.find("]))") else {
                return Err("atom: unterminated window pattern".into());
            };
            let pats = token_pats(&body[..k]);
            if pats.join(",") != body[..k] {
                return Err(format!("atom: window pattern `{}` is not a list of token patterns", &body[..k]));
            }
            if pats.len() != n {
                return Err(format!("atom: peek_many::<{n}> matched against {} patterns", pats.len()));
            }
            let mut w = vec![];
            for p in &pats {
                w.push(tok_class(p)?);
            }
            recon.push(format!("{key}{n}>(),Some([{}]))", &body[..k]));
            windows.push(w);
            rest = &body[k..];
        }
    }
    let want = format!(
        "ifself.peek_is(Token::CurlyLeft){{letis_anonymous_record={};ifis_anonymous_record{{letkey_values=self.record()?;",
        recon.join("||")
    );
    if windows.is_empty() || !atom.contains(&want) {
        return Err("atom: the `{` branch no longer decides record / block by the `peek_many` windows alone".into());
    }
    if !atom.contains("}else{letblock=self.block()?;") {
        return Err("atom: the `{` branch no longer falls back to `block()`".into());
    }

    // ---- Parser::f_string: the scanner is called right after `f"` was taken
    let fs = squash(&find::func(&expr, "f_string", Some("Parser"))?.block);
    if !fs.starts_with("{letmutparts=Vec::new();letstart_span=self.take(Token::FStringStart)?;whileletSome((part,span))=self.lexer.f_string_part(){") {
        return Err("f_string: no longer takes `f\"` and then scans parts".into());
    }
    if !fs.contains("self.take(Token::CurlyLeft)?;letexpr=self.expr()?;") || !fs.contains("self.take(Token::CurlyRight)?;}") {
        return Err("f_string: the hole is no longer `{` expr `}`".into());
    }

    // ---- census: no other look-ahead / raw-mode call site in the parser
    let dir = repo.join("src/parser");
    let mut names: Vec<String> = std::fs::read_dir(&dir)
        .map_err(|e| format!("cannot list {}: {e}", dir.display()))?
        .filter_map(|e| e.ok())
        .map(|e| e.file_name().to_string_lossy().to_string())
        .filter(|n| n.ends_with(".rs") && !n.starts_with("test_"))
        .collect();
    names.sort();
    for n in &names {
        let f = find::parse(repo, &format!("src/parser/{n}"))?;
        let txt = squash(&f);
        let pm_count = txt.matches("peek_many").count();
        let want_pm = match n.as_str() {
            "expr.rs" => windows.len(),
            "mod.rs" => 2,   // the wrapper: its definition and its call of the lexer's
            "lexer.rs" => 1, // the definition
            _ => 0,
        };
        if pm_count != want_pm {
            return Err(format!("src/parser/{n}: {pm_count} mentions of `peek_many`, the model knows {want_pm}: a look-ahead site outside the model"));
        }
        let mut rest = txt.as_str();
        while let Some(i) = rest.find("self.lexer.") {
            let tail = &rest[i + 11..];
            let m: String = tail.chars().take_while(|c| c.is_alphanumeric() || *c == '_').collect();
            let ok = match (n.as_str(), m.as_str()) {
                ("mod.rs", "next" | "peek" | "peek_many" | "skip_shebang") => true,
                ("expr.rs", "f_string_part") => true,
                _ => false,
            };
            if !ok {
                return Err(format!("src/parser/{n}: `self.lexer.{m}` is a lexer access outside the model"));
            }
            rest = tail;
        }
        if n == "expr.rs" && txt.matches("self.lexer.f_string_part").count() != 1 {
            return Err("expr.rs: `f_string_part` is called from more than one place".into());
        }
    }

    // ---- Parser::can_start_expression: the tokens after which `return` takes a value
    let mut starts: Vec<&'static str> = vec![];
    {
        let f = find::func(&expr, "can_start_expression", Some("Parser"))?;
        let txt = squash(&f.block);
        let Some(body) = txt.strip_prefix("{matches!(tok,").and_then(|t| t.strip_suffix(")}")) else {
            return Err(format!("can_start_expression is no longer one `matches!(tok, …)`: {txt}"));
        };
        // top-level alternatives; `Token::Keyword(Keyword::A|Keyword::B)` expands
        let mut depth = 0;
        let mut cur = String::new();
        let mut alts = vec![];
        for ch in body.chars() {
            match ch {
                '(' => { depth += 1; cur.push(ch) }
                ')' => { depth -= 1; cur.push(ch) }
                '|' if depth == 0 => alts.push(std::mem::take(&mut cur)),
                _ => cur.push(ch),
            }
        }
        alts.push(cur);
        for a in alts {
            if let Some(kws) = a.strip_prefix("Token::Keyword(").and_then(|t| t.strip_suffix(')')) {
                for k in kws.split('|') {
                    starts.push(match k {
                        "Keyword::If" => "kwIf", "Keyword::Match" => "kwMatch", "Keyword::Super" => "kwSuper",
                        "Keyword::Pkg" => "kwPkg", "Keyword::Dep" => "kwDep", "Keyword::Std" => "kwStd",
                        "Keyword::While" => "kwWhile", "Keyword::For" => "kwFor", "Keyword::Return" => "kwReturn",
                        "Keyword::Accept" => "kwAccept", "Keyword::Reject" => "kwReject",
                        other => return Err(format!("can_start_expression: keyword `{other}` is outside the model's vocabulary")),
                    });
                }
                continue;
            }
            let name = a.split('(').next().unwrap_or("");
            starts.push(match name {
                "Token::RoundLeft" => "roundLeft", "Token::CurlyLeft" => "curlyLeft", "Token::SquareLeft" => "squareLeft",
                "Token::Ident" => "ident", "Token::Bang" => "bang", "Token::Hyphen" => "hyphen", "Token::Bool" => "bool",
                "Token::Integer" => "integer", "Token::Float" => "float", "Token::Hex" => "hex", "Token::IpV4" => "ipV4",
                "Token::IpV6" => "ipV6", "Token::Asn" => "asn", "Token::String" => "string", "Token::Char" => "char",
                "Token::FStringStart" => "fStringStart",
                other => return Err(format!("can_start_expression: token `{other}` is outside the model's vocabulary")),
            });
            // payload patterns must be wildcards: the decision is by token kind only
            if let Some(i) = a.find('(') {
                let payload = &a[i..];
                if !payload.chars().all(|c| matches!(c, '(' | ')' | '_' | ',' | '.')) {
                    return Err(format!("can_start_expression: `{a}` looks at the token's text"));
                }
            }
        }
        let atom_txt = squash(&find::func(&expr, "atom", Some("Parser"))?.block);
        if !atom_txt.contains("letval=matchself.peek(){Some(tok)ifSelf::can_start_expression(tok)=>{letexpr=self.expr()?;") {
            return Err("atom: the value of return/accept/reject is no longer decided by `can_start_expression(peek)`".into());
        }
    }

    let lean_list = |xs: &[&str]| -> String {
        let v: Vec<String> = xs.iter().map(|x| format!("Tok.{x}")).collect();
        format!("[{}]", v.join(", "))
    };
    let mut out = String::from(
        "/- GENERATED by /verif/extract from src/parser/lexer.rs, src/parser/expr.rs (and a census of src/parser/*.rs) — do not edit. -/\nimport RotoV.Model.LookAheadBase\nnamespace RotoV.Gen.LookAhead\nopen RotoV.LookAhead\n\n",
    );
    out.push_str("/-- `Lexer::peek_many`: the fill loop returns `None` instead of lexing on when the last queued token is one of these -/\n");
    out.push_str(&format!("def peekStops : List Tok := {}\n\n", lean_list(&stops)));
    out.push_str("/-- `Parser::atom` on `{`: the `peek_many::<N>()` windows, tried in order (`||`); a match = anonymous record, otherwise `block()` -/\n");
    let ws: Vec<String> = windows.iter().map(|w| lean_list(w)).collect();
    out.push_str(&format!("def recordWindows : List (List Tok) := [{}]\n", ws.join(", ")));
    let ss: Vec<String> = starts.iter().map(|x| format!("Start.{x}")).collect();
    out.push_str("\n/-- `Parser::can_start_expression`: after `return` / `accept` / `reject`, a value is parsed iff the next token is one of these -/\n");
    out.push_str(&format!("def returnValueStarts : List Start := [{}]\n", ss.join(", ")));
    out.push_str("\nend RotoV.Gen.LookAhead\n");
    Ok(out)
}

// ------------------------------------------------------------- f-string text parts

fn char_lit(txt: &str) -> Result<char, String> {
    syn::parse_str::<syn::LitChar>(txt).map(|l| l.value()).map_err(|_| format!("`{txt}` is not a char literal"))
}

fn lean_char(c: char) -> String {
    match c {
        '\\' => "'\\\\'".into(),
        '\'' => "'\\''".into(),
        c if c.is_ascii_graphic() => format!("'{c}'"),
        c => format!("(Char.ofNat {})", c as u32),
    }
}

/// one conjunct of the backslash arm's condition ↦ `IterTest`
fn iter_test(conj: &str) -> Result<String, String> {
    let lit = |t: &str| -> Result<String, String> { Ok(lean_char(char_lit(t)?)) };
    if let Some(t) = conj.strip_prefix("letSome((_,").and_then(|t| t.strip_suffix("))=chars.next()")) {
        return Ok(format!(".nextIs {}", lit(t)?));
    }
    if let Some(t) = conj.strip_prefix("letSome((_,").and_then(|t| t.strip_suffix("))=chars.peek()")) {
        return Ok(format!(".peekIs {}", lit(t)?));
    }
    // closures `|(_, v)| *v == 'x'` / `|&(_, v)| v == 'x'`
    let closure = |t: &str| -> Option<String> {
        let t = t.strip_prefix("|")?;
        let (pat, body) = t.split_once('|')?;
        let (var, deref) = if let Some(v) = pat.strip_prefix("(_,").and_then(|v| v.strip_suffix(')')) {
            (v.to_string(), true)
        } else if let Some(v) = pat.strip_prefix("&(_,").and_then(|v| v.strip_suffix(')')) {
            (v.to_string(), false)
        } else {
            return None;
        };
        let lhs = if deref { format!("*{var}==") } else { format!("{var}==") };
        body.strip_prefix(lhs.as_str()).map(|s| s.to_string())
    };
    if let Some(t) = conj.strip_prefix("chars.next_if(").and_then(|t| t.strip_suffix(").is_some()")) {
        if let Some(c) = closure(t) {
            return Ok(format!(".nextIfIs {}", lit(&c)?));
        }
    }
    if let Some(t) = conj.strip_prefix("chars.peek().is_some_and(").and_then(|t| t.strip_suffix(')')) {
        if let Some(c) = closure(t) {
            return Ok(format!(".peekIs {}", lit(&c)?));
        }
    }
    Err(format!("unescape_f_string_part: the backslash arm tests `{conj}`, which is outside the translator's subset (next / peek / next_if against a char literal)"))
}

pub fn fstrtext(repo: &Path) -> Result<String, String> {
    let expr = find::parse(repo, "src/parser/expr.rs")?;
    let f = find::func(&expr, "unescape_f_string_part", None)?;
    let stmts: Vec<&syn::Stmt> = f.block.stmts.iter().collect();
    let shape_err = |what: &str| format!("unescape_f_string_part changed shape ({what}): outside the translator's subset");
    if stmts.len() != 7 {
        return Err(shape_err(&format!("{} statements", stmts.len())));
    }
    let fixed = [
        (0, "letmutunescaped=String::new();"),
        (1, "letmutpiece_start=0;"),
        (2, "letmutchars=s.char_indices().peekable();"),
        (4, "letpiece_span=Span{start:span.start+piece_start,..span};"),
        (5, "unescaped.push_str(&unescape_str(&s[piece_start..],piece_span)?);"),
        (6, "Ok(unescaped)"),
    ];
    for (i, want) in fixed {
        let got = squash(stmts[i]);
        if got != want {
            return Err(shape_err(&format!("statement {i} is `{got}`")));
        }
    }
    let syn::Stmt::Expr(syn::Expr::While(w), _) = stmts[3] else {
        return Err(shape_err("no `while let` loop"));
    };
    if squash(&w.cond) != "letSome((i,c))=chars.next()" {
        return Err(shape_err(&format!("loop condition `{}`", squash(&w.cond))));
    }
    let [syn::Stmt::Expr(syn::Expr::Match(m), _)] = &w.body.stmts[..] else {
        return Err(shape_err("the loop body is not one `match c`"));
    };
    if squash(&m.expr) != "c" || m.arms.len() != 3 {
        return Err(shape_err("the loop body is not a three-armed `match c`"));
    }
    // arm 0: the backslash
    let a0 = &m.arms[0];
    if squash(&a0.pat) != "'\\\\'" || a0.guard.is_some() {
        return Err(shape_err(&format!("first arm matches `{}`", squash(&a0.pat))));
    }
    let syn::Expr::Block(b0) = &*a0.body else {
        return Err(shape_err("backslash arm is not a block"));
    };
    let [syn::Stmt::Expr(syn::Expr::If(i0), _)] = &b0.block.stmts[..] else {
        return Err(shape_err(&format!("backslash arm is `{}`", squash(&b0.block))));
    };
    if i0.else_branch.is_some() {
        return Err(shape_err("backslash arm has an else branch"));
    }
    let cond = squash(&i0.cond);
    let mut conds = vec![];
    for conj in cond.split("&&") {
        conds.push(iter_test(conj)?);
    }
    let then = squash(&i0.then_branch);
    let stop = then
        .strip_prefix("{for(_,c)inchars.by_ref(){ifc==")
        .and_then(|t| t.strip_suffix("{break;}}}"))
        .ok_or_else(|| shape_err(&format!("skip loop `{then}`")))?;
    let stop = lean_char(char_lit(stop)?);
    // arm 1: doubled braces
    let a1 = &m.arms[1];
    let mut braces = vec![];
    for alt in squash(&a1.pat).split('|') {
        braces.push(lean_char(char_lit(alt)?));
    }
    match &a1.guard {
        Some((_, g)) if squash(g) == "chars.peek().is_some_and(|(_,d)|*d==c)" => {}
        Some((_, g)) => return Err(shape_err(&format!("brace arm guard `{}`", squash(g)))),
        None => return Err(shape_err("brace arm without the doubled-character guard")),
    }
    let body1 = squash(&a1.body);
    if body1 != "{chars.next();letpiece_span=Span{start:span.start+piece_start,..span};unescaped.push_str(&unescape_str(&s[piece_start..i],piece_span)?);unescaped.push(c);piece_start=i+2;}" {
        return Err(shape_err(&format!("brace arm body `{body1}`")));
    }
    // arm 2
    let a2 = &m.arms[2];
    if squash(&a2.pat) != "_" || a2.guard.is_some() || squash(&a2.body) != "{}" {
        return Err(shape_err("third arm is not `_ => {}`"));
    }
    // the function is called for every text part of an f-string
    let fs = squash(&find::func(&expr, "f_string", Some("Parser"))?.block);
    if !fs.contains("lets=unescape_f_string_part(s,span)?;parts.push(self.spans.add(span,FStringPart::String(s)));") {
        return Err("f_string: the text of a part is no longer `unescape_f_string_part(s, span)?`".into());
    }

    let mut out = String::from(
        "/- GENERATED by /verif/extract from src/parser/expr.rs (unescape_f_string_part) — do not edit. -/\nimport RotoV.Model.FString\nnamespace RotoV.Gen.C09FStrText\nopen RotoV.FString\n\n",
    );
    out.push_str("/-- the backslash arm: the `&&` chain of tests on the peekable char iterator, in order -/\n");
    out.push_str(&format!("def backslashConds : List IterTest := [{}]\n\n", conds.join(", ")));
    out.push_str("/-- when the chain holds: `for (_, c) in chars.by_ref() { if c == STOP { break; } }` -/\n");
    out.push_str(&format!("def backslashSkipStop : Option Char := some {stop}\n\n"));
    out.push_str("/-- the characters of the second arm (`'{' | '}' if the next char is the same`) -/\n");
    out.push_str(&format!("def braceChars : List Char := [{}]\n", braces.join(", ")));
    out.push_str("\nend RotoV.Gen.C09FStrText\n");
    Ok(out)
}

// ------------------------------------------------------------- identifier scan

/// an `||` chain of character tests on `var` (`*var` when `deref`) ↦ `CharTest`s
fn char_tests(
    e: &syn::Expr,
    var: &str,
    deref: bool,
    env: &std::collections::HashMap<String, Vec<String>>,
) -> Result<Vec<String>, String> {
    let subject = if deref { format!("*{var}") } else { var.to_string() };
    match e {
        syn::Expr::Paren(p) => char_tests(&p.expr, var, deref, env),
        syn::Expr::Binary(b) if matches!(b.op, syn::BinOp::Or(_)) => {
            let mut l = char_tests(&b.left, var, deref, env)?;
            l.extend(char_tests(&b.right, var, deref, env)?);
            Ok(l)
        }
        syn::Expr::Binary(b) if matches!(b.op, syn::BinOp::Eq(_)) => {
            let (l, r) = (squash(&b.left), squash(&b.right));
            let lit = if l == subject { r } else if r == subject { l } else {
                return Err(format!("keyword_or_ident: `{}` does not test the scanned character", squash(e)));
            };
            Ok(vec![format!(".isChar {}", lean_char(char_lit(&lit)?))])
        }
        syn::Expr::Call(c) => {
            let f = squash(&c.func);
            let args: Vec<String> = c.args.iter().map(squash).collect();
            if args.len() != 1 || args[0] != subject {
                return Err(format!("keyword_or_ident: `{}` is not applied to the scanned character", squash(e)));
            }
            match f.as_str() {
                "is_xid_start" | "unicode_ident::is_xid_start" => Ok(vec![".xidStart".into()]),
                "is_xid_continue" | "unicode_ident::is_xid_continue" => Ok(vec![".xidContinue".into()]),
                _ => Err(format!("keyword_or_ident: character test `{f}` is outside the translator's subset")),
            }
        }
        syn::Expr::Path(_) => env
            .get(&squash(e))
            .cloned()
            .ok_or_else(|| format!("keyword_or_ident: `{}` is not a named character test", squash(e))),
        _ => Err(format!(
            "keyword_or_ident: character test `{}` is outside the translator's subset (an `||` chain of is_xid_start / is_xid_continue / == char literal)",
            squash(e)
        )),
    }
}

fn is_hook_stmt(s: &syn::Stmt) -> bool {
    let attrs: &[syn::Attribute] = match s {
        syn::Stmt::Local(l) => &l.attrs,
        syn::Stmt::Expr(e, _) => match e {
            syn::Expr::Block(b) => &b.attrs,
            syn::Expr::If(i) => &i.attrs,
            syn::Expr::Call(c) => &c.attrs,
            syn::Expr::MethodCall(c) => &c.attrs,
            _ => &[],
        },
        syn::Stmt::Macro(m) => &m.attrs,
        _ => &[],
    };
    attrs.iter().any(|a| squash(a).contains("verif-hooks"))
}

pub fn identscan(repo: &Path) -> Result<String, String> {
    let lexer = find::parse(repo, "src/parser/lexer.rs")?;
    // the predicates must be unicode-ident's
    let uses: Vec<String> = lexer
        .items
        .iter()
        .filter_map(|i| if let syn::Item::Use(u) = i { Some(squash(u)) } else { None })
        .collect();
    for p in ["is_xid_start", "is_xid_continue"] {
        if !uses.iter().any(|u| u.starts_with("useunicode_ident::") && u.contains(p)) {
            return Err(format!("lexer.rs: `{p}` is no longer imported from unicode_ident"));
        }
        if lexer.items.iter().any(|i| matches!(i, syn::Item::Fn(f) if f.sig.ident == p)) {
            return Err(format!("lexer.rs defines its own `{p}`"));
        }
    }
    let f = find::func(&lexer, "keyword_or_ident", Some("Lexer"))?;
    let shape_err = |what: String| format!("keyword_or_ident changed shape ({what}): outside the translator's subset");
    let stmts: Vec<&syn::Stmt> = f.block.stmts.iter().filter(|s| !is_hook_stmt(s)).collect();
    let cont = "{returnControlFlow::Continue(());}";
    let mut it = stmts.iter();
    // 0: let mut tail = self.input;
    match it.next().map(|s| squash(s)) {
        Some(s) if s == "letmuttail=self.input;" => {}
        other => return Err(shape_err(format!("first statement `{other:?}`"))),
    }
    // 1: let Some(V) = tail.chars().next() else { return Continue };
    let var = match it.next() {
        Some(syn::Stmt::Local(l)) => {
            let init = l.init.as_ref().ok_or_else(|| shape_err("first character: no initialiser".into()))?;
            let div = init.diverge.as_ref().ok_or_else(|| shape_err("first character: no `else`".into()))?;
            if squash(&init.expr) != "tail.chars().next()" || squash(&div.1) != cont {
                return Err(shape_err(format!("first character is taken by `{}`", squash(l))));
            }
            squash(&l.pat)
                .strip_prefix("Some(")
                .and_then(|t| t.strip_suffix(')'))
                .filter(|v| v.chars().all(|c| c.is_alphanumeric() || c == '_'))
                .map(|v| v.to_string())
                .ok_or_else(|| shape_err(format!("first character pattern `{}`", squash(&l.pat))))?
        }
        other => return Err(shape_err(format!("second statement `{:?}`", other.map(|s| squash(s))))),
    };
    let mut env: std::collections::HashMap<String, Vec<String>> = Default::default();
    let mut lens: Vec<String> = vec![format!("{var}.len_utf8()")];
    let mut first: Option<Vec<String>> = None;
    let mut sliced = false;
    let mut rest: Option<Vec<String>> = None;
    let word;
    loop {
        let s = *it.next().ok_or_else(|| shape_err("no `self.bump_to(tail)`".into()))?;
        let txt = squash(s);
        match s {
            // the end of the scan
            syn::Stmt::Local(l) if l.init.as_ref().is_some_and(|i| squash(&i.expr) == "self.bump_to(tail)") => {
                let pat = squash(&l.pat);
                word = pat
                    .strip_prefix('(')
                    .and_then(|t| t.split_once(','))
                    .map(|(w, _)| w.to_string())
                    .ok_or_else(|| shape_err(format!("bump_to bound to `{pat}`")))?;
                break;
            }
            // a pure name for a character test or for the byte length of the first character
            syn::Stmt::Local(l) => {
                let init = l.init.as_ref().ok_or_else(|| shape_err(format!("`{txt}`")))?;
                let syn::Pat::Ident(pi) = &l.pat else { return Err(shape_err(format!("`{txt}`"))) };
                if init.diverge.is_some() || pi.mutability.is_some() || pi.by_ref.is_some() {
                    return Err(shape_err(format!("`{txt}`")));
                }
                let name = pi.ident.to_string();
                if lens.contains(&squash(&init.expr)) {
                    lens.push(name);
                } else {
                    let t = char_tests(&init.expr, &var, false, &env)?;
                    env.insert(name, t);
                }
            }
            syn::Stmt::Expr(syn::Expr::If(i), _) => {
                if first.is_some() || sliced {
                    return Err(shape_err(format!("a second conditional `{txt}`")));
                }
                let syn::Expr::Unary(u) = &*i.cond else { return Err(shape_err(format!("start test `{}`", squash(&i.cond)))) };
                if !matches!(u.op, syn::UnOp::Not(_)) || i.else_branch.is_some() || squash(&i.then_branch) != cont {
                    return Err(shape_err(format!("start test `{txt}`")));
                }
                first = Some(char_tests(&u.expr, &var, false, &env)?);
            }
            syn::Stmt::Expr(syn::Expr::Assign(a), Some(_)) => {
                if first.is_none() || sliced || squash(&a.left) != "tail" {
                    return Err(shape_err(format!("`{txt}`")));
                }
                let r = squash(&a.right);
                let idx = r.strip_prefix("&tail[").and_then(|t| t.strip_suffix("..]")).ok_or_else(|| shape_err(format!("`{txt}`")))?;
                if !lens.iter().any(|l| l == idx) {
                    return Err(shape_err(format!("the first character is skipped by `{idx}` bytes, not by its len_utf8()")));
                }
                sliced = true;
            }
            syn::Stmt::Expr(syn::Expr::MethodCall(m), Some(_)) => {
                if !sliced || rest.is_some() || squash(&m.receiver) != "tail" || m.method != "eat_while" || m.args.len() != 1 {
                    return Err(shape_err(format!("`{txt}`")));
                }
                let syn::Expr::Closure(c) = &m.args[0] else { return Err(shape_err(format!("`{txt}`"))) };
                if c.inputs.len() != 1 {
                    return Err(shape_err(format!("`{txt}`")));
                }
                let p = squash(&c.inputs[0]);
                let (v, deref) = if let Some(v) = p.strip_suffix(":&char") {
                    (v.to_string(), true)
                } else if let Some(v) = p.strip_prefix('&') {
                    (v.to_string(), false)
                } else {
                    (p.clone(), true)
                };
                rest = Some(char_tests(&c.body, &v, deref, &Default::default())?);
            }
            _ => return Err(shape_err(format!("statement `{txt}`"))),
        }
    }
    let first = first.ok_or_else(|| shape_err("no test of the first character".into()))?;
    let rest = rest.ok_or_else(|| shape_err("no `tail.eat_while(..)` over the later characters".into()))?;
    if !sliced {
        return Err(shape_err("the first character is not skipped".into()));
    }
    // what follows: the match on the scanned word (keyword table: target `precedence`)
    match it.next() {
        Some(syn::Stmt::Local(l))
            if l.init.as_ref().is_some_and(|i| matches!(&*i.expr, syn::Expr::Match(m) if squash(&m.expr) == word)) => {}
        other => return Err(shape_err(format!("after the scan: `{:?}`", other.map(|s| squash(s))))),
    }
    // StrExt::eat_while strips the longest prefix whose characters satisfy the predicate
    let ew = squash(&find::func(&lexer, "eat_while", Some("StrExt for &str"))?.block);
    if !ew.contains("self.trim_start_matches(|c|pat(&c))") {
        return Err("StrExt::eat_while is no longer `trim_start_matches(|c| pat(&c))`".into());
    }

    let mut out = String::from(
        "/- GENERATED by /verif/extract from src/parser/lexer.rs (keyword_or_ident) — do not edit. -/\nimport RotoV.Model.IdentScan\nnamespace RotoV.Gen.C09IdentScan\nopen RotoV.IdentScan\n\n",
    );
    out.push_str("/-- `if !(…) { return Continue }` on the first character: the `||` chain, in order -/\n");
    out.push_str(&format!("def identFirst : List CharTest := [{}]\n\n", first.join(", ")));
    out.push_str("/-- `tail.eat_while(|c| …)` over every later character: the `||` chain, in order -/\n");
    out.push_str(&format!("def identRest : List CharTest := [{}]\n", rest.join(", ")));
    out.push_str("\nend RotoV.Gen.C09IdentScan\n");
    Ok(out)
}
