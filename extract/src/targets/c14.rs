//! Translator targets owned by property C14.
//!
//! `c14emit` → `Generated/C14Emit.lean`: the statement-level facts the model's
//! item loop over the lowered list (`Model/TarjanLir`) rests on:
//!  * `Lowerer::program` (src/lir/lower.rs): in which order the groups of items
//!    — generated clone / drop / eq functions, the script's own items — are put
//!    into the vector that becomes `Lir.functions` (`programOrder`);
//!  * `codegen` (src/codegen/mod.rs): every item is declared before the first
//!    one is defined (`declareAllFirst`), and what the two arms of the
//!    `for item in ir { match &item.kind … }` loop do, in source order
//!    (`constantArm`, `functionArm`), and that `ModuleBuilder::finalize` starts
//!    with `finalize_definitions` (`finalizeAtEnd`).
//! Shapes that are not recognised are extraction failures, never defaults.
//!
//! `c14read` → `Generated/C14Read.lean`: what a *read* of a script constant is
//! lowered to, statement by statement (`Model/TarjanRead` gives the lists their
//! meaning):
//!  * `Lowerer::path_value` (src/mir/lower.rs), arm `ValueKind::Constant`:
//!    `mirReadNoFields` (what `if fields.is_empty() { … }` does) and
//!    `mirReadFields` (the rest of the arm);
//!  * `Lowerer::assign` (src/lir/lower.rs), arm `mir::Value::Constant`:
//!    `lirConstantAssign`, and that `emit_constant_address` emits
//!    `Instruction::ConstantAddress { to, name }` of the name it is given;
//!  * the arm `lir::Instruction::ConstantAddress` of the code generator
//!    (src/codegen/mod.rs): where the pointer comes from, in order
//!    (`cgConstantAddress`).
//!
//! `c14edges` → `Generated/C14Edges.lean`: where the reference graph gets its
//! edges.  `resolve_expression_path` (src/typechecker/expr.rs) is walked path by
//! path: for every exit `Ok(ResolvedPath::X …)` of every arm of
//! `match &dec.kind` the table `exits` says under which condition
//! `self.references.add_edge(ctx.item, dec.name)` has been executed before it
//! (`always`, `never`, or for which `ValueKind`s).  An `add_edge` in a position
//! the walk does not understand is an extraction failure.
//!
//! `c14ctx` → `Generated/C14Ctx.lean`: `context_check` and
//! `determine_uses_context` (src/typechecker/value_cycle.rs) as lists of guarded
//! steps (`checkSteps`, `determineSteps`): conditions and actions are classified
//! by what they do (a kind test may be spelled as a pattern or as a call of a
//! private predicate whose body is that pattern); anything else is an extraction
//! failure.  `Model/TarjanCtxShape` says which lists `Model/Tarjan.determine`
//! and `contextLoop` were written from.
//!
//! `c14scc` → `Generated/C14Scc.lean`: likewise `find_compilation_order`, `tarjan`,
//! `strongly_connect` and `State::update_lowlink` as nested guarded steps
//! (`Model/TarjanSccShape` holds what `Model/Tarjan.lean` transcribes).
//!
//! Every statement of these arms must be one the translator knows: a statement
//! that consults or updates anything else (a table of earlier reads, a flag) is
//! an extraction failure.
#[allow(unused_imports)]
use super::{Gen, Target};
use crate::find;
use quote::ToTokens;
use std::collections::HashMap;
use std::path::Path;
use syn::visit::Visit;

pub const TARGETS: &[Target] = &[("c14emit", "C14Emit", c14emit as Gen), ("c14read", "C14Read", c14read as Gen), ("c14edges", "C14Edges", c14edges as Gen), ("c14ctx", "C14Ctx", c14ctx as Gen), ("c14scc", "C14Scc", c14scc as Gen)];

fn norm<T: ToTokens>(t: &T) -> String {
    t.to_token_stream().to_string().replace(' ', "")
}

/// `Self::generate_clones(ctx)` ↦ `clones`, …
fn generated_group(e: &syn::Expr) -> Option<&'static str> {
    let s = norm(e);
    match s.as_str() {
        "Self::generate_clones(ctx)" => Some("clones"),
        "Self::generate_drops(ctx)" => Some("drops"),
        "Self::generate_eqs(ctx)" => Some("eqs"),
        _ => None,
    }
}

/// the groups a vector-valued expression stands for
fn vec_value(e: &syn::Expr, env: &mut HashMap<String, Vec<&'static str>>, take: bool) -> Result<Vec<&'static str>, String> {
    if let Some(g) = generated_group(e) {
        return Ok(vec![g]);
    }
    let s = norm(e);
    if s == "Vec::new()" {
        return Ok(vec![]);
    }
    // `x`, `&mut x`
    let name = s.trim_start_matches("&mut").to_string();
    match env.get_mut(&name) {
        Some(v) => Ok(if take { std::mem::take(v) } else { v.clone() }),
        None => Err(format!("Lowerer::program: `{s}` is not a vector of items this translator knows")),
    }
}

fn program_order(file: &syn::File) -> Result<Vec<&'static str>, String> {
    let f = find::func(file, "program", Some("Lowerer"))?;
    let mut env: HashMap<String, Vec<&'static str>> = HashMap::new();
    let n = f.block.stmts.len();
    for (i, st) in f.block.stmts.iter().enumerate() {
        match st {
            syn::Stmt::Local(l) => {
                let name = match &l.pat {
                    syn::Pat::Ident(p) => p.ident.to_string(),
                    p => return Err(format!("Lowerer::program: unrecognised binding `{}`", norm(p))),
                };
                let init = l.init.as_ref().ok_or("Lowerer::program: binding without initialiser")?;
                let v = vec_value(&init.expr, &mut env, true)?;
                env.insert(name, v);
            }
            // the loop that lowers the script's own items into a vector
            syn::Stmt::Expr(syn::Expr::ForLoop(fl), _) => {
                if norm(&fl.expr) != "mir.items" {
                    return Err(format!("Lowerer::program: unrecognised loop over `{}`", norm(&fl.expr)));
                }
                struct Push(Vec<String>, bool);
                impl<'ast> Visit<'ast> for Push {
                    fn visit_expr_method_call(&mut self, m: &'ast syn::ExprMethodCall) {
                        if m.method == "push" {
                            self.0.push(norm(&m.receiver));
                        }
                        syn::visit::visit_expr_method_call(self, m);
                    }
                    fn visit_expr_call(&mut self, c: &'ast syn::ExprCall) {
                        if norm(&c.func) == "Self::item" {
                            self.1 = true;
                        }
                        syn::visit::visit_expr_call(self, c);
                    }
                }
                let mut p = Push(vec![], false);
                p.visit_block(&fl.body);
                if p.0.len() != 1 || !p.1 {
                    return Err("Lowerer::program: the loop over mir.items is not `if let Some(f) = Self::item(..) { v.push(f) }`".into());
                }
                env.get_mut(&p.0[0])
                    .ok_or(format!("Lowerer::program: items pushed onto unknown vector `{}`", p.0[0]))?
                    .push("items");
            }
            syn::Stmt::Expr(syn::Expr::MethodCall(m), Some(_)) if m.method == "append" || m.method == "extend" => {
                if m.args.len() != 1 {
                    return Err(format!("Lowerer::program: `{}`", norm(m)));
                }
                let mut v = vec_value(&m.args[0], &mut env, true)?;
                let recv = norm(&m.receiver);
                env.get_mut(&recv)
                    .ok_or(format!("Lowerer::program: `{recv}` is not a vector of items this translator knows"))?
                    .append(&mut v);
            }
            syn::Stmt::Expr(syn::Expr::Struct(s), None) if i + 1 == n && norm(&s.path) == "Lir" => {
                let fld = s
                    .fields
                    .iter()
                    .find(|f| norm(&f.member) == "functions")
                    .ok_or("Lowerer::program: `Lir { .. }` without `functions`")?;
                return vec_value(&fld.expr, &mut env, false);
            }
            other => {
                return Err(format!(
                    "Lowerer::program: unrecognised statement `{}`",
                    norm(other).chars().take(120).collect::<String>()
                ));
            }
        }
    }
    Err("Lowerer::program does not end in `Lir { functions: … }`".into())
}

/// the recognised actions of one arm of the item loop, in source order, each with
/// the condition it is executed under: `always` (straight-line code of the arm),
/// `sizePositive` / `sizeZero` (under a test of the constant's layout size, also
/// when the test goes through a local `Option` made by `(cond).then(…)` or an
/// `if cond { Some(…) } else { None }`), `unknown` (any other `if` / `match` arm /
/// closure / loop / right operand of `&&`, `||`)
struct Acts {
    out: Vec<(&'static str, &'static str)>,
    guards: Vec<&'static str>,
    /// locals bound to an `Option` that is `Some` exactly under a guard
    env: HashMap<String, &'static str>,
    /// what every simple local of the arm was bound to (`let key = format!(…);` — a lookup
    /// key may be named before it is used)
    bound: HashMap<String, String>,
}

fn negate(g: &'static str) -> &'static str {
    match g {
        "sizePositive" => "sizeZero",
        "sizeZero" => "sizePositive",
        g => g,
    }
}

fn strip_parens(mut s: &str) -> &str {
    loop {
        if !(s.starts_with('(') && s.ends_with(')')) {
            return s;
        }
        // the first parenthesis must close at the very end
        let mut depth = 0i32;
        let mut closes_at_end = true;
        for (i, c) in s.char_indices() {
            match c {
                '(' => depth += 1,
                ')' => {
                    depth -= 1;
                    if depth == 0 && i + 1 != s.len() {
                        closes_at_end = false;
                        break;
                    }
                }
                _ => {}
            }
        }
        if !closes_at_end {
            return s;
        }
        s = &s[1..s.len() - 1];
    }
}

impl Acts {
    fn new() -> Self {
        Acts { out: vec![], guards: vec![], env: HashMap::new(), bound: HashMap::new() }
    }
    fn current(&self) -> &'static str {
        match self.guards.first() {
            None => "always",
            Some(g) if (*g == "sizePositive" || *g == "sizeZero") && self.guards.iter().all(|x| x == g) => g,
            Some(_) => "unknown",
        }
    }
    fn act(&mut self, a: &'static str) {
        let g = self.current();
        self.out.push((g, a));
    }
    fn classify(&self, e: &syn::Expr) -> &'static str {
        let full = norm(e);
        let s = strip_parens(&full);
        if let Some(r) = s.strip_prefix('!') {
            if !r.contains("&&") && !r.contains("||") {
                let inner: syn::Expr = match syn::parse_str(r) {
                    Ok(e) => e,
                    Err(_) => return "unknown",
                };
                return negate(self.classify(&inner));
            }
            return "unknown";
        }
        if s.contains("&&") || s.contains("||") {
            return "unknown";
        }
        // `let Some(x) = y` (also `&y`, `y.as_ref()`, `y.take()`)
        if let Some(rest) = s.strip_prefix("letSome(") {
            if let Some((_, src)) = rest.split_once(")=") {
                let src = src.trim_start_matches('&').trim_start_matches("mut");
                let src = src.trim_end_matches(".as_ref()").trim_end_matches(".take()").trim_end_matches(".as_mut()");
                return self.env.get(src).copied().unwrap_or("unknown");
            }
            return "unknown";
        }
        if let Some(x) = s.strip_suffix(".is_some()") {
            return self.env.get(x).copied().unwrap_or("unknown");
        }
        if let Some(x) = s.strip_suffix(".is_none()") {
            return negate(self.env.get(x).copied().unwrap_or("unknown"));
        }
        if s.contains("size") {
            if s.ends_with(">0") || s.ends_with("!=0") || s.ends_with(">=1") || s.starts_with("0<") || s.starts_with("0!=") {
                return "sizePositive";
            }
            if s.ends_with("==0") || s.starts_with("0==") || s.ends_with("<1") {
                return "sizeZero";
            }
        }
        "unknown"
    }
    fn under<F: FnOnce(&mut Self)>(&mut self, g: &'static str, f: F) {
        self.guards.push(g);
        f(self);
        self.guards.pop();
    }
}

impl<'ast> Visit<'ast> for Acts {
    fn visit_expr_method_call(&mut self, m: &'ast syn::ExprMethodCall) {
        // receiver first (source order), then this call
        self.visit_expr(&m.receiver);
        let recv = norm(&m.receiver);
        let name = m.method.to_string();
        // `(cond).then(|| …)`: the closure runs exactly under `cond`
        if name == "then" && m.args.len() == 1 {
            if let syn::Expr::Closure(c) = &m.args[0] {
                let g = self.classify(&m.receiver);
                self.under(g, |a| a.visit_expr(&c.body));
                return;
            }
        }
        match name.as_str() {
            "define_function" => self.act("define"),
            "finalize_definitions" => self.act("finalize"),
            "get_finalized_function" => self.act("getFinalized"),
            "get" if recv.ends_with(".functions") && {
                // the key: `&format!("::generated::drop_{type_id}")`, or a local bound to that
                let key = norm(&m.args);
                let via_local = self.bound.get(key.trim_start_matches('&')).cloned().unwrap_or_default();
                key.contains("::generated::drop_") || via_local.contains("::generated::drop_")
            } =>
            {
                self.act("lookupDrop")
            }
            "insert" if recv.ends_with(".roto_constants") => self.act("store"),
            _ => {}
        }
        for a in &m.args {
            self.visit_expr(a);
        }
    }
    fn visit_expr_call(&mut self, c: &'ast syn::ExprCall) {
        for a in &c.args {
            self.visit_expr(a);
        }
        // `(func_ptr)(constant.ptr)`: a call through a function pointer
        if let syn::Expr::Paren(_) = &*c.func {
            self.act("run");
        } else {
            self.visit_expr(&c.func);
        }
    }
    fn visit_local(&mut self, l: &'ast syn::Local) {
        if is_verif_cfg(&l.attrs) {
            return;
        }
        if let (syn::Pat::Ident(p), Some(init)) = (&l.pat, &l.init) {
            let g = match &*init.expr {
                syn::Expr::MethodCall(m) if m.method == "then" || m.method == "then_some" => Some(self.classify(&m.receiver)),
                syn::Expr::If(i) if i.else_branch.is_some() && norm(&i.then_branch).starts_with("{Some(") => Some(self.classify(&i.cond)),
                _ => None,
            };
            if let Some(g) = g {
                self.env.insert(p.ident.to_string(), g);
            }
            self.bound.insert(p.ident.to_string(), norm(&init.expr));
        }
        syn::visit::visit_local(self, l);
    }
    fn visit_expr_if(&mut self, i: &'ast syn::ExprIf) {
        self.visit_expr(&i.cond);
        let g = self.classify(&i.cond);
        self.under(g, |a| a.visit_block(&i.then_branch));
        if let Some((_, e)) = &i.else_branch {
            self.under(negate(g), |a| a.visit_expr(e));
        }
    }
    fn visit_expr_match(&mut self, m: &'ast syn::ExprMatch) {
        self.visit_expr(&m.expr);
        for arm in &m.arms {
            if m.arms.len() == 1 && arm.guard.is_none() {
                self.visit_expr(&arm.body);
            } else {
                self.under("unknown", |a| a.visit_arm(arm));
            }
        }
    }
    fn visit_expr_closure(&mut self, c: &'ast syn::ExprClosure) {
        self.under("unknown", |a| a.visit_expr(&c.body));
    }
    fn visit_expr_while(&mut self, w: &'ast syn::ExprWhile) {
        self.under("unknown", |a| syn::visit::visit_expr_while(a, w));
    }
    fn visit_expr_for_loop(&mut self, w: &'ast syn::ExprForLoop) {
        self.under("unknown", |a| syn::visit::visit_expr_for_loop(a, w));
    }
    fn visit_expr_loop(&mut self, w: &'ast syn::ExprLoop) {
        self.under("unknown", |a| syn::visit::visit_expr_loop(a, w));
    }
    fn visit_expr_binary(&mut self, b: &'ast syn::ExprBinary) {
        self.visit_expr(&b.left);
        if matches!(b.op, syn::BinOp::And(_) | syn::BinOp::Or(_)) {
            self.under("unknown", |a| a.visit_expr(&b.right));
        } else {
            self.visit_expr(&b.right);
        }
    }
}

fn lean_guarded(v: &[(&str, &str)]) -> String {
    format!("[{}]", v.iter().map(|(g, a)| format!("(.{g}, .{a})")).collect::<Vec<_>>().join(", "))
}

fn lean_list(v: &[&str]) -> String {
    format!("[{}]", v.iter().map(|x| format!(".{x}")).collect::<Vec<_>>().join(", "))
}

fn c14emit(repo: &Path) -> Result<String, String> {
    let lw = find::parse(repo, "src/lir/lower.rs")?;
    let cg = find::parse(repo, "src/codegen/mod.rs")?;
    let order = program_order(&lw)?;

    let f = find::func(&cg, "codegen", None)?;
    // statements of `codegen`: the declare loop must come before the define loop
    let mut declare_at = None;
    let mut define_at = None;
    let mut define_loop = None;
    for (i, st) in f.block.stmts.iter().enumerate() {
        if let syn::Stmt::Expr(syn::Expr::ForLoop(fl), _) = st {
            if norm(&fl.expr) == "ir" {
                let body = norm(&fl.body);
                if body.contains("declare_function(") && !body.contains("define_function(") {
                    declare_at.get_or_insert(i);
                } else if body.contains("define_function(") {
                    if define_at.is_some() {
                        return Err("codegen: more than one loop defines functions".into());
                    }
                    define_at = Some(i);
                    define_loop = Some(fl.clone());
                }
            }
        }
    }
    let (declare_at, define_at, define_loop) = match (declare_at, define_at, define_loop) {
        (Some(a), Some(b), Some(c)) => (a, b, c),
        _ => return Err("codegen: the `for … in ir` declare / define loops were not found".into()),
    };
    let ms = find::matches_on(&define_loop.body, "&item.kind");
    if ms.len() != 1 || define_loop.body.stmts.len() != 1 {
        return Err("codegen: the define loop is not a single `match &item.kind`".into());
    }
    let mut const_arm = None;
    let mut func_arm = None;
    for arm in &ms[0].arms {
        let p = norm(&arm.pat);
        let mut a = Acts::new();
        a.visit_expr(&arm.body);
        if arm.guard.is_some() {
            return Err("codegen: guarded arm in the define loop".into());
        }
        if p.starts_with("ItemKind::Constant") {
            const_arm = Some(a.out);
        } else if p.starts_with("ItemKind::Function") {
            func_arm = Some(a.out);
        } else {
            return Err(format!("codegen: unrecognised arm `{p}` in the define loop"));
        }
    }
    let const_arm = const_arm.ok_or("codegen: no ItemKind::Constant arm")?;
    let func_arm = func_arm.ok_or("codegen: no ItemKind::Function arm")?;
    // the tail is `module.finalize()`, which starts with `finalize_definitions`
    let tail = norm(find::tail_expr(&f.block)?);
    let fin = find::func(&cg, "finalize", Some("ModuleBuilder"))?;
    let fin_first = fin
        .block
        .stmts
        .first()
        .map(|s| norm(s).contains(".finalize_definitions()"))
        .unwrap_or(false);
    let finalize_at_end = tail == "module.finalize()" && fin_first;

    let mut s = String::new();
    s.push_str("/- GENERATED by /verif/extract (target c14emit) from src/lir/lower.rs, src/codegen/mod.rs — do not edit. -/\nimport RotoV.Model.TarjanInit\nnamespace RotoV.Gen.C14Emit\nopen RotoV.Tarjan\n\n");
    s.push_str("/-- `Lowerer::program`: the groups of `Lir.functions`, in emission order -/\n");
    s.push_str(&format!("def programOrder : List EmitGroup := {}\n\n", lean_list(&order)));
    s.push_str("/-- `codegen`: the loop declaring every item precedes the loop defining them -/\n");
    s.push_str(&format!("def declareAllFirst : Bool := {}\n\n", declare_at < define_at));
    s.push_str("/-- `codegen`, arm `ItemKind::Constant` of the define loop, in source order -/\n");
    let acts = |v: &[(&'static str, &'static str)]| v.iter().map(|x| x.1).collect::<Vec<_>>();
    s.push_str(&format!("def constantArm : List CgAct := {}\n\n", lean_list(&acts(&const_arm))));
    s.push_str("/-- arm `ItemKind::Function` -/\n");
    s.push_str(&format!("def functionArm : List CgAct := {}\n\n", lean_list(&acts(&func_arm))));
    s.push_str("/-- arm `ItemKind::Constant` again, every action with the condition it is executed under\n(`always`: straight-line code of the arm; `sizePositive` / `sizeZero`: under a test of the\nconstant's layout size; `unknown`: under any other condition, in a closure, in a loop) -/\n");
    s.push_str(&format!("def constantArmG : List (CgGuard × CgAct) := {}\n\n", lean_guarded(&const_arm)));
    s.push_str("/-- arm `ItemKind::Function`, likewise -/\n");
    s.push_str(&format!("def functionArmG : List (CgGuard × CgAct) := {}\n\n", lean_guarded(&func_arm)));
    s.push_str("/-- `codegen` ends in `module.finalize()`, which starts with `finalize_definitions` -/\n");
    s.push_str(&format!("def finalizeAtEnd : Bool := {finalize_at_end}\n"));
    s.push_str("\nend RotoV.Gen.C14Emit\n");
    Ok(s)
}

// ------------------------------------------------------------------ c14read

fn stmt_str(st: &syn::Stmt) -> String {
    norm(st).chars().take(160).collect()
}

/// the statements of an arm body (a block, or a single expression)
fn arm_stmts(arm: &syn::Arm) -> Vec<syn::Stmt> {
    match &*arm.body {
        syn::Expr::Block(b) => b.block.stmts.clone(),
        e => vec![syn::Stmt::Expr(e.clone(), None)],
    }
}

fn is_verif_cfg(attrs: &[syn::Attribute]) -> bool {
    attrs.iter().any(|a| norm(a).contains("verif-hooks"))
}

/// `Lowerer::path_value`, arm `ValueKind::Constant`
fn mir_read(file: &syn::File) -> Result<(Vec<&'static str>, Vec<&'static str>), String> {
    let f = find::func(file, "path_value", Some("Lowerer"))?;
    // the bindings the arm may use: the destructured argument and the converted root type
    let ms = find::matches_on(&f.block, "kind");
    if ms.len() != 1 {
        return Err(format!("path_value: {} `match kind` expressions", ms.len()));
    }
    let arm = find::arm_for(&ms[0], "Constant")?;
    if arm.guard.is_some() {
        return Err("path_value: guarded `ValueKind::Constant` arm".into());
    }
    const READ: &str = "Value::Constant(*name,root_ty)";
    let mut no_fields: Option<Vec<&'static str>> = None;
    let mut fields: Vec<&'static str> = vec![];
    let mut temp: Option<String> = None;
    let stmts = arm_stmts(arm);
    let n = stmts.len();
    for (i, st) in stmts.iter().enumerate() {
        match st {
            syn::Stmt::Local(l) if is_verif_cfg(&l.attrs) => {}
            // `if fields.is_empty() { return Value::Constant(*name, root_ty); }`
            syn::Stmt::Expr(syn::Expr::If(ife), _) if norm(&ife.cond) == "fields.is_empty()" => {
                if no_fields.is_some() || !fields.is_empty() || ife.else_branch.is_some() {
                    return Err(format!("path_value: unrecognised placement of `{}`", stmt_str(st)));
                }
                let mut acts = vec![];
                for s in &ife.then_branch.stmts {
                    let e = match s {
                        syn::Stmt::Expr(syn::Expr::Return(r), _) => r.expr.as_deref(),
                        syn::Stmt::Expr(e, None) => Some(e),
                        _ => None,
                    };
                    match e {
                        Some(e) if norm(e) == READ => acts.push("yieldConstant"),
                        _ => return Err(format!("path_value, constant without fields: unrecognised statement `{}`", stmt_str(s))),
                    }
                }
                no_fields = Some(acts);
            }
            // `let var = self.assign_to_var(Value::Constant(*name, root_ty), root_ty);`
            syn::Stmt::Local(l) => {
                let name = match &l.pat {
                    syn::Pat::Ident(p) if p.mutability.is_none() => p.ident.to_string(),
                    p => return Err(format!("path_value: unrecognised binding `{}`", norm(p))),
                };
                let init = norm(&l.init.as_ref().ok_or("path_value: binding without initialiser")?.expr);
                if init == format!("self.assign_to_var({READ},root_ty)") {
                    if temp.is_some() {
                        return Err("path_value: the constant is copied into more than one temporary".into());
                    }
                    temp = Some(name);
                    fields.push("tempFromConstant");
                } else if init.starts_with("fields.iter().map(") && init.ends_with(".collect()") && !init.contains("self.") {
                    // the projection: a pure function of the field list
                } else if init.strip_prefix("Self::").and_then(|r| r.strip_suffix("(fields)")).is_some_and(|helper| {
                    // … or that function by name: an associated function without `self` whose body is that chain
                    find::func(file, helper, Some("Lowerer")).is_ok_and(|h| {
                        let body = h.block.stmts.iter().map(|s| norm(s)).collect::<Vec<_>>().join(" ");
                        h.sig.receiver().is_none()
                            && h.sig.inputs.len() == 1
                            && h.block.stmts.len() == 1
                            && body.contains(".iter().map(")
                            && body.ends_with(".collect()")
                            && !body.contains("self")
                    })
                }) {
                } else {
                    return Err(format!("path_value, arm ValueKind::Constant: unrecognised statement `{}`", stmt_str(st)));
                }
            }
            // tail: `Value::Clone(Place { var, root_ty, projection })`
            syn::Stmt::Expr(e, None) if i + 1 == n => {
                let s = norm(e);
                let var = temp.clone().ok_or("path_value: the arm yields a value before copying the constant")?;
                let ok = s.starts_with("Value::Clone(Place{")
                    && (s.contains(&format!("{{{var},")) || s.contains(&format!("var:{var},")))
                    && !s.contains("self.");
                if !ok {
                    return Err(format!("path_value, arm ValueKind::Constant: unrecognised result `{}`", stmt_str(st)));
                }
                fields.push("yieldCloneOfTemp");
            }
            other => {
                return Err(format!("path_value, arm ValueKind::Constant: unrecognised statement `{}`", stmt_str(other)));
            }
        }
    }
    let no_fields = no_fields.ok_or("path_value: no `if fields.is_empty()` case in the ValueKind::Constant arm")?;
    Ok((no_fields, fields))
}

/// `Lowerer::assign` (LIR), arm `mir::Value::Constant(name, ty)`
fn lir_read(file: &syn::File) -> Result<Vec<&'static str>, String> {
    let f = find::func(file, "assign", Some("Lowerer"))?;
    let ms = find::matches_on(&f.block, "value");
    if ms.len() != 1 {
        return Err(format!("lir assign: {} `match value` expressions", ms.len()));
    }
    let arm = find::arm_for(&ms[0], "Constant")?;
    if norm(&arm.pat) != "mir::Value::Constant(name,ty)" || arm.guard.is_some() {
        return Err(format!("lir assign: unrecognised pattern `{}`", norm(&arm.pat)));
    }
    let mut acts = vec![];
    let mut ptr: Option<String> = None;
    for st in &arm_stmts(arm) {
        let s = norm(st);
        match st {
            syn::Stmt::Local(l) if is_verif_cfg(&l.attrs) => {}
            syn::Stmt::Local(l) if norm(&l.init.as_ref().map(|i| i.expr.clone()).ok_or("lir assign: binding without initialiser")?) == "self.new_tmp(IrType::Pointer)" => {
                ptr = Some(norm(&l.pat));
                acts.push("freshPointer");
            }
            syn::Stmt::Expr(syn::Expr::MethodCall(_), Some(_)) if ptr.as_ref().is_some_and(|p| s == format!("self.emit_constant_address({p}.clone(),name);")) => {
                acts.push("constantAddress");
            }
            syn::Stmt::Expr(syn::Expr::If(_), _)
                if ptr.as_ref().is_some_and(|p| {
                    s == format!("ifletSome(to)=to{{self.call_clone_of(to,Location::Pointer{{base:{p},offset:0,}},ty,);}}")
                        || s == format!("ifletSome(to)=to{{self.call_clone_of(to,Location::Pointer{{base:{p},offset:0}},ty);}}")
                }) =>
            {
                acts.push("cloneFromPointer");
            }
            syn::Stmt::Expr(syn::Expr::Return(r), _) if r.expr.is_none() => {}
            other => return Err(format!("lir assign, arm mir::Value::Constant: unrecognised statement `{}`", stmt_str(other))),
        }
    }
    // `emit_constant_address(to, name)` = `self.emit(Instruction::ConstantAddress { to, name })`
    let e = find::func(file, "emit_constant_address", Some("Lowerer"))?;
    let body: Vec<String> = e.block.stmts.iter().map(|s| norm(s)).collect();
    if body != ["self.emit(Instruction::ConstantAddress{to,name})"] {
        return Err(format!("emit_constant_address: unrecognised body `{}`", body.join(" ")));
    }
    Ok(acts)
}

/// code generator, arm `lir::Instruction::ConstantAddress { to, name }`
fn cg_addr(file: &syn::File) -> Result<Vec<&'static str>, String> {
    struct Arms(Vec<syn::Arm>);
    impl<'ast> Visit<'ast> for Arms {
        fn visit_arm(&mut self, a: &'ast syn::Arm) {
            if norm(&a.pat).starts_with("lir::Instruction::ConstantAddress{") {
                self.0.push(a.clone());
            }
            syn::visit::visit_arm(self, a);
        }
    }
    let mut a = Arms(vec![]);
    a.visit_file(file);
    if a.0.len() != 1 {
        return Err(format!("codegen: {} arms for lir::Instruction::ConstantAddress", a.0.len()));
    }
    let arm = &a.0[0];
    if norm(&arm.pat) != "lir::Instruction::ConstantAddress{to,name}" || arm.guard.is_some() {
        return Err(format!("codegen: unrecognised pattern `{}`", norm(&arm.pat)));
    }
    let mut acts = vec![];
    let mut seen_ptr = false;
    for st in &arm_stmts(arm) {
        match st {
            syn::Stmt::Local(l) if is_verif_cfg(&l.attrs) => {}
            syn::Stmt::Local(l) => {
                let name = norm(&l.pat);
                let init = &l.init.as_ref().ok_or("codegen ConstantAddress: binding without initialiser")?.expr;
                let s = norm(init);
                match name.as_str() {
                    "ptr" => {
                        // if let Some(p) = runtime_constants.get(name) { p.ptr() } else if let Some(c) = roto_constants.get(name) { c.ptr } else { ice!(…) }
                        let mut cur: &syn::Expr = init;
                        loop {
                            match cur {
                                syn::Expr::If(ife) => {
                                    let c = norm(&ife.cond);
                                    let then = ife.then_branch.stmts.iter().map(|s| norm(s)).collect::<Vec<_>>().join(" ");
                                    let bound = c.strip_prefix("letSome(").and_then(|r| r.split_once(")=")).map(|(b, r)| (b.to_string(), r.to_string()));
                                    match bound {
                                        Some((b, src)) if src == "self.module.runtime_constants.get(name)" && then == format!("{b}.ptr()") => acts.push("runtimeConstant"),
                                        Some((b, src)) if src == "self.module.roto_constants.get(name)" && then == format!("{b}.ptr") => acts.push("storedConstant"),
                                        _ => return Err(format!("codegen ConstantAddress: unrecognised source of the pointer `{c}` → `{then}`")),
                                    }
                                    match &ife.else_branch {
                                        Some((_, e)) => cur = e,
                                        None => return Err("codegen ConstantAddress: pointer lookup without a final else".into()),
                                    }
                                }
                                syn::Expr::Block(b) => {
                                    let t = b.block.stmts.iter().map(|s| norm(s)).collect::<Vec<_>>().join(" ");
                                    if t.starts_with("ice!(") {
                                        acts.push("ice");
                                        break;
                                    }
                                    return Err(format!("codegen ConstantAddress: unrecognised fallback `{t}`"));
                                }
                                e => return Err(format!("codegen ConstantAddress: unrecognised pointer expression `{}`", norm(e))),
                            }
                        }
                        seen_ptr = true;
                    }
                    "ty" if s == "self.module.cranelift_type(&IrType::Pointer)" => {}
                    "val" if seen_ptr && s == "self.ins().iconst(ty,ptrasusizeasi64)" => {}
                    "to" if s == "self.variable(to,ty)" => {}
                    _ => return Err(format!("codegen ConstantAddress: unrecognised statement `{}`", stmt_str(st))),
                }
            }
            syn::Stmt::Expr(e, Some(_)) if norm(e) == "self.def(to,val)" => {}
            other => return Err(format!("codegen ConstantAddress: unrecognised statement `{}`", stmt_str(other))),
        }
    }
    Ok(acts)
}

fn c14read(repo: &Path) -> Result<String, String> {
    let ml = find::parse(repo, "src/mir/lower.rs")?;
    let ll = find::parse(repo, "src/lir/lower.rs")?;
    let cg = find::parse(repo, "src/codegen/mod.rs")?;
    let (no_fields, fields) = mir_read(&ml)?;
    let lir = lir_read(&ll)?;
    let addr = cg_addr(&cg)?;
    let mut s = String::new();
    s.push_str("/- GENERATED by /verif/extract (target c14read) from src/mir/lower.rs, src/lir/lower.rs, src/codegen/mod.rs — do not edit. -/\nimport RotoV.Model.TarjanRead\nnamespace RotoV.Gen.C14Read\nopen RotoV.Tarjan\n\n");
    s.push_str("/-- `Lowerer::path_value`, arm `ValueKind::Constant`, case `fields.is_empty()` -/\n");
    s.push_str(&format!("def mirReadNoFields : List MirReadAct := {}\n\n", lean_list(&no_fields)));
    s.push_str("/-- … the rest of the arm (a path with fields) -/\n");
    s.push_str(&format!("def mirReadFields : List MirReadAct := {}\n\n", lean_list(&fields)));
    s.push_str("/-- `Lowerer::assign` (LIR), arm `mir::Value::Constant(name, ty)`; `emit_constant_address(to, name)` is `Instruction::ConstantAddress { to, name }` -/\n");
    s.push_str(&format!("def lirConstantAssign : List LirReadAct := {}\n\n", lean_list(&lir)));
    s.push_str("/-- code generator, arm `lir::Instruction::ConstantAddress { to, name }`: where the pointer comes from, in order -/\n");
    s.push_str(&format!("def cgConstantAddress : List CgAddrAct := {}\n", lean_list(&addr)));
    s.push_str("\nend RotoV.Gen.C14Read\n");
    Ok(s)
}


// ---------------------------------------------------------------------------
// c14edges: on which paths of `resolve_expression_path` the edge is recorded

#[derive(Clone, PartialEq, Debug)]
enum EdgeGuard {
    Never,
    Always,
    Kinds(Vec<String>),
}

impl EdgeGuard {
    fn meet(&self, o: &EdgeGuard) -> EdgeGuard {
        use EdgeGuard::*;
        match (self, o) {
            (Never, _) | (_, Never) => Never,
            (Always, x) | (x, Always) => x.clone(),
            (Kinds(a), Kinds(b)) => {
                let v: Vec<String> = a.iter().filter(|k| b.contains(k)).cloned().collect();
                if v.is_empty() { Never } else { Kinds(v) }
            }
        }
    }
    fn lean(&self) -> String {
        match self {
            EdgeGuard::Never => ".never".into(),
            EdgeGuard::Always => ".always".into(),
            EdgeGuard::Kinds(k) => format!(".kinds [{}]", k.iter().map(|x| format!(".{x}")).collect::<Vec<_>>().join(", ")),
        }
    }
}

const ADD_EDGE: &str = "self.references.add_edge(ctx.item,dec.name)";

struct EdgeWalk {
    arm: &'static str,
    exits: Vec<(&'static str, String, EdgeGuard)>,
}

/// does the expression mention `add_edge` or build a `ResolvedPath`?
fn mentions_edge_or_exit<T: ToTokens>(t: &T) -> bool {
    let s = norm(t);
    s.contains("add_edge") || s.contains("ResolvedPath::")
}

/// `ValueKind::Constant | ValueKind::Context(..)` ↦ [constant, context]
fn value_kinds(p: &syn::Pat) -> Option<Vec<String>> {
    let alts: Vec<&syn::Pat> = match p {
        syn::Pat::Or(o) => o.cases.iter().collect(),
        x => vec![x],
    };
    let mut out = vec![];
    for a in alts {
        let s = norm(a);
        let k = match s.as_str() {
            "ValueKind::Constant" => "constant",
            "ValueKind::Context(..)" | "ValueKind::Context(_)" => "context",
            "ValueKind::Local" => "localV",
            _ => return None,
        };
        out.push(k.to_string());
    }
    Some(out)
}

impl EdgeWalk {
    fn block(&mut self, b: &syn::Block, st: EdgeGuard) -> Result<EdgeGuard, String> {
        let mut st = st;
        for s in &b.stmts {
            st = self.stmt(s, st)?;
        }
        Ok(st)
    }

    fn stmt(&mut self, s: &syn::Stmt, st: EdgeGuard) -> Result<EdgeGuard, String> {
        match s {
            syn::Stmt::Local(l) => {
                if is_verif_cfg(&l.attrs) {
                    return Ok(st);
                }
                let mut st = st;
                if let Some(init) = &l.init {
                    st = self.expr(&init.expr, st)?;
                    if let Some((_, div)) = &init.diverge {
                        // `let … else { … }`: the else block leaves the function
                        self.expr(div, st.clone())?;
                    }
                }
                Ok(st)
            }
            syn::Stmt::Expr(e, _) => self.expr(e, st),
            syn::Stmt::Macro(m) => {
                if mentions_edge_or_exit(&m.mac.tokens) {
                    return Err(format!("resolve_expression_path: `{}` inside a macro", norm(&m.mac)));
                }
                Ok(st)
            }
            syn::Stmt::Item(_) => Ok(st),
        }
    }

    fn expr(&mut self, e: &syn::Expr, st: EdgeGuard) -> Result<EdgeGuard, String> {
        if !mentions_edge_or_exit(e) {
            return Ok(st);
        }
        match e {
            syn::Expr::MethodCall(m) if m.method == "add_edge" => {
                if is_verif_cfg(&m.attrs) {
                    return Ok(st);
                }
                if norm(m) == ADD_EDGE {
                    Ok(EdgeGuard::Always)
                } else {
                    Err(format!("resolve_expression_path: edge `{}` is not from the current item to the resolved declaration", norm(m)))
                }
            }
            syn::Expr::Return(r) => match &r.expr {
                Some(x) => self.expr(x, st),
                None => Ok(st),
            },
            syn::Expr::Paren(p) => self.expr(&p.expr, st),
            syn::Expr::Call(c) if norm(&c.func) == "Ok" && c.args.len() == 1 => {
                let a = norm(&c.args[0]);
                match a.strip_prefix("ResolvedPath::") {
                    Some(rest) => {
                        let ctor: String = rest.chars().take_while(|ch| ch.is_alphanumeric() || *ch == '_').collect();
                        self.exits.push((self.arm, ctor, st.clone()));
                        Ok(st)
                    }
                    None => Err(format!("resolve_expression_path: `{a}` returned in a form the translator does not know")),
                }
            }
            syn::Expr::Call(c) if norm(&c.func) == "Err" => Ok(st),
            syn::Expr::Block(b) => self.block(&b.block, st),
            syn::Expr::If(i) => {
                // the kind test: `if let ValueKind::… | … = kind { add_edge }`
                if let syn::Expr::Let(l) = &*i.cond {
                    if let Some(kinds) = value_kinds(&l.pat) {
                        let sc = norm(&l.expr);
                        if (sc == "kind" || sc == "*kind") && i.else_branch.is_none() {
                            let inner = self.block(&i.then_branch, st.clone())?;
                            return Ok(match (&st, &inner) {
                                (EdgeGuard::Never, EdgeGuard::Always) => EdgeGuard::Kinds(kinds),
                                (EdgeGuard::Kinds(k0), EdgeGuard::Always) => {
                                    let mut v = k0.clone();
                                    for k in kinds {
                                        if !v.contains(&k) {
                                            v.push(k);
                                        }
                                    }
                                    EdgeGuard::Kinds(v)
                                }
                                _ => st.meet(&inner),
                            });
                        }
                    }
                }
                if mentions_edge_or_exit(&i.cond) {
                    return Err(format!("resolve_expression_path: condition `{}`", norm(&i.cond)));
                }
                let a = self.block(&i.then_branch, st.clone())?;
                let b = match &i.else_branch {
                    Some((_, x)) => self.expr(x, st.clone())?,
                    None => st.clone(),
                };
                Ok(a.meet(&b))
            }
            syn::Expr::While(w) => {
                if mentions_edge_or_exit(&w.cond) {
                    return Err(format!("resolve_expression_path: loop condition `{}`", norm(&w.cond)));
                }
                let a = self.block(&w.body, st.clone())?;
                Ok(st.meet(&a))
            }
            syn::Expr::ForLoop(f) => {
                let a = self.block(&f.body, st.clone())?;
                Ok(st.meet(&a))
            }
            syn::Expr::Loop(l) => {
                let a = self.block(&l.body, st.clone())?;
                Ok(st.meet(&a))
            }
            syn::Expr::Match(m) => {
                if mentions_edge_or_exit(&m.expr) {
                    return Err(format!("resolve_expression_path: match on `{}`", norm(&m.expr)));
                }
                let mut out: Option<EdgeGuard> = None;
                for a in &m.arms {
                    let x = self.expr(&a.body, st.clone())?;
                    out = Some(match out {
                        None => x,
                        Some(o) => o.meet(&x),
                    });
                }
                Ok(out.unwrap_or(st))
            }
            other => Err(format!(
                "resolve_expression_path: `{}` records an edge or builds the result in a position the translator does not know",
                norm(other)
            )),
        }
    }
}

fn edge_exits(file: &syn::File) -> Result<Vec<(&'static str, String, EdgeGuard)>, String> {
    let f = find::func(file, "resolve_expression_path", None)?;
    let ms = find::matches_on(&f.block, "&dec.kind");
    if ms.len() != 1 {
        return Err(format!("resolve_expression_path: {} matches on `&dec.kind`", ms.len()));
    }
    // no edge may be recorded outside the match (it would not know the declaration kind)
    for st in &f.block.stmts {
        let is_match = matches!(st, syn::Stmt::Expr(syn::Expr::Match(m), _) if norm(&m.expr) == "&dec.kind");
        if !is_match && norm(st).contains("add_edge") {
            return Err("resolve_expression_path: add_edge outside `match &dec.kind`".into());
        }
    }
    let mut exits = vec![];
    for arm in &ms[0].arms {
        let p = norm(&arm.pat);
        let name: &'static str = if p.contains("DeclarationKind::Function(Some") || p.contains("DeclarationKind::Method(Some") {
            "function"
        } else if p.starts_with("DeclarationKind::Value(") {
            "value"
        } else if p.contains("DeclarationKind::Enum(Some") {
            "enumCtor"
        } else {
            "other"
        };
        let mut w = EdgeWalk { arm: name, exits: vec![] };
        w.expr(&arm.body, EdgeGuard::Never)?;
        if name == "other" && !w.exits.is_empty() {
            return Err(format!("resolve_expression_path: arm `{p}` yields a value; the translator does not know this declaration kind"));
        }
        exits.extend(w.exits);
    }
    Ok(exits)
}

fn c14edges(repo: &Path) -> Result<String, String> {
    let ex = find::parse(repo, "src/typechecker/expr.rs")?;
    let exits = edge_exits(&ex)?;
    let res_name = |c: &str| -> Result<&'static str, String> {
        Ok(match c {
            "Function" => "function",
            "Method" => "method",
            "Value" => "value",
            "StaticMethod" => "staticMethod",
            "EnumConstructor" => "enumCtor",
            x => return Err(format!("resolve_expression_path: unknown result `ResolvedPath::{x}`")),
        })
    };
    let mut rows = vec![];
    for (arm, ctor, g) in &exits {
        rows.push(format!("  ⟨.{}, .{}, {}⟩", arm, res_name(ctor)?, g.lean()));
    }
    let mut s = String::new();
    s.push_str("/- GENERATED by /verif/extract (target c14edges) from src/typechecker/expr.rs — do not edit. -/
import RotoV.Model.TarjanEdges
namespace RotoV.Gen.C14Edges
open RotoV.TarjanEdges

");
    s.push_str("/-- `resolve_expression_path`: every exit `Ok(ResolvedPath::…)` of every arm of `match &dec.kind`, in source order, with the condition under which `self.references.add_edge(ctx.item, dec.name)` has run before it -/
");
    s.push_str(&format!("def exits : List Exit := [\n{}\n]\n", rows.join(",\n")));
    s.push_str("\nend RotoV.Gen.C14Edges\n");
    Ok(s)
}


// ---------------------------------------------------------------------------
// c14ctx: `context_check` / `determine_uses_context` as guarded steps

/// `norm` without the trailing commas rustfmt puts into broken-up argument lists
fn normc<T: ToTokens>(t: &T) -> String {
    norm(t).replace(",)", ")").replace(",}", "}")
}

/// does `e` test `dec.kind` for `ValueKind::<which>` — as a pattern, or through a private
/// predicate `fn p(dec) -> bool` of the file whose body is that pattern?
fn is_kind_test(file: &syn::File, e: &str, which: &str) -> bool {
    let pat = format!("DeclarationKind::Value(ValueKind::{which}");
    if e.contains(&pat) && e.contains("=dec.kind") {
        return true;
    }
    // `is_constant(&dec)` / `Self::is_constant(dec)` / `dec.is_constant()`
    for name in ident_calls(e) {
        if let Ok(f) = find::func(file, &name, None) {
            let b = normc(&f.block);
            if b.contains(&pat) && !b.contains("add_edge") && f.block.stmts.len() == 1 {
                return true;
            }
        }
    }
    false
}

/// identifiers followed by `(` in a normalised expression
fn ident_calls(e: &str) -> Vec<String> {
    let mut out = vec![];
    let b = e.as_bytes();
    let mut i = 0;
    while i < b.len() {
        if b[i].is_ascii_alphabetic() || b[i] == b'_' {
            let st = i;
            while i < b.len() && (b[i].is_ascii_alphanumeric() || b[i] == b'_') {
                i += 1;
            }
            if i < b.len() && b[i] == b'(' {
                out.push(e[st..i].to_string());
            }
        } else {
            i += 1;
        }
    }
    out
}

fn ctx_action(s: &syn::Stmt) -> Result<Option<&'static str>, String> {
    let n = normc(s);
    let n = n.trim_end_matches(';');
    Ok(Some(match n {
        "return*b" => "returnCached",
        "returntrue" | "true" => "returnTrue",
        "returnfalse" | "false" => "returnFalse",
        "uses_context.insert(*name,true)" => "insertTrue",
        "uses_context.insert(*name,false)" => "insertFalse",
        "visited.insert(*name)" => "markVisited",
        "returnErr(self.error_constant_uses_context(dec.name.ident,dec.id))" => "errUsesContext",
        "Ok(())" => "returnOk",
        "letdec=self.type_info.scope_graph.get_declaration(*name)" => return Ok(None),
        "letmutvisited=BTreeSet::new()" | "letmutuses_context=BTreeMap::new()" => return Ok(None),
        _ => return Err(format!("context check: statement `{n}` is not one the translator knows")),
    }))
}

fn ctx_steps(file: &syn::File, b: &syn::Block, out: &mut Vec<String>) -> Result<(), String> {
    for st in &b.stmts {
        match st {
            syn::Stmt::Local(l) if is_verif_cfg(&l.attrs) => {}
            syn::Stmt::Expr(syn::Expr::If(i), _) => {
                if i.else_branch.is_some() {
                    return Err(format!("context check: `if … else` `{}`", norm(&i.cond)));
                }
                let c = normc(&i.cond);
                let recurses = c.contains("self.determine_uses_context(");
                let cond = if c == "letSome(b)=uses_context.get(name)" {
                    "cached"
                } else if c == "visited.contains(name)" {
                    "onStack"
                } else if recurses && c.ends_with("self.determine_uses_context(&mutuses_context,&mutvisited,name)") && is_kind_test(file, &c, "Constant") {
                    "constAndUses"
                } else if c == "self.determine_uses_context(uses_context,visited,reference)" {
                    "recurse"
                } else if !recurses && is_kind_test(file, &c, "Context") {
                    "isCtx"
                } else {
                    return Err(format!("context check: condition `{c}` is not one the translator knows"));
                };
                let mut acts = vec![];
                for s2 in &i.then_branch.stmts {
                    if let Some(a) = ctx_action(s2)? {
                        acts.push(format!(".{a}"));
                    }
                }
                out.push(format!(".guard .{cond} [{}]", acts.join(", ")));
            }
            syn::Stmt::Expr(syn::Expr::ForLoop(f), _) => {
                let it = normc(&f.expr);
                let pat = norm(&f.pat);
                let kind = if it == "self.references.references.get(name).into_iter().flatten()" && pat == "reference" {
                    "forRefs"
                } else if it == "self.references.references.keys()" && pat == "name" {
                    "forKeys"
                } else {
                    return Err(format!("context check: loop `for {pat} in {it}`"));
                };
                let mut inner = vec![];
                ctx_steps(file, &f.body, &mut inner)?;
                out.push(format!(".{kind} [{}]", inner.join(", ")));
            }
            other => {
                if let Some(a) = ctx_action(other)? {
                    out.push(format!(".act .{a}"));
                }
            }
        }
    }
    Ok(())
}

fn c14ctx(repo: &Path) -> Result<String, String> {
    let file = find::parse(repo, "src/typechecker/value_cycle.rs")?;
    let cc = find::func(&file, "context_check", None)?;
    let du = find::func(&file, "determine_uses_context", None)?;
    if cc.sig.inputs.len() != 1 {
        return Err("context_check: takes more than `&self` (the model's check looks at the reference graph only)".into());
    }
    let mut check = vec![];
    ctx_steps(&file, &cc.block, &mut check)?;
    let mut det = vec![];
    ctx_steps(&file, &du.block, &mut det)?;
    // where it is called from: after the two cycle tests, before the order is returned
    let fco = find::func(&file, "find_compilation_order", None)?;
    let stmts: Vec<String> = fco.block.stmts.iter().map(|s| normc(s)).collect();
    let pos_tarjan = stmts.iter().position(|s| s.contains("=tarjan(&self.references.references)"));
    let pos_check = stmts.iter().position(|s| s == "self.context_check()?;");
    let last = stmts.last().cloned().unwrap_or_default();
    let called = match (pos_tarjan, pos_check) {
        (Some(a), Some(b)) if a < b && b + 2 == stmts.len() && last == "Ok(components.into_iter().flatten().collect())" => true,
        _ => return Err("find_compilation_order: `self.context_check()?;` is not the last step before `Ok(components.into_iter().flatten().collect())`".into()),
    };
    let mut s = String::new();
    s.push_str("/- GENERATED by /verif/extract (target c14ctx) from src/typechecker/value_cycle.rs — do not edit. -/\nimport RotoV.Model.TarjanCtxShape\nnamespace RotoV.Gen.C14Ctx\nopen RotoV.TarjanCtxShape\n\n");
    s.push_str("/-- `context_check`, statement by statement -/\n");
    s.push_str(&format!("def checkSteps : List Step := [\n  {}\n]\n\n", check.join(",\n  ")));
    s.push_str("/-- `determine_uses_context`, statement by statement -/\n");
    s.push_str(&format!("def determineSteps : List Step := [\n  {}\n]\n\n", det.join(",\n  ")));
    s.push_str("/-- `find_compilation_order` ends with `self.context_check()?; Ok(components.into_iter().flatten().collect())`, after `tarjan` -/\n");
    s.push_str(&format!("def checkedBeforeOrderReturned : Bool := {called}\n"));
    s.push_str("\nend RotoV.Gen.C14Ctx\n");
    Ok(s)
}


// ---------------------------------------------------------------------------
// c14scc: `find_compilation_order`, `tarjan`, `strongly_connect`, `update_lowlink` as nested steps

fn scc_action(n: &str) -> Result<Option<&'static str>, String> {
    Ok(Some(match n {
        "letindex=state.next_index" => "takeIndex",
        "state.next_index+=1" => "bumpIndex",
        "state.vertices.insert(v,VertexState{index,lowlink:index})" => "insertVertex",
        "state.stack.push(v)" => "pushV",
        "strongly_connect(references,state,*w)" => "recurse",
        "letnew=state.vertices[w].lowlink" => "newFromLowlink",
        "letnew=state.vertices[w].index" => "newFromIndex",
        "state.update_lowlink(v,new)" => "updateLowlink",
        "letmutcomponent=Vec::new()" => "newComponent",
        "component.push(w)" => "componentPush",
        "break" => "breakLoop",
        "state.components.push(component)" => "pushComponent",
        "letcurrent=&mutself.vertices.get_mut(&v).unwrap().lowlink" => "takeLowlink",
        "*current=(*current).min(new)" => "minAssign",
        "letmutstate=State::<V>::new()" => "newState",
        "strongly_connect(edges,&mutstate,*v)" => "recurseTop",
        "state.components" => "returnComponents",
        "returnErr(self.error_recursive_constant(dec.name.ident,dec.id))" => "errRecursive",
        "letcomponents=tarjan(&self.references.references)" => "callTarjan",
        "self.context_check()?" => "callContextCheck",
        "Ok(components.into_iter().flatten().collect())" => "returnFlattened",
        // pure lookups
        "letv_state=&state.vertices[&v]" | "letdec=self.type_info.scope_graph.get_declaration(*name)" => return Ok(None),
        _ => return Err(format!("order / SCC pass: statement `{n}` is not one the translator knows")),
    }))
}

fn scc_cond(file: &syn::File, c: &str) -> Result<&'static str, String> {
    Ok(match c {
        "!state.vertices.contains_key(w)" => "unvisited",
        "!state.vertices.contains_key(v)" => "unvisitedTop",
        "state.stack.contains(w)" => "onStack",
        "v_state.index==v_state.lowlink" => "isRoot",
        "w==v" | "v==w" => "isV",
        "component.len()>1" => "lenGt1",
        _ if c.ends_with("&&refs.contains(name)") && is_kind_test(file, c, "Constant") => "constAndSelfRef",
        _ if !c.contains("&&") && !c.contains("||") && is_kind_test(file, c, "Constant") => "isConst",
        _ => return Err(format!("order / SCC pass: condition `{c}` is not one the translator knows")),
    })
}

fn scc_if(file: &syn::File, i: &syn::ExprIf) -> Result<String, String> {
    let c = scc_cond(file, &normc(&i.cond))?;
    let mut th = vec![];
    scc_steps(file, &i.then_branch, &mut th)?;
    let el = match &i.else_branch {
        None => String::new(),
        Some((_, e)) => match &**e {
            syn::Expr::If(i2) => scc_if(file, i2)?,
            syn::Expr::Block(b) => {
                let mut v = vec![];
                scc_steps(file, &b.block, &mut v)?;
                v.join(", ")
            }
            x => return Err(format!("order / SCC pass: else `{}`", normc(x))),
        },
    };
    Ok(format!(".ite .{c} [{}] [{}]", th.join(", "), el))
}

fn scc_steps(file: &syn::File, b: &syn::Block, out: &mut Vec<String>) -> Result<(), String> {
    for st in &b.stmts {
        match st {
            syn::Stmt::Local(l) if is_verif_cfg(&l.attrs) => {}
            syn::Stmt::Expr(e, _) if matches!(e, syn::Expr::MethodCall(m) if is_verif_cfg(&m.attrs)) => {}
            syn::Stmt::Expr(syn::Expr::If(i), _) => out.push(scc_if(file, i)?),
            syn::Stmt::Expr(syn::Expr::ForLoop(f), _) => {
                let head = format!("for {} in {}", normc(&f.pat), normc(&f.expr));
                let kind = match head.as_str() {
                    "for w in references.get(&v).into_iter().flatten()" => "forRefs",
                    "for v in edges.keys()" => "forKeys",
                    "for (name,refs) in &self.references.references" => "forEdges",
                    "for component in &components" => "forComponents",
                    "for name in component" => "forMembers",
                    _ => return Err(format!("order / SCC pass: loop `{head}`")),
                };
                let mut inner = vec![];
                scc_steps(file, &f.body, &mut inner)?;
                out.push(format!(".{kind} [{}]", inner.join(", ")));
            }
            syn::Stmt::Expr(syn::Expr::While(w), _) => {
                if normc(&w.cond) != "letSome(w)=state.stack.pop()" {
                    return Err(format!("order / SCC pass: loop `while {}`", normc(&w.cond)));
                }
                let mut inner = vec![];
                scc_steps(file, &w.body, &mut inner)?;
                out.push(format!(".whilePop [{}]", inner.join(", ")));
            }
            other => {
                let n = normc(other);
                if let Some(a) = scc_action(n.trim_end_matches(';'))? {
                    out.push(format!(".act .{a}"));
                }
            }
        }
    }
    Ok(())
}

fn c14scc(repo: &Path) -> Result<String, String> {
    let file = find::parse(repo, "src/typechecker/value_cycle.rs")?;
    let mut s = String::new();
    s.push_str("/- GENERATED by /verif/extract (target c14scc) from src/typechecker/value_cycle.rs — do not edit. -/\nimport RotoV.Model.TarjanSccShape\nnamespace RotoV.Gen.C14Scc\nopen RotoV.TarjanSccShape\n\n");
    for (fname, imp, def) in [
        ("find_compilation_order", None, "orderSteps"),
        ("tarjan", None, "tarjanSteps"),
        ("strongly_connect", None, "strongConnectSteps"),
        ("update_lowlink", Some("State"), "updateLowlinkSteps"),
    ] {
        let f = find::func(&file, fname, imp)?;
        let mut v = vec![];
        scc_steps(&file, &f.block, &mut v)?;
        s.push_str(&format!("/-- `{fname}`, statement by statement -/\ndef {def} : List Step := [\n  {}\n]\n\n", v.join(",\n  ")));
    }
    s.push_str("end RotoV.Gen.C14Scc\n");
    Ok(s)
}
