//! Translator targets owned by property C14.
//!
//! `c14emit` → `Generated/C14Emit.lean`: the statement-level facts the model's
//! item loop over the lowered list (`Model/TarjanLir`) rests on:
//!  * `Lowerer::program` (src/lir/lower.rs): in which order the groups of items
//!    — generated clone / drop / eq functions, the script's own items — are put
//!    into the vector that becomes `Lir.functions` (`programOrder`);
//!  * `codegen` (src/codegen/mod.rs): every item is declared before the first
//!    one is defined (`declareAllFirst`), and what the two arms of the
//!    `for item in ir { match &item.kind … }` loop do, in source order
//!    (`constantArm`, `functionArm`), and that `ModuleBuilder::finalize` starts
//!    with `finalize_definitions` (`finalizeAtEnd`).
//! Shapes that are not recognised are extraction failures, never defaults.
#[allow(unused_imports)]
use super::{Gen, Target};
use crate::find;
use quote::ToTokens;
use std::collections::HashMap;
use std::path::Path;
use syn::visit::Visit;

pub const TARGETS: &[Target] = &[("c14emit", "C14Emit", c14emit as Gen)];

fn norm<T: ToTokens>(t: &T) -> String {
    t.to_token_stream().to_string().replace(' ', "")
}

/// `Self::generate_clones(ctx)` ↦ `clones`, …
fn generated_group(e: &syn::Expr) -> Option<&'static str> {
    let s = norm(e);
    match s.as_str() {
        "Self::generate_clones(ctx)" => Some("clones"),
        "Self::generate_drops(ctx)" => Some("drops"),
        "Self::generate_eqs(ctx)" => Some("eqs"),
        _ => None,
    }
}

/// the groups a vector-valued expression stands for
fn vec_value(e: &syn::Expr, env: &mut HashMap<String, Vec<&'static str>>, take: bool) -> Result<Vec<&'static str>, String> {
    if let Some(g) = generated_group(e) {
        return Ok(vec![g]);
    }
    let s = norm(e);
    if s == "Vec::new()" {
        return Ok(vec![]);
    }
    // `x`, `&mut x`
    let name = s.trim_start_matches("&mut").to_string();
    match env.get_mut(&name) {
        Some(v) => Ok(if take { std::mem::take(v) } else { v.clone() }),
        None => Err(format!("Lowerer::program: `{s}` is not a vector of items this translator knows")),
    }
}

fn program_order(file: &syn::File) -> Result<Vec<&'static str>, String> {
    let f = find::func(file, "program", Some("Lowerer"))?;
    let mut env: HashMap<String, Vec<&'static str>> = HashMap::new();
    let n = f.block.stmts.len();
    for (i, st) in f.block.stmts.iter().enumerate() {
        match st {
            syn::Stmt::Local(l) => {
                let name = match &l.pat {
                    syn::Pat::Ident(p) => p.ident.to_string(),
                    p => return Err(format!("Lowerer::program: unrecognised binding `{}`", norm(p))),
                };
                let init = l.init.as_ref().ok_or("Lowerer::program: binding without initialiser")?;
                let v = vec_value(&init.expr, &mut env, true)?;
                env.insert(name, v);
            }
            // the loop that lowers the script's own items into a vector
            syn::Stmt::Expr(syn::Expr::ForLoop(fl), _) => {
                if norm(&fl.expr) != "mir.items" {
                    return Err(format!("Lowerer::program: unrecognised loop over `{}`", norm(&fl.expr)));
                }
                struct Push(Vec<String>, bool);
                impl<'ast> Visit<'ast> for Push {
                    fn visit_expr_method_call(&mut self, m: &'ast syn::ExprMethodCall) {
                        if m.method == "push" {
                            self.0.push(norm(&m.receiver));
                        }
                        syn::visit::visit_expr_method_call(self, m);
                    }
                    fn visit_expr_call(&mut self, c: &'ast syn::ExprCall) {
                        if norm(&c.func) == "Self::item" {
                            self.1 = true;
                        }
                        syn::visit::visit_expr_call(self, c);
                    }
                }
                let mut p = Push(vec![], false);
                p.visit_block(&fl.body);
                if p.0.len() != 1 || !p.1 {
                    return Err("Lowerer::program: the loop over mir.items is not `if let Some(f) = Self::item(..) { v.push(f) }`".into());
                }
                env.get_mut(&p.0[0])
                    .ok_or(format!("Lowerer::program: items pushed onto unknown vector `{}`", p.0[0]))?
                    .push("items");
            }
            syn::Stmt::Expr(syn::Expr::MethodCall(m), Some(_)) if m.method == "append" || m.method == "extend" => {
                if m.args.len() != 1 {
                    return Err(format!("Lowerer::program: `{}`", norm(m)));
                }
                let mut v = vec_value(&m.args[0], &mut env, true)?;
                let recv = norm(&m.receiver);
                env.get_mut(&recv)
                    .ok_or(format!("Lowerer::program: `{recv}` is not a vector of items this translator knows"))?
                    .append(&mut v);
            }
            syn::Stmt::Expr(syn::Expr::Struct(s), None) if i + 1 == n && norm(&s.path) == "Lir" => {
                let fld = s
                    .fields
                    .iter()
                    .find(|f| norm(&f.member) == "functions")
                    .ok_or("Lowerer::program: `Lir { .. }` without `functions`")?;
                return vec_value(&fld.expr, &mut env, false);
            }
            other => {
                return Err(format!(
                    "Lowerer::program: unrecognised statement `{}`",
                    norm(other).chars().take(120).collect::<String>()
                ));
            }
        }
    }
    Err("Lowerer::program does not end in `Lir { functions: … }`".into())
}

/// the recognised actions of one arm of the item loop, in source order
struct Acts(Vec<&'static str>);
impl<'ast> Visit<'ast> for Acts {
    fn visit_expr_method_call(&mut self, m: &'ast syn::ExprMethodCall) {
        // receiver first (source order), then this call
        self.visit_expr(&m.receiver);
        let recv = norm(&m.receiver);
        let name = m.method.to_string();
        match name.as_str() {
            "define_function" => self.0.push("define"),
            "finalize_definitions" => self.0.push("finalize"),
            "get_finalized_function" => self.0.push("getFinalized"),
            "get" if recv.ends_with(".functions") && norm(&m.args).contains("::generated::drop_") => self.0.push("lookupDrop"),
            "insert" if recv.ends_with(".roto_constants") => self.0.push("store"),
            _ => {}
        }
        for a in &m.args {
            self.visit_expr(a);
        }
    }
    fn visit_expr_call(&mut self, c: &'ast syn::ExprCall) {
        for a in &c.args {
            self.visit_expr(a);
        }
        // `(func_ptr)(constant.ptr)`: a call through a function pointer
        if let syn::Expr::Paren(_) = &*c.func {
            self.0.push("run");
        } else {
            self.visit_expr(&c.func);
        }
    }
}

fn lean_list(v: &[&str]) -> String {
    format!("[{}]", v.iter().map(|x| format!(".{x}")).collect::<Vec<_>>().join(", "))
}

fn c14emit(repo: &Path) -> Result<String, String> {
    let lw = find::parse(repo, "src/lir/lower.rs")?;
    let cg = find::parse(repo, "src/codegen/mod.rs")?;
    let order = program_order(&lw)?;

    let f = find::func(&cg, "codegen", None)?;
    // statements of `codegen`: the declare loop must come before the define loop
    let mut declare_at = None;
    let mut define_at = None;
    let mut define_loop = None;
    for (i, st) in f.block.stmts.iter().enumerate() {
        if let syn::Stmt::Expr(syn::Expr::ForLoop(fl), _) = st {
            if norm(&fl.expr) == "ir" {
                let body = norm(&fl.body);
                if body.contains("declare_function(") && !body.contains("define_function(") {
                    declare_at.get_or_insert(i);
                } else if body.contains("define_function(") {
                    if define_at.is_some() {
                        return Err("codegen: more than one loop defines functions".into());
                    }
                    define_at = Some(i);
                    define_loop = Some(fl.clone());
                }
            }
        }
    }
    let (declare_at, define_at, define_loop) = match (declare_at, define_at, define_loop) {
        (Some(a), Some(b), Some(c)) => (a, b, c),
        _ => return Err("codegen: the `for … in ir` declare / define loops were not found".into()),
    };
    let ms = find::matches_on(&define_loop.body, "&item.kind");
    if ms.len() != 1 || define_loop.body.stmts.len() != 1 {
        return Err("codegen: the define loop is not a single `match &item.kind`".into());
    }
    let mut const_arm = None;
    let mut func_arm = None;
    for arm in &ms[0].arms {
        let p = norm(&arm.pat);
        let mut a = Acts(vec![]);
        a.visit_expr(&arm.body);
        if arm.guard.is_some() {
            return Err("codegen: guarded arm in the define loop".into());
        }
        if p.starts_with("ItemKind::Constant") {
            const_arm = Some(a.0);
        } else if p.starts_with("ItemKind::Function") {
            func_arm = Some(a.0);
        } else {
            return Err(format!("codegen: unrecognised arm `{p}` in the define loop"));
        }
    }
    let const_arm = const_arm.ok_or("codegen: no ItemKind::Constant arm")?;
    let func_arm = func_arm.ok_or("codegen: no ItemKind::Function arm")?;
    // the tail is `module.finalize()`, which starts with `finalize_definitions`
    let tail = norm(find::tail_expr(&f.block)?);
    let fin = find::func(&cg, "finalize", Some("ModuleBuilder"))?;
    let fin_first = fin
        .block
        .stmts
        .first()
        .map(|s| norm(s).contains(".finalize_definitions()"))
        .unwrap_or(false);
    let finalize_at_end = tail == "module.finalize()" && fin_first;

    let mut s = String::new();
    s.push_str("/- GENERATED by /verif/extract (target c14emit) from src/lir/lower.rs, src/codegen/mod.rs — do not edit. -/\nimport RotoV.Model.TarjanLir\nnamespace RotoV.Gen.C14Emit\nopen RotoV.Tarjan\n\n");
    s.push_str("/-- `Lowerer::program`: the groups of `Lir.functions`, in emission order -/\n");
    s.push_str(&format!("def programOrder : List EmitGroup := {}\n\n", lean_list(&order)));
    s.push_str("/-- `codegen`: the loop declaring every item precedes the loop defining them -/\n");
    s.push_str(&format!("def declareAllFirst : Bool := {}\n\n", declare_at < define_at));
    s.push_str("/-- `codegen`, arm `ItemKind::Constant` of the define loop, in source order -/\n");
    s.push_str(&format!("def constantArm : List CgAct := {}\n\n", lean_list(&const_arm)));
    s.push_str("/-- arm `ItemKind::Function` -/\n");
    s.push_str(&format!("def functionArm : List CgAct := {}\n\n", lean_list(&func_arm)));
    s.push_str("/-- `codegen` ends in `module.finalize()`, which starts with `finalize_definitions` -/\n");
    s.push_str(&format!("def finalizeAtEnd : Bool := {finalize_at_end}\n"));
    s.push_str("\nend RotoV.Gen.C14Emit\n");
    Ok(s)
}
