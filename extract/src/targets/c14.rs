//! Translator targets owned by property C14.
#[allow(unused_imports)]
use super::{Gen, Target};

pub const TARGETS: &[Target] = &[];
