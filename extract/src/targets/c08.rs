//! Translator targets owned by property C08.
//!
//!  * `LowerOrder.lean` (target `c08order`): the **step skeleton** of the MIR
//!    lowering functions the order of side effects hangs on
//!    (`src/mir/lower.rs`, `src/mir/lower/match_expr.rs`): for each function,
//!    the calls on `self` (`self.expr(l)`, `self.assign_to_var(l, l_ty)`,
//!    `self.do_assign(…)`, `self.emit_switch(…)`, `self.new_block(…)` …) in
//!    evaluation order (arguments before the call that takes them), the loops
//!    over arguments / fields / elements / arms, the `Value::…` / `Expr::BinOp`
//!    constructions, and markers for `if` / `match` / closures.
//!    `Props/C08Source.lean` pins every skeleton to the sequence the structured
//!    lowering model (`Model/LowerS.lean`) implements: a regrouped, reversed,
//!    dropped or duplicated step changes the generated definition and the
//!    theorem stops checking.
//!
//!    The skeleton is a *normal form*: source texts that differ only in ways
//!    that cannot change the order of the recorded steps have the same skeleton.
//!      1. **Locals by binding** (alpha-equivalence): every `let` / parameter /
//!         pattern / closure-parameter binding is one variable, numbered
//!         `v0, v1, …` in the order in which the bindings first appear in the
//!         finished skeleton; `let x = <step>` is written `vN=step`, so the skeleton
//!         keeps which later argument is the result of which earlier step.
//!         Renaming a local, or giving two shadowing `let val` two names, changes
//!         nothing; using a *different* variable does.
//!      2. **Loops**: `for x in XS { body }`, `XS.iter().map(|x| body).collect()`
//!         and `ys.extend(XS.iter().map(|x| body))` (the adaptor chain consumed
//!         on the spot) are all `loop(XS) body endloop`; `.rev()` anywhere in the
//!         chain makes it `loop-rev`; `iter`/`into_iter`/`enumerate` are dropped,
//!         other adaptors (`zip`, `skip`, …) stay in the source text of the loop.
//!      3. **Branches**: `if let P = e {A} else {B}` and `match e { P => A, _ => B }`
//!         are the same `match(e) arm(P) A arm(_) B endmatch`; an `if` whose
//!         then-branch ends in `return` takes the rest of the block as its
//!         else-branch; a `return` in tail position of the function is the same
//!         as the tail value (no marker). Arms whose patterns are all plain
//!         paths (unit variants, hence disjoint) are sorted by pattern. Binders
//!         in patterns print as `_`.
//!      4. **Nothing recorded, nothing kept**: a loop / `if` / `match` / closure in
//!         which no step is recorded leaves no marker, and a call `self.helper(..)`
//!         of a method of `Lowerer` that does nothing but drop bookkeeping is not a step (this
//!         is what removes the drop bookkeeping, C03's subject: `emit_drop`, the
//!         live-variable lists, a drop loop moved into a helper).
//!      5. The last arm of a `match`, when it has no guard and binds nothing, prints
//!         as `arm(_)` (a `match` is exhaustive: it takes whatever is left).
//!    NOT tolerated (the theorem must be re-pinned): moving a sub-expression of a
//!    recorded argument into a local of its own (the argument's text changes).
use super::{Gen, Target};
use crate::find;
use quote::ToTokens;
use std::collections::HashMap;
use std::path::Path;
use syn::visit::Visit;
use syn::visit_mut::VisitMut;

pub const TARGETS: &[Target] = &[("c08order", "LowerOrder", lower_order as Gen)];

/// adaptors that neither reorder nor filter: left out of a loop's source
const PLAIN_ITER: &[&str] = &["iter", "into_iter", "iter_mut", "enumerate", "copied", "cloned", "by_ref"];

/// other iterator methods: recorded when met outside a loop form
const ITER_METHODS: &[&str] = &["iter", "into_iter", "rev", "map", "enumerate", "zip", "filter", "filter_map", "extend", "collect", "skip", "take", "chain"];

const DROP_BOOKKEEPING: &[&str] = &["emit_drop", "add_live_variable", "remove_live_variable", "drop_var", "current_label"];

fn toks(t: &impl ToTokens) -> String {
    t.to_token_stream().to_string().replace(' ', "")
}

/// placeholder of binding `b` in recorded text (replaced by `v<n>` when the skeleton is finished)
fn ph(b: usize) -> String {
    format!("\u{27e6}{b}\u{27e7}")
}

/// the methods of `Lowerer` by name (both files), and which of them record nothing at all
/// ("silent": pure bookkeeping helpers — a call of one is not a step)
#[derive(Default)]
pub struct Methods {
    fns: HashMap<String, find::FnBody>,
    silent: std::cell::RefCell<HashMap<String, bool>>,
}

impl Methods {
    /// A bookkeeping helper: every call on `self` in its body is drop bookkeeping
    /// (`DROP_BOOKKEEPING`, or another such helper), there is at least one, and the body
    /// touches no field of `self` directly. (A leaf like `emit` / `new_block` / `tmp` is NOT
    /// silent: it writes the block list or the temporary counter.)
    fn is_silent(&self, name: &str) -> bool {
        if let Some(b) = self.silent.borrow().get(name) {
            return *b;
        }
        let Some(f) = self.fns.get(name) else { return false };
        // while it is being computed (recursion) a method counts as not silent
        self.silent.borrow_mut().insert(name.to_string(), false);
        #[derive(Default)]
        struct Uses {
            calls: Vec<String>,
            fields: bool,
        }
        impl<'ast> Visit<'ast> for Uses {
            fn visit_expr_method_call(&mut self, m: &'ast syn::ExprMethodCall) {
                if toks(&m.receiver) == "self" {
                    self.calls.push(m.method.to_string());
                    for a in &m.args {
                        self.visit_expr(a);
                    }
                } else {
                    syn::visit::visit_expr_method_call(self, m);
                }
            }
            fn visit_expr_field(&mut self, f: &'ast syn::ExprField) {
                if toks(&f.base) == "self" {
                    self.fields = true;
                }
                syn::visit::visit_expr_field(self, f);
            }
        }
        let mut u = Uses::default();
        u.visit_block(&f.block);
        let silent = !u.fields
            && !u.calls.is_empty()
            && u.calls.iter().all(|c| DROP_BOOKKEEPING.contains(&c.as_str()) || self.is_silent(c))
            // … and nothing else is recorded in it (no `Value::…` it builds, for one)
            && skeleton(f, self).is_empty();
        self.silent.borrow_mut().insert(name.to_string(), silent);
        silent
    }
}

struct Skel<'m> {
    methods: &'m Methods,
    out: Vec<String>,
    /// name → binding id, innermost scope last
    scopes: Vec<Vec<(String, usize)>>,
    next_binding: usize,
    /// is the expression about to be visited in tail position of the function?
    tail: bool,
}

fn binder_like(name: &str) -> bool {
    name != "self" && name.chars().next().map(|c| c.is_lowercase() || c == '_').unwrap_or(false)
}

/// rename resolved locals inside a cloned expression / pattern
struct Renamer<'a> {
    scopes: &'a Vec<Vec<(String, usize)>>,
}

impl Renamer<'_> {
    fn resolve(&self, name: &str) -> Option<usize> {
        self.scopes.iter().rev().find_map(|s| s.iter().rev().find(|(n, _)| n == name).map(|(_, b)| *b))
    }
}

impl VisitMut for Renamer<'_> {
    fn visit_expr_path_mut(&mut self, p: &mut syn::ExprPath) {
        if p.qself.is_none() && p.path.leading_colon.is_none() && p.path.segments.len() == 1 && p.path.segments[0].arguments.is_none() {
            let name = p.path.segments[0].ident.to_string();
            if let Some(b) = self.resolve(&name) {
                p.path.segments[0].ident = syn::Ident::new(&format!("__b{b}__"), p.path.segments[0].ident.span());
            }
        }
    }
    fn visit_field_value_mut(&mut self, f: &mut syn::FieldValue) {
        // `S { left }` is `S { left: left }`: print both, so that the value can be renamed
        if f.colon_token.is_none() {
            f.colon_token = Some(Default::default());
        }
        self.visit_expr_mut(&mut f.expr);
    }
    fn visit_expr_macro_mut(&mut self, m: &mut syn::ExprMacro) {
        // `vec![a, b]`, `format!("…", x)`: rename inside when the body is a list of expressions
        use syn::parse::Parser;
        let parser = syn::punctuated::Punctuated::<syn::Expr, syn::Token![,]>::parse_terminated;
        if let Ok(mut list) = parser.parse2(m.mac.tokens.clone()) {
            for e in list.iter_mut() {
                self.visit_expr_mut(e);
            }
            m.mac.tokens = list.to_token_stream();
        }
    }
    fn visit_expr_closure_mut(&mut self, _c: &mut syn::ExprClosure) {
        // a closure inside recorded text: left as written
    }
}

/// binders of a pattern print as `_`
struct PatBlank;
impl VisitMut for PatBlank {
    fn visit_pat_mut(&mut self, p: &mut syn::Pat) {
        if let syn::Pat::Ident(i) = p {
            if binder_like(&i.ident.to_string()) && i.subpat.is_none() {
                *p = syn::Pat::Wild(syn::PatWild { attrs: vec![], underscore_token: Default::default() });
                return;
            }
        }
        syn::visit_mut::visit_pat_mut(self, p);
    }
}

fn fix_placeholders(s: String) -> String {
    // `__b17__` (an identifier, so that syn prints it) → ⟦17⟧
    let mut out = String::new();
    let mut rest = s.as_str();
    while let Some(i) = rest.find("__b") {
        let after = &rest[i + 3..];
        let digits: String = after.chars().take_while(|c| c.is_ascii_digit()).collect();
        if !digits.is_empty() && after[digits.len()..].starts_with("__") {
            out.push_str(&rest[..i]);
            out.push_str(&ph(digits.parse().unwrap()));
            rest = &after[digits.len() + 2..];
        } else {
            out.push_str(&rest[..i + 3]);
            rest = after;
        }
    }
    out.push_str(rest);
    out
}

impl<'m> Skel<'m> {
    fn new(methods: &'m Methods) -> Skel<'m> {
        Skel { methods, out: vec![], scopes: vec![vec![]], next_binding: 0, tail: false }
    }

    fn bind(&mut self, name: &str) {
        let b = self.next_binding;
        self.next_binding += 1;
        self.scopes.last_mut().unwrap().push((name.to_string(), b));
    }

    fn bind_pat(&mut self, p: &syn::Pat) {
        struct B<'a>(&'a mut Vec<String>);
        impl<'ast> Visit<'ast> for B<'_> {
            fn visit_pat_ident(&mut self, i: &'ast syn::PatIdent) {
                let n = i.ident.to_string();
                if binder_like(&n) {
                    self.0.push(n);
                }
                if let Some((_, sub)) = &i.subpat {
                    self.visit_pat(sub);
                }
            }
        }
        let mut names = vec![];
        B(&mut names).visit_pat(p);
        for n in names {
            self.bind(&n);
        }
    }

    /// the text of an expression with its locals replaced by binding placeholders
    fn render(&self, e: &syn::Expr) -> String {
        let mut c = e.clone();
        Renamer { scopes: &self.scopes }.visit_expr_mut(&mut c);
        fix_placeholders(toks(&c))
    }

    fn render_pat(&self, p: &syn::Pat) -> String {
        let mut c = p.clone();
        PatBlank.visit_pat_mut(&mut c);
        toks(&c)
    }

    /// the steps recorded while running `f`, in a buffer of their own
    fn sub(&mut self, f: impl FnOnce(&mut Skel<'m>)) -> Vec<String> {
        let saved = std::mem::take(&mut self.out);
        f(self);
        std::mem::replace(&mut self.out, saved)
    }

    fn scoped<R>(&mut self, f: impl FnOnce(&mut Skel<'m>) -> R) -> R {
        self.scopes.push(vec![]);
        let r = f(self);
        self.scopes.pop();
        r
    }

    fn expr_in(&mut self, e: &syn::Expr, tail: bool) {
        self.tail = tail;
        self.visit_expr(e);
        self.tail = false;
    }

    /// is the expression itself recorded as a step (the last one recorded when it is visited)?
    fn is_step(&self, e: &syn::Expr) -> bool {
        match e {
            syn::Expr::MethodCall(m) => {
                toks(&m.receiver) == "self" && !DROP_BOOKKEEPING.contains(&m.method.to_string().as_str()) && !self.methods.is_silent(&m.method.to_string())
            }
            syn::Expr::Struct(s) => toks(&s.path).starts_with("Value::"),
            syn::Expr::Call(c) => toks(&c.func).ends_with("Expr::BinOp"),
            _ => false,
        }
    }

    /// does the block end by leaving the function?
    fn ends_in_return(b: &syn::Block) -> bool {
        match b.stmts.last() {
            Some(syn::Stmt::Expr(syn::Expr::Return(_), _)) => true,
            _ => false,
        }
    }

    /// statements `from..` of a block, in the current scope
    fn stmts(&mut self, stmts: &[syn::Stmt], tail: bool) {
        for (i, st) in stmts.iter().enumerate() {
            let is_last = i + 1 == stmts.len();
            match st {
                syn::Stmt::Local(l) => {
                    let mut defines = false;
                    if let Some(init) = &l.init {
                        let before = self.out.len();
                        self.expr_in(&init.expr, false);
                        // `let x = <recorded step>`: the step is written `x=step`, so that the skeleton
                        // keeps which later argument is the result of which earlier step
                        defines = self.out.len() > before && self.is_step(&init.expr) && init.diverge.is_none();
                        if let Some((_, div)) = &init.diverge {
                            let d = self.sub(|s| s.expr_in(div, false));
                            if !d.is_empty() {
                                self.out.push("letelse".into());
                                self.out.extend(d);
                                self.out.push("endletelse".into());
                            }
                        }
                    }
                    self.bind_pat(&l.pat);
                    let single = match &l.pat {
                        syn::Pat::Ident(i) => binder_like(&i.ident.to_string()),
                        syn::Pat::Type(t) => matches!(&*t.pat, syn::Pat::Ident(i) if binder_like(&i.ident.to_string())),
                        _ => false,
                    };
                    if defines && single {
                        let b = self.next_binding - 1;
                        let last = self.out.last_mut().unwrap();
                        *last = format!("{}={last}", ph(b));
                    }
                }
                syn::Stmt::Expr(syn::Expr::If(iff), _) if iff.else_branch.is_none() && Self::ends_in_return(&iff.then_branch) && !is_last => {
                    // `if c { …; return x; } rest…`: the rest of the block is the else-branch
                    let rest = &stmts[i + 1..];
                    self.branch(iff, tail, Some(rest));
                    return;
                }
                syn::Stmt::Expr(e, semi) => {
                    // the last statement of a tail block is in tail position (`x` and `return x;` alike)
                    let t = tail && is_last && (semi.is_none() || matches!(e, syn::Expr::Return(_) | syn::Expr::If(_) | syn::Expr::Match(_)));
                    self.expr_in(e, t);
                }
                syn::Stmt::Item(_) | syn::Stmt::Macro(_) => {}
            }
        }
    }

    fn block(&mut self, b: &syn::Block, tail: bool) {
        self.scoped(|s| s.stmts(&b.stmts, tail));
    }

    /// `if` / `if let`, with `rest` (the remaining statements of the enclosing block) as the
    /// else-branch when the then-branch returns
    fn branch(&mut self, i: &syn::ExprIf, tail: bool, rest: Option<&[syn::Stmt]>) {
        let (pat, scrut): (Option<&syn::Pat>, &syn::Expr) = match &*i.cond {
            syn::Expr::Let(l) => (Some(&*l.pat), &*l.expr),
            c => (None, c),
        };
        self.expr_in(scrut, false);
        let head = match pat {
            Some(_) => format!("match({})", self.render(scrut)),
            None => "if".to_string(), // the condition's text is left out; its steps were recorded above
        };
        let then_steps = self.scoped(|s| {
            if let Some(p) = pat {
                s.bind_pat(p);
            }
            s.sub(|s| s.stmts(&i.then_branch.stmts, tail))
        });
        let else_steps = match (&i.else_branch, rest) {
            (Some((_, e)), _) => self.sub(|s| s.expr_in(e, tail)),
            (None, Some(rest)) => self.sub(|s| s.stmts(rest, tail)),
            (None, None) => vec![],
        };
        if then_steps.is_empty() && else_steps.is_empty() {
            return;
        }
        match pat {
            Some(p) => {
                self.out.push(head);
                self.out.push(format!("arm({})", self.render_pat(p)));
                self.out.extend(then_steps);
                self.out.push("arm(_)".into());
                self.out.extend(else_steps);
                self.out.push("endmatch".into());
            }
            None => {
                self.out.push(head);
                self.out.extend(then_steps);
                if !else_steps.is_empty() {
                    self.out.push("else".into());
                    self.out.extend(else_steps);
                }
                self.out.push("endif".into());
            }
        }
    }

    /// An iterator chain `BASE.a().b(…).map(|x| body).c()`: (loop source, reversed?, closure) when
    /// it has exactly one `map` with a closure; the steps of the base expression are recorded.
    fn chain<'a>(&mut self, e: &'a syn::Expr, need_map: bool) -> Option<(String, bool, Option<&'a syn::ExprClosure>)> {
        let mut calls: Vec<&syn::ExprMethodCall> = vec![];
        let mut cur = e;
        loop {
            match cur {
                syn::Expr::MethodCall(m) if ITER_METHODS.contains(&m.method.to_string().as_str()) || PLAIN_ITER.contains(&m.method.to_string().as_str()) => {
                    calls.push(m);
                    cur = &m.receiver;
                }
                syn::Expr::Paren(p) => cur = &p.expr,
                syn::Expr::Reference(r) => cur = &r.expr,
                _ => break,
            }
        }
        calls.reverse();
        let mut rev = false;
        let mut closure = None;
        let mut kept = String::new();
        for m in &calls {
            let name = m.method.to_string();
            match name.as_str() {
                n if PLAIN_ITER.contains(&n) => {}
                "rev" => rev = !rev,
                "map" => match m.args.first() {
                    Some(syn::Expr::Closure(c)) if closure.is_none() && m.args.len() == 1 => closure = Some(c),
                    _ => return None,
                },
                "extend" | "collect" => return None,
                _ => {
                    let args: Vec<String> = m.args.iter().map(|a| self.render(a)).collect();
                    kept.push_str(&format!(".{name}({})", args.join(",")));
                }
            }
        }
        if need_map && closure.is_none() {
            return None;
        }
        self.expr_in(cur, false);
        for m in &calls {
            if m.method != "map" {
                for a in &m.args {
                    self.expr_in(a, false);
                }
            }
        }
        Some((format!("{}{kept}", self.render(cur)), rev, closure))
    }

    fn emit_loop(&mut self, src: String, rev: bool, body: Vec<String>) {
        if body.is_empty() {
            return;
        }
        self.out.push(format!("{}({src})", if rev { "loop-rev" } else { "loop" }));
        self.out.extend(body);
        self.out.push("endloop".into());
    }

    /// `CHAIN.collect()` / `recv.extend(CHAIN)` with one `map(closure)` in the chain: a loop
    fn try_loop_form(&mut self, m: &syn::ExprMethodCall) -> bool {
        let name = m.method.to_string();
        let chain_expr: &syn::Expr = match name.as_str() {
            "collect" if m.args.is_empty() => &m.receiver,
            "extend" if m.args.len() == 1 => &m.args[0],
            _ => return false,
        };
        // probe without recording
        let saved = std::mem::take(&mut self.out);
        let probe = self.chain(chain_expr, true);
        let base_steps = std::mem::replace(&mut self.out, saved);
        let Some((src, rev, Some(c))) = probe else { return false };
        if name == "extend" {
            self.expr_in(&m.receiver, false);
        }
        self.out.extend(base_steps);
        let body = self.scoped(|s| {
            for p in &c.inputs {
                s.bind_pat(p);
            }
            s.sub(|s| s.expr_in(&c.body, false))
        });
        self.emit_loop(src, rev, body);
        true
    }
}

impl<'ast, 'm> Visit<'ast> for Skel<'m> {
    fn visit_expr(&mut self, e: &'ast syn::Expr) {
        let tail = std::mem::replace(&mut self.tail, false);
        match e {
            syn::Expr::If(i) => self.branch(i, tail, None),
            syn::Expr::Block(b) => self.block(&b.block, tail),
            syn::Expr::Paren(p) => self.expr_in(&p.expr, tail),
            syn::Expr::Group(g) => self.expr_in(&g.expr, tail),
            syn::Expr::Return(r) => {
                if let Some(v) = &r.expr {
                    self.expr_in(v, false);
                }
                if !tail {
                    self.out.push("return".into());
                }
            }
            syn::Expr::Match(m) => {
                self.expr_in(&m.expr, false);
                let mut arms: Vec<(String, Vec<String>)> = vec![];
                let mut plain_paths = true;
                for a in &m.arms {
                    let catch_all = a.guard.is_none()
                        && (matches!(&a.pat, syn::Pat::Wild(_)) || matches!(&a.pat, syn::Pat::Ident(i) if binder_like(&i.ident.to_string()) && i.subpat.is_none()));
                    plain_paths &= a.guard.is_none() && matches!(&a.pat, syn::Pat::Path(_));
                    let pat = if catch_all { "_".to_string() } else { self.render_pat(&a.pat) };
                    // `match x { …, y => … }`: the catch-all binder is another name of the local `x`
                    let alias: Option<(String, usize)> = match (&a.pat, &*m.expr) {
                        (syn::Pat::Ident(i), syn::Expr::Path(p)) if catch_all && p.qself.is_none() && p.path.segments.len() == 1 => {
                            Renamer { scopes: &self.scopes }.resolve(&p.path.segments[0].ident.to_string()).map(|b| (i.ident.to_string(), b))
                        }
                        _ => None,
                    };
                    let steps = self.scoped(|s| {
                        match alias {
                            Some(a) => s.scopes.last_mut().unwrap().push(a),
                            None => s.bind_pat(&a.pat),
                        }
                        s.sub(|s| {
                            if let Some((_, g)) = &a.guard {
                                s.expr_in(g, false);
                            }
                            s.expr_in(&a.body, tail);
                        })
                    });
                    arms.push((pat, steps));
                }
                if arms.iter().all(|(_, s)| s.is_empty()) {
                    return;
                }
                if plain_paths {
                    // unit variants: disjoint, so the order of the arms means nothing
                    arms.sort();
                }
                // a `match` is exhaustive: its last arm, when it has no guard and binds nothing, takes
                // whatever is left — the same as `_` (so `Some(x) => A, None => B` is `if let Some(x) … else B`)
                if let (Some(last_arm), Some(last)) = (m.arms.last(), arms.last_mut()) {
                    let mut names = vec![];
                    struct B<'a>(&'a mut Vec<String>);
                    impl<'ast> Visit<'ast> for B<'_> {
                        fn visit_pat_ident(&mut self, i: &'ast syn::PatIdent) {
                            if binder_like(&i.ident.to_string()) {
                                self.0.push(i.ident.to_string());
                            }
                        }
                    }
                    B(&mut names).visit_pat(&last_arm.pat);
                    if last_arm.guard.is_none() && names.is_empty() && !plain_paths {
                        last.0 = "_".to_string();
                    }
                }
                self.out.push(format!("match({})", self.render(&m.expr)));
                for (p, s) in arms {
                    self.out.push(format!("arm({p})"));
                    self.out.extend(s);
                }
                self.out.push("endmatch".into());
            }
            syn::Expr::ForLoop(f) => {
                let saved = std::mem::take(&mut self.out);
                let probe = self.chain(&f.expr, false);
                let base_steps = std::mem::replace(&mut self.out, saved);
                let (src, rev) = match probe {
                    Some((src, rev, None)) => {
                        self.out.extend(base_steps);
                        (src, rev)
                    }
                    _ => {
                        self.expr_in(&f.expr, false);
                        (self.render(&f.expr), false)
                    }
                };
                let body = self.scoped(|s| {
                    s.bind_pat(&f.pat);
                    s.sub(|s| s.block(&f.body, false))
                });
                self.emit_loop(src, rev, body);
            }
            syn::Expr::While(w) => {
                let body = self.sub(|s| {
                    s.expr_in(&w.cond, false);
                    s.block(&w.body, false);
                });
                if !body.is_empty() {
                    self.out.push("while".into());
                    self.out.extend(body);
                    self.out.push("endwhile".into());
                }
            }
            syn::Expr::Loop(l) => {
                let body = self.sub(|s| s.block(&l.body, false));
                if !body.is_empty() {
                    self.out.push("while".into());
                    self.out.extend(body);
                    self.out.push("endwhile".into());
                }
            }
            syn::Expr::Closure(c) => {
                let body = self.scoped(|s| {
                    for p in &c.inputs {
                        s.bind_pat(p);
                    }
                    s.sub(|s| s.expr_in(&c.body, false))
                });
                if !body.is_empty() {
                    self.out.push("closure".into());
                    self.out.extend(body);
                    self.out.push("endclosure".into());
                }
            }
            syn::Expr::MethodCall(m) => {
                if self.try_loop_form(m) {
                    return;
                }
                // children first: a step is recorded when its operands have been evaluated
                self.expr_in(&m.receiver, false);
                for a in &m.args {
                    self.expr_in(a, false);
                }
                let recv = toks(&m.receiver);
                let name = m.method.to_string();
                if DROP_BOOKKEEPING.contains(&name.as_str()) {
                    // drop bookkeeping is C03's subject and has no effect on the order of host calls
                    return;
                }
                if recv == "self" && self.methods.is_silent(&name) {
                    // a helper of `Lowerer` in which nothing is recorded (pure bookkeeping): not a step
                    return;
                }
                if recv == "self" {
                    let args: Vec<String> = m.args.iter().map(|a| self.render(a)).collect();
                    self.out.push(format!("self.{name}({})", args.join(",")));
                } else if ITER_METHODS.contains(&name.as_str()) && m.args.iter().any(|a| matches!(a, syn::Expr::Closure(_))) {
                    // an adaptor with a closure that is not consumed on the spot: kept as written
                    self.out.push(format!("{}.{name}", self.render(&m.receiver)));
                } else if name == "rev" {
                    self.out.push(format!("{}.rev", self.render(&m.receiver)));
                }
            }
            syn::Expr::Call(c) => {
                self.expr_in(&c.func, false);
                for a in &c.args {
                    self.expr_in(a, false);
                }
                if toks(&c.func).ends_with("Expr::BinOp") {
                    let args: Vec<String> = c.args.iter().map(|a| self.render(a)).collect();
                    self.out.push(format!("Expr::BinOp({})", args.join(",")));
                }
            }
            syn::Expr::Struct(s) => {
                for f in &s.fields {
                    self.expr_in(&f.expr, false);
                }
                if let Some(r) = &s.rest {
                    self.expr_in(r, false);
                }
                let p = toks(&s.path);
                if p.starts_with("Value::") {
                    let fields: Vec<String> = s.fields.iter().map(|f| format!("{}:{}", toks(&f.member), self.render(&f.expr))).collect();
                    self.out.push(format!("{p}{{{}}}", fields.join(",")));
                }
            }
            other => syn::visit::visit_expr(self, other),
        }
    }
    fn visit_block(&mut self, b: &'ast syn::Block) {
        self.block(b, false);
    }
    fn visit_item(&mut self, _i: &'ast syn::Item) {}
}

/// number the bindings in order of first appearance in the finished skeleton; cut long steps
fn finish(steps: Vec<String>) -> Vec<String> {
    let mut num: HashMap<usize, usize> = HashMap::new();
    let mut out = vec![];
    for s in steps {
        let mut t = String::new();
        let mut rest = s.as_str();
        while let Some(i) = rest.find('\u{27e6}') {
            t.push_str(&rest[..i]);
            let after = &rest[i + '\u{27e6}'.len_utf8()..];
            let j = after.find('\u{27e7}').unwrap();
            let b: usize = after[..j].parse().unwrap();
            let n = num.len();
            let v = *num.entry(b).or_insert(n);
            t.push_str(&format!("v{v}"));
            rest = &after[j + '\u{27e7}'.len_utf8()..];
        }
        t.push_str(rest);
        out.push(if t.chars().count() > 200 { format!("{}…", t.chars().take(200).collect::<String>()) } else { t });
    }
    out
}

/// (Lean name, file, function)
const FUNCS: &[(&str, &str, &str)] = &[
    ("binop", "src/mir/lower.rs", "binop"),
    ("normalizedFunctionCall", "src/mir/lower.rs", "normalized_function_call"),
    ("functionCall", "src/mir/lower.rs", "function_call"),
    ("shortcircuitBinop", "src/mir/lower.rs", "shortcircuit_binop"),
    ("desugaredBinop", "src/mir/lower.rs", "desugared_binop"),
    ("binopStr", "src/mir/lower.rs", "binop_str"),
    ("binopList", "src/mir/lower.rs", "binop_list"),
    ("binopIpAddr", "src/mir/lower.rs", "binop_ip_addr"),
    ("binopAnd", "src/mir/lower.rs", "binop_and"),
    ("binopOr", "src/mir/lower.rs", "binop_or"),
    ("callRuntime", "src/mir/lower.rs", "call_runtime"),
    ("compoundAssign", "src/mir/lower.rs", "compound_assign"),
    ("assign", "src/mir/lower.rs", "assign"),
    ("ifElse", "src/mir/lower.rs", "if_else"),
    ("whileLoop", "src/mir/lower.rs", "while"),
    ("forLoop", "src/mir/lower.rs", "for"),
    ("block", "src/mir/lower.rs", "block"),
    ("blockExpr", "src/mir/lower.rs", "block_expr"),
    ("stmt", "src/mir/lower.rs", "stmt"),
    ("returnExpr", "src/mir/lower.rs", "return"),
    ("returnValue", "src/mir/lower.rs", "return_value"),
    ("questionMark", "src/mir/lower.rs", "question_mark"),
    ("notExpr", "src/mir/lower.rs", "not"),
    ("negate", "src/mir/lower.rs", "negate"),
    ("access", "src/mir/lower.rs", "access"),
    ("record", "src/mir/lower.rs", "record"),
    ("list", "src/mir/lower.rs", "list"),
    ("enumConstructor", "src/mir/lower.rs", "enum_constructor"),
    ("makeEnum", "src/mir/lower.rs", "make_enum"),
    ("fString", "src/mir/lower.rs", "f_string"),
    ("assignToVar", "src/mir/lower.rs", "assign_to_var"),
    ("doAssign", "src/mir/lower.rs", "do_assign"),
    ("functionLike", "src/mir/lower.rs", "function_like"),
    ("matchExpr", "src/mir/lower/match_expr.rs", "match"),
    ("matchCase", "src/mir/lower/match_expr.rs", "match_case"),
    // one stage down: `Lowerer::call` of the MIR -> LIR lowering emits exactly one `Instruction::Call`
    ("lirCall", "src/lir/lower.rs", "call"),
];

fn lean_str(s: &str) -> String {
    let mut o = String::from("\"");
    for c in s.chars() {
        match c {
            '"' => o.push_str("\\\""),
            '\\' => o.push_str("\\\\"),
            c => o.push(c),
        }
    }
    o.push('"');
    o
}

/// the finished skeleton of one function
pub fn skeleton(f: &find::FnBody, methods: &Methods) -> Vec<String> {
    let mut sk = Skel::new(methods);
    for a in &f.sig.inputs {
        if let syn::FnArg::Typed(t) = a {
            sk.bind_pat(&t.pat);
        }
    }
    sk.stmts(&f.block.stmts, true);
    finish(sk.out)
}

fn lower_order(repo: &Path) -> Result<String, String> {
    let mut out = String::new();
    out.push_str("/- GENERATED by /verif/extract from src/mir/lower.rs and src/mir/lower/match_expr.rs — do not edit.\n   The step skeleton of the lowering functions (see extract/src/targets/c08.rs). -/\nnamespace RotoV.Gen.LowerOrder\n\n");
    let mut cache: Vec<(String, syn::File)> = vec![];
    // every method of `Lowerer` (for the "silent helper" rule)
    let mut methods = Methods::default();
    for file in ["src/mir/lower.rs", "src/mir/lower/match_expr.rs"] {
        let parsed = find::parse(repo, file)?;
        struct All<'a>(&'a mut Methods, bool);
        impl<'ast> Visit<'ast> for All<'_> {
            fn visit_item_impl(&mut self, i: &'ast syn::ItemImpl) {
                let ty = i.self_ty.to_token_stream().to_string().replace(' ', "");
                let old = std::mem::replace(&mut self.1, ty.starts_with("Lowerer") && i.trait_.is_none());
                syn::visit::visit_item_impl(self, i);
                self.1 = old;
            }
            fn visit_impl_item_fn(&mut self, f: &'ast syn::ImplItemFn) {
                // hooks are not part of the lowering
                let hook = f.attrs.iter().any(|a| a.to_token_stream().to_string().contains("verif-hooks"));
                if self.1 && !hook {
                    self.0.fns.insert(f.sig.ident.to_string().trim_start_matches("r#").to_string(), find::FnBody { sig: f.sig.clone(), block: f.block.clone(), impl_of: None });
                }
            }
        }
        All(&mut methods, false).visit_file(&parsed);
        cache.push((file.to_string(), parsed));
    }
    for (lean, file, func) in FUNCS {
        if !cache.iter().any(|(f, _)| f == file) {
            cache.push((file.to_string(), find::parse(repo, file)?));
        }
        let parsed = &cache.iter().find(|(f, _)| f == file).unwrap().1;
        // `r#while` etc. are raw identifiers: syn's Ident compares equal to the plain name
        let f = find::func(parsed, func, Some("Lowerer"))
            .or_else(|_| find::func(parsed, &format!("r#{func}"), Some("Lowerer")))
            .map_err(|e| format!("{file}: {e}"))?;
        let steps = skeleton(&f, &methods);
        if steps.is_empty() {
            return Err(format!("{file}: {func}: empty skeleton"));
        }
        out.push_str(&format!("/-- `Lowerer::{func}` ({file}) -/\ndef {lean} : List String := [\n"));
        out.push_str(&steps.iter().map(|s| format!("  {}", lean_str(s))).collect::<Vec<_>>().join(",\n"));
        out.push_str("\n]\n\n");
    }
    out.push_str("end RotoV.Gen.LowerOrder\n");
    Ok(out)
}
