//! Translator targets owned by property C08.
//!
//!  * `LowerOrder.lean` (target `c08order`): the **step skeleton** of the MIR
//!    lowering functions the order of side effects hangs on
//!    (`src/mir/lower.rs`, `src/mir/lower/match_expr.rs`): for each function,
//!    the calls on `self` (`self.expr(l)`, `self.assign_to_var(l, l_ty)`,
//!    `self.do_assign(…)`, `self.emit_switch(…)`, `self.new_block(…)` …) in
//!    evaluation order (arguments before the call that takes them), the
//!    iterator adaptors of the loops over arguments / fields / arms
//!    (`arguments.iter()`, `.rev()`, `.map`), the `Value::…` / `Expr::BinOp`
//!    constructions, and markers for `if` / `for` / `match` / closures. Arguments that
//!    are plain local names are written `v0, v1, …` in order of first use, so a
//!    consistent renaming of a local variable leaves the skeleton unchanged.
//!    `Props/C08.lean` pins every skeleton to the sequence the structured
//!    lowering model (`Model/LowerS.lean`) implements: a regrouped, reversed,
//!    dropped or duplicated step changes the generated definition and the
//!    theorem stops checking.
#[allow(unused_imports)]
use super::{Gen, Target};
use crate::find;
use quote::ToTokens;
use std::path::Path;
use syn::visit::Visit;

pub const TARGETS: &[Target] = &[("c08order", "LowerOrder", lower_order as Gen)];

const ITER_METHODS: &[&str] = &["iter", "into_iter", "rev", "map", "enumerate", "zip", "filter", "filter_map", "extend", "collect", "skip", "take", "chain"];

const DROP_BOOKKEEPING: &[&str] = &["emit_drop", "add_live_variable", "remove_live_variable", "drop_var", "current_label"];

fn toks(t: &impl ToTokens) -> String {
    let s = t.to_token_stream().to_string().replace(' ', "");
    if s.len() > 70 { format!("{}…", s.chars().take(70).collect::<String>()) } else { s }
}

#[derive(Default)]
struct Skel {
    out: Vec<String>,
    /// local names in order of first use as a whole argument: a consistent renaming of a
    /// local variable does not change the skeleton, a regrouping does
    locals: Vec<String>,
}

impl Skel {
    /// An argument that is a plain local name (`l`, `&l_ty`) is written as `v<i>` / `&v<i>`
    /// (index of first use in this function); anything else as its tokens.
    fn arg(&mut self, a: &syn::Expr) -> String {
        let t = toks(a);
        let (amp, name) = match t.strip_prefix('&') {
            Some(r) => ("&", r),
            None => ("", t.as_str()),
        };
        let plain = !name.is_empty()
            && name != "self"
            && name.chars().next().map(|c| c.is_ascii_lowercase() || c == '_').unwrap_or(false)
            && name.chars().all(|c| c.is_ascii_lowercase() || c.is_ascii_digit() || c == '_');
        if !plain {
            return t;
        }
        let i = match self.locals.iter().position(|n| n == name) {
            Some(i) => i,
            None => {
                self.locals.push(name.to_string());
                self.locals.len() - 1
            }
        };
        format!("{amp}v{i}")
    }
}

impl<'ast> Visit<'ast> for Skel {
    fn visit_expr_method_call(&mut self, m: &'ast syn::ExprMethodCall) {
        // children first: a step is recorded when its operands have been evaluated
        self.visit_expr(&m.receiver);
        for a in &m.args {
            self.visit_expr(a);
        }
        let recv = toks(&m.receiver);
        let name = m.method.to_string();
        if DROP_BOOKKEEPING.contains(&name.as_str()) || recv.contains("to_drop") || recv.contains("stack_slots") {
            // drop bookkeeping is C03's subject and has no effect on the order of host calls
            return;
        }
        if recv == "self" {
            let args: Vec<String> = m.args.iter().map(|a| self.arg(a)).collect();
            self.out.push(format!("self.{name}({})", args.join(",")));
        } else if ITER_METHODS.contains(&name.as_str()) {
            let r = if recv.len() > 40 { "…".to_string() } else { recv };
            self.out.push(format!("{r}.{name}"));
        }
    }
    fn visit_expr_call(&mut self, c: &'ast syn::ExprCall) {
        syn::visit::visit_expr_call(self, c);
        let f = toks(&c.func);
        if f.ends_with("Expr::BinOp") {
            let args: Vec<String> = c.args.iter().map(|a| toks(a)).collect();
            self.out.push(format!("Expr::BinOp({})", args.join(",")));
        }
    }
    fn visit_expr_struct(&mut self, s: &'ast syn::ExprStruct) {
        syn::visit::visit_expr_struct(self, s);
        let p = toks(&s.path);
        if p.starts_with("Value::") {
            let fields: Vec<String> = s.fields.iter().map(|f| format!("{}:{}", toks(&f.member), self.arg(&f.expr))).collect();
            self.out.push(format!("{p}{{{}}}", fields.join(",")));
        }
    }
    fn visit_expr_if(&mut self, i: &'ast syn::ExprIf) {
        self.visit_expr(&i.cond);
        // the condition's text is left out (it names locals); its calls were recorded above
        self.out.push("if".into());
        self.visit_block(&i.then_branch);
        if let Some((_, e)) = &i.else_branch {
            self.out.push("else".into());
            self.visit_expr(e);
        }
        self.out.push("endif".into());
    }
    fn visit_expr_for_loop(&mut self, f: &'ast syn::ExprForLoop) {
        let e = toks(&f.expr);
        if e.contains("to_drop") || e.contains("stack_slots") || e.contains("frame") {
            return;
        }
        self.visit_expr(&f.expr);
        self.out.push(format!("for({})", toks(&f.expr)));
        self.visit_block(&f.body);
        self.out.push("endfor".into());
    }
    fn visit_expr_match(&mut self, m: &'ast syn::ExprMatch) {
        self.visit_expr(&m.expr);
        self.out.push(format!("match({})", toks(&m.expr)));
        for a in &m.arms {
            self.out.push(format!("arm({})", toks(&a.pat)));
            self.visit_expr(&a.body);
        }
        self.out.push("endmatch".into());
    }
    fn visit_expr_closure(&mut self, c: &'ast syn::ExprClosure) {
        self.out.push("closure".into());
        self.visit_expr(&c.body);
        self.out.push("endclosure".into());
    }
    fn visit_expr_return(&mut self, r: &'ast syn::ExprReturn) {
        syn::visit::visit_expr_return(self, r);
        self.out.push("return".into());
    }
}

/// (Lean name, file, function)
const FUNCS: &[(&str, &str, &str)] = &[
    ("binop", "src/mir/lower.rs", "binop"),
    ("normalizedFunctionCall", "src/mir/lower.rs", "normalized_function_call"),
    ("functionCall", "src/mir/lower.rs", "function_call"),
    ("shortcircuitBinop", "src/mir/lower.rs", "shortcircuit_binop"),
    ("desugaredBinop", "src/mir/lower.rs", "desugared_binop"),
    ("binopStr", "src/mir/lower.rs", "binop_str"),
    ("callRuntime", "src/mir/lower.rs", "call_runtime"),
    ("compoundAssign", "src/mir/lower.rs", "compound_assign"),
    ("assign", "src/mir/lower.rs", "assign"),
    ("ifElse", "src/mir/lower.rs", "if_else"),
    ("whileLoop", "src/mir/lower.rs", "while"),
    ("forLoop", "src/mir/lower.rs", "for"),
    ("block", "src/mir/lower.rs", "block"),
    ("blockExpr", "src/mir/lower.rs", "block_expr"),
    ("stmt", "src/mir/lower.rs", "stmt"),
    ("returnExpr", "src/mir/lower.rs", "return"),
    ("returnValue", "src/mir/lower.rs", "return_value"),
    ("questionMark", "src/mir/lower.rs", "question_mark"),
    ("notExpr", "src/mir/lower.rs", "not"),
    ("negate", "src/mir/lower.rs", "negate"),
    ("access", "src/mir/lower.rs", "access"),
    ("record", "src/mir/lower.rs", "record"),
    ("list", "src/mir/lower.rs", "list"),
    ("enumConstructor", "src/mir/lower.rs", "enum_constructor"),
    ("makeEnum", "src/mir/lower.rs", "make_enum"),
    ("fString", "src/mir/lower.rs", "f_string"),
    ("assignToVar", "src/mir/lower.rs", "assign_to_var"),
    ("doAssign", "src/mir/lower.rs", "do_assign"),
    ("functionLike", "src/mir/lower.rs", "function_like"),
    ("matchExpr", "src/mir/lower/match_expr.rs", "match"),
    ("matchCase", "src/mir/lower/match_expr.rs", "match_case"),
];

fn lean_str(s: &str) -> String {
    let mut o = String::from("\"");
    for c in s.chars() {
        match c {
            '"' => o.push_str("\\\""),
            '\\' => o.push_str("\\\\"),
            c => o.push(c),
        }
    }
    o.push('"');
    o
}

fn lower_order(repo: &Path) -> Result<String, String> {
    let mut out = String::new();
    out.push_str("/- GENERATED by /verif/extract from src/mir/lower.rs and src/mir/lower/match_expr.rs — do not edit.\n   The step skeleton of the lowering functions (see extract/src/targets/c08.rs). -/\nnamespace RotoV.Gen.LowerOrder\n\n");
    let mut cache: Vec<(String, syn::File)> = vec![];
    for (lean, file, func) in FUNCS {
        if !cache.iter().any(|(f, _)| f == file) {
            cache.push((file.to_string(), find::parse(repo, file)?));
        }
        let parsed = &cache.iter().find(|(f, _)| f == file).unwrap().1;
        // `r#while` etc. are raw identifiers: syn's Ident compares equal to the plain name
        let f = find::func(parsed, func, Some("Lowerer"))
            .or_else(|_| find::func(parsed, &format!("r#{func}"), Some("Lowerer")))
            .map_err(|e| format!("{file}: {e}"))?;
        let mut sk = Skel::default();
        sk.visit_block(&f.block);
        if sk.out.is_empty() {
            return Err(format!("{file}: {func}: empty skeleton"));
        }
        out.push_str(&format!("/-- `Lowerer::{func}` ({file}) -/\ndef {lean} : List String := [\n"));
        out.push_str(&sk.out.iter().map(|s| format!("  {}", lean_str(s))).collect::<Vec<_>>().join(",\n"));
        out.push_str("\n]\n\n");
    }
    out.push_str("end RotoV.Gen.LowerOrder\n");
    Ok(out)
}
