//! Translator target `c12sharing` (property C12) → `Generated/C12Sharing.lean`.
//!
//! Declaration-level facts behind "every mutation of shared state happens under
//! an exclusive lock, every shared ownership count is atomic, and what crosses
//! threads owns what it uses":
//!
//!  * every `unsafe impl Send/Sync for T` under `src/` (test modules skipped) and,
//!    for each such `T`, the *shape* of every field with the structs declared in
//!    the crate inlined (`Arc` vs `Rc`, `Mutex` vs `RwLock` vs `Cell`, raw
//!    pointers, `dyn` bounds);
//!  * the shape of the cell behind `ErasedList` (`src/value/list.rs`);
//!  * every method of `RawList`: receiver kind and whether its body writes to
//!    the list's memory (write primitives, calls through `drop_fn` / `clone_fn`,
//!    field assignment, or a call of another writing method on `self`);
//!  * every lock acquisition in `src/value/list.rs` (`<e>.0.lock()/.read()/.write()`):
//!    the mode and the `RawList` methods invoked on the guard, whether the guard
//!    is borrowed mutably;
//!  * every closure built inside a method of `TypedFunc` (`into_func`, both
//!    macro-generated variants): `move` or not, whether it uses `self` as a
//!    whole, and which fields of `self` it mentions (edition ≥ 2021 closures
//!    capture disjoint fields); the crate edition from `Cargo.toml`.
//!
//! Anything outside the recognised shapes is an extraction failure.
use crate::find;
use proc_macro2::{Delimiter, TokenStream, TokenTree};
use quote::ToTokens;
use std::collections::BTreeMap;
use std::path::{Path, PathBuf};
use syn::visit::Visit;

// ------------------------------------------------------------------ sources

fn rs_files(dir: &Path, out: &mut Vec<PathBuf>) -> Result<(), String> {
    let rd = std::fs::read_dir(dir).map_err(|e| format!("{}: {e}", dir.display()))?;
    let mut entries: Vec<PathBuf> = rd.filter_map(|e| e.ok().map(|e| e.path())).collect();
    entries.sort();
    for p in entries {
        if p.is_dir() {
            // hooks are add-only test instrumentation, not part of the product
            if p.file_name().map(|n| n == "verif_hooks").unwrap_or(false) {
                continue;
            }
            rs_files(&p, out)?;
        } else if p.extension().map(|e| e == "rs").unwrap_or(false) {
            let name = p.file_name().unwrap().to_string_lossy().to_string();
            if name == "tests.rs" {
                continue;
            }
            out.push(p);
        }
    }
    Ok(())
}

fn is_cfg_test(attrs: &[syn::Attribute]) -> bool {
    attrs.iter().any(|a| {
        a.path().is_ident("cfg") && a.meta.to_token_stream().to_string().contains("test")
    })
}

/// structs, unsafe auto-trait impls and suspicious renames of one file
#[derive(Default)]
struct Decls {
    structs: BTreeMap<String, Vec<syn::ItemStruct>>,
    unsafe_impls: Vec<(String, String, String)>, // (trait, type, file)
    renames: Vec<String>,
    cur_file: String,
}

const SPECIAL: &[&str] = &[
    "Arc", "Rc", "Mutex", "RwLock", "Cell", "RefCell", "UnsafeCell", "OnceCell", "Box", "Vec",
    "Option", "ManuallyDrop", "NonNull", "PhantomData", "HashMap", "Weak",
];

impl<'ast> Visit<'ast> for Decls {
    fn visit_item_mod(&mut self, m: &'ast syn::ItemMod) {
        if is_cfg_test(&m.attrs) {
            return;
        }
        syn::visit::visit_item_mod(self, m);
    }
    fn visit_item_struct(&mut self, s: &'ast syn::ItemStruct) {
        if !is_cfg_test(&s.attrs) {
            self.structs.entry(s.ident.to_string()).or_default().push(s.clone());
        }
    }
    fn visit_use_rename(&mut self, r: &'ast syn::UseRename) {
        let (a, b) = (r.ident.to_string(), r.rename.to_string());
        if a != b && (SPECIAL.contains(&a.as_str()) || SPECIAL.contains(&b.as_str())) {
            self.renames.push(format!("{}: use {a} as {b}", self.cur_file));
        }
    }
    fn visit_item_type(&mut self, t: &'ast syn::ItemType) {
        // `type Arc<T> = Rc<T>` style aliases of the special names
        let n = t.ident.to_string();
        if SPECIAL.contains(&n.as_str()) {
            self.renames.push(format!("{}: type alias {n}", self.cur_file));
        }
    }
    fn visit_item_impl(&mut self, i: &'ast syn::ItemImpl) {
        if is_cfg_test(&i.attrs) {
            return;
        }
        if i.unsafety.is_some() {
            if let Some((_, p, _)) = &i.trait_ {
                let tr = p.segments.last().map(|s| s.ident.to_string()).unwrap_or_default();
                if tr == "Send" || tr == "Sync" {
                    let ty = match &*i.self_ty {
                        syn::Type::Path(tp) => {
                            tp.path.segments.last().map(|s| s.ident.to_string()).unwrap_or_default()
                        }
                        other => other.to_token_stream().to_string(),
                    };
                    self.unsafe_impls.push((tr, ty, self.cur_file.clone()));
                }
            }
        }
        syn::visit::visit_item_impl(self, i);
    }
}

// ------------------------------------------------------------------ shapes

#[derive(Clone, Debug, PartialEq)]
enum Shape {
    Plain,
    Raw,
    Atomic,
    Param,
    Ext,
    Dyn(bool, bool),
    Arc(Box<Shape>),
    Rc(Box<Shape>),
    Mutex(Box<Shape>),
    RwLock(Box<Shape>),
    Cell(Box<Shape>),
    Own(Box<Shape>),
    Pair(Box<Shape>, Box<Shape>),
}

impl Shape {
    fn lean(&self) -> String {
        match self {
            Shape::Plain => ".plain".into(),
            Shape::Raw => ".raw".into(),
            Shape::Atomic => ".atomic".into(),
            Shape::Param => ".param".into(),
            Shape::Ext => ".ext".into(),
            Shape::Dyn(a, b) => format!("(.dyn {a} {b})"),
            Shape::Arc(t) => format!("(.arc {})", t.lean()),
            Shape::Rc(t) => format!("(.rc {})", t.lean()),
            Shape::Mutex(t) => format!("(.mutex {})", t.lean()),
            Shape::RwLock(t) => format!("(.rwlock {})", t.lean()),
            Shape::Cell(t) => format!("(.cell {})", t.lean()),
            Shape::Own(t) => format!("(.own {})", t.lean()),
            Shape::Pair(a, b) => format!("(.pair {} {})", a.lean(), b.lean()),
        }
    }
}

fn fold_pairs(mut v: Vec<Shape>) -> Shape {
    match v.len() {
        0 => Shape::Plain,
        1 => v.pop().unwrap(),
        _ => {
            let last = v.pop().unwrap();
            v.into_iter().rev().fold(last, |acc, s| Shape::Pair(Box::new(s), Box::new(acc)))
        }
    }
}

const PLAIN: &[&str] = &[
    "u8", "u16", "u32", "u64", "u128", "usize", "i8", "i16", "i32", "i64", "i128", "isize", "bool",
    "char", "f32", "f64", "String", "str", "TypeId", "Layout", "Duration",
];

struct Shaper<'a> {
    structs: &'a BTreeMap<String, Vec<syn::ItemStruct>>,
}

impl Shaper<'_> {
    fn generic_args(&self, seg: &syn::PathSegment, generics: &[String], stack: &mut Vec<String>) -> Result<Vec<Shape>, String> {
        let mut out = vec![];
        if let syn::PathArguments::AngleBracketed(ab) = &seg.arguments {
            for a in &ab.args {
                if let syn::GenericArgument::Type(t) = a {
                    out.push(self.shape(t, generics, stack)?);
                }
            }
        }
        Ok(out)
    }

    fn shape(&self, t: &syn::Type, generics: &[String], stack: &mut Vec<String>) -> Result<Shape, String> {
        Ok(match t {
            syn::Type::Ptr(_) => Shape::Raw,
            syn::Type::BareFn(_) => Shape::Plain,
            syn::Type::Never(_) => Shape::Plain,
            syn::Type::Reference(r) => Shape::Own(Box::new(self.shape(&r.elem, generics, stack)?)),
            syn::Type::Paren(p) => self.shape(&p.elem, generics, stack)?,
            syn::Type::Group(p) => self.shape(&p.elem, generics, stack)?,
            syn::Type::Array(a) => Shape::Own(Box::new(self.shape(&a.elem, generics, stack)?)),
            syn::Type::Slice(a) => Shape::Own(Box::new(self.shape(&a.elem, generics, stack)?)),
            syn::Type::Tuple(tu) => {
                let mut v = vec![];
                for e in &tu.elems {
                    v.push(self.shape(e, generics, stack)?);
                }
                fold_pairs(v)
            }
            syn::Type::TraitObject(o) => {
                let mut send = false;
                let mut sync = false;
                for b in &o.bounds {
                    let s = b.to_token_stream().to_string();
                    send |= s == "Send";
                    sync |= s == "Sync";
                }
                Shape::Dyn(send, sync)
            }
            syn::Type::ImplTrait(_) | syn::Type::Infer(_) | syn::Type::Macro(_) => Shape::Ext,
            syn::Type::Path(tp) => {
                if tp.qself.is_some() {
                    return Ok(Shape::Ext);
                }
                let seg = tp.path.segments.last().ok_or("empty type path")?;
                let name = seg.ident.to_string();
                let args = self.generic_args(seg, generics, stack)?;
                let arg0 = || args.first().cloned().unwrap_or(Shape::Ext);
                if tp.path.segments.len() == 1 && generics.contains(&name) {
                    return Ok(Shape::Param);
                }
                match name.as_str() {
                    "Arc" => Shape::Arc(Box::new(arg0())),
                    "Rc" => Shape::Rc(Box::new(arg0())),
                    "Mutex" => Shape::Mutex(Box::new(arg0())),
                    "RwLock" => Shape::RwLock(Box::new(arg0())),
                    "Cell" | "RefCell" | "UnsafeCell" | "OnceCell" | "LazyCell" | "SyncUnsafeCell" => {
                        Shape::Cell(Box::new(arg0()))
                    }
                    "OnceLock" | "LazyLock" => Shape::Mutex(Box::new(arg0())),
                    n if n.starts_with("Atomic") => Shape::Atomic,
                    "NonNull" => Shape::Raw,
                    "PhantomData" => Shape::Param,
                    "Box" | "Vec" | "Option" | "ManuallyDrop" | "VecDeque" | "MaybeUninit" | "HashSet"
                    | "BTreeSet" | "Pin" => Shape::Own(Box::new(arg0())),
                    "HashMap" | "BTreeMap" | "Result" => fold_pairs(args.clone()),
                    // `Weak` exists both in std::rc and std::sync: not decidable from the name
                    "Weak" => return Err("field of type Weak<…>: rc or sync not decidable by name".into()),
                    n if PLAIN.contains(&n) => Shape::Plain,
                    n => match self.structs.get(n) {
                        Some(defs) if defs.len() == 1 => {
                            if stack.iter().any(|s| s == n) || stack.len() > 6 {
                                Shape::Ext
                            } else {
                                stack.push(n.to_string());
                                let r = self.struct_shape(&defs[0], stack);
                                stack.pop();
                                Shape::Own(Box::new(fold_pairs(r?)))
                            }
                        }
                        // declared more than once in the crate (different modules) or not at all
                        _ => Shape::Ext,
                    },
                }
            }
            other => return Err(format!("type outside the subset: {}", other.to_token_stream())),
        })
    }

    fn struct_shape(&self, s: &syn::ItemStruct, stack: &mut Vec<String>) -> Result<Vec<Shape>, String> {
        let generics: Vec<String> = s.generics.type_params().map(|p| p.ident.to_string()).collect();
        let mut out = vec![];
        for f in &s.fields {
            out.push(self.shape(&f.ty, &generics, stack)?);
        }
        Ok(out)
    }
}

// ------------------------------------------------------------------ RawList methods and lock sites

const WRITE_PRIMS: &[&str] = &[
    "swap_nonoverlapping", "swap", "copy_nonoverlapping", "copy", "copy_from", "copy_from_nonoverlapping",
    "copy_to", "copy_to_nonoverlapping", "write", "write_bytes", "write_unaligned", "write_volatile",
    "replace", "drop_in_place", "realloc_array", "dealloc_array", "alloc_array", "realloc", "dealloc",
    "as_mut", "as_mut_ptr", "get_mut", "set", "store", "fetch_add", "fetch_sub", "take",
];

#[derive(Default)]
struct BodyScan {
    /// write primitives and indirect calls through drop_fn / clone_fn
    writes: Vec<String>,
    /// methods called on `self`
    self_calls: Vec<String>,
    assigns_self: bool,
}

fn expr_root_is_self(e: &syn::Expr) -> bool {
    match e {
        syn::Expr::Path(p) => p.path.is_ident("self"),
        syn::Expr::Field(f) => expr_root_is_self(&f.base),
        syn::Expr::Paren(p) => expr_root_is_self(&p.expr),
        syn::Expr::Unary(u) => expr_root_is_self(&u.expr),
        syn::Expr::Index(i) => expr_root_is_self(&i.expr),
        _ => false,
    }
}

impl<'ast> Visit<'ast> for BodyScan {
    fn visit_item(&mut self, _: &'ast syn::Item) {
        // nested items (helper structs / impls inside a body) have their own `self`
    }
    fn visit_expr_call(&mut self, c: &'ast syn::ExprCall) {
        let f = c.func.to_token_stream().to_string().replace(' ', "");
        let last = f.rsplit("::").next().unwrap_or("").trim_matches(|ch| ch == '(' || ch == ')').to_string();
        if WRITE_PRIMS.contains(&last.as_str()) {
            self.writes.push(last);
        } else if f.contains("drop_fn") || f.contains("clone_fn") {
            self.writes.push(f);
        }
        syn::visit::visit_expr_call(self, c);
    }
    fn visit_expr_method_call(&mut self, m: &'ast syn::ExprMethodCall) {
        let name = m.method.to_string();
        let on_self = matches!(&*m.receiver, syn::Expr::Path(p) if p.path.is_ident("self"));
        if on_self {
            self.self_calls.push(name);
        } else if WRITE_PRIMS.contains(&name.as_str()) {
            self.writes.push(name);
        }
        syn::visit::visit_expr_method_call(self, m);
    }
    fn visit_expr_assign(&mut self, a: &'ast syn::ExprAssign) {
        if expr_root_is_self(&a.left) {
            self.assigns_self = true;
        }
        // `*p = v` / `*p.add(i) = v`: a store through a pointer or reference
        if matches!(&*a.left, syn::Expr::Unary(u) if matches!(u.op, syn::UnOp::Deref(_))) {
            self.writes.push("*place = value".into());
        }
        syn::visit::visit_expr_assign(self, a);
    }
    fn visit_expr_binary(&mut self, b: &'ast syn::ExprBinary) {
        use syn::BinOp::*;
        if matches!(
            b.op,
            AddAssign(_) | SubAssign(_) | MulAssign(_) | DivAssign(_) | RemAssign(_) | BitXorAssign(_)
                | BitAndAssign(_) | BitOrAssign(_) | ShlAssign(_) | ShrAssign(_)
        ) && expr_root_is_self(&b.left)
        {
            self.assigns_self = true;
        }
        syn::visit::visit_expr_binary(self, b);
    }
}

struct RawMethod {
    name: String,
    recv: &'static str, // .shared | .excl | .owned | .none
    writes: bool,
    why: String,
}

/// all `impl` blocks of a file, also inside (non-test) inline modules
fn impls_of<'a>(items: &'a [syn::Item], out: &mut Vec<&'a syn::ItemImpl>) {
    for it in items {
        match it {
            syn::Item::Impl(i) if !is_cfg_test(&i.attrs) => out.push(i),
            syn::Item::Mod(m) if !is_cfg_test(&m.attrs) => {
                if let Some((_, items)) = &m.content {
                    impls_of(items, out);
                }
            }
            _ => {}
        }
    }
}

fn raw_methods(files: &[&syn::File], ty: &str) -> Result<Vec<RawMethod>, String> {
    let mut out: Vec<(RawMethod, Vec<String>)> = vec![];
    let mut impls = vec![];
    for f in files {
        impls_of(&f.items, &mut impls);
    }
    for i in impls {
        let self_ty = i.self_ty.to_token_stream().to_string().replace(' ', "");
        if self_ty != ty && !self_ty.starts_with(&format!("{ty}<")) {
            continue;
        }
        for ii in &i.items {
            let syn::ImplItem::Fn(f) = ii else { continue };
            let recv = match f.sig.receiver() {
                None => ".none",
                Some(r) if r.reference.is_some() && r.mutability.is_some() => ".excl",
                Some(r) if r.reference.is_some() => ".shared",
                Some(_) => ".owned",
            };
            let name = if i.trait_.is_some() {
                // `Drop::drop` etc.: never callable through a guard by name clash with inherent methods
                format!("{}::{}", i.trait_.as_ref().unwrap().1.to_token_stream().to_string().replace(' ', ""), f.sig.ident)
            } else {
                f.sig.ident.to_string()
            };
            let mut scan = BodyScan::default();
            scan.visit_block(&f.block);
            let mut why = scan.writes.clone();
            if scan.assigns_self {
                why.push("assigns self.<field>".into());
            }
            out.push((
                RawMethod { name, recv, writes: !why.is_empty(), why: why.join(",") },
                scan.self_calls,
            ));
        }
    }
    // a method that calls a writing method on `self` writes
    loop {
        let writers: Vec<String> = out.iter().filter(|(m, _)| m.writes).map(|(m, _)| m.name.clone()).collect();
        let mut changed = false;
        for (m, calls) in out.iter_mut() {
            if !m.writes {
                if let Some(c) = calls.iter().find(|c| writers.contains(c)) {
                    m.writes = true;
                    m.why = format!("calls self.{c}");
                    changed = true;
                }
            }
        }
        if !changed {
            break;
        }
    }
    Ok(out.into_iter().map(|(m, _)| m).collect())
}

const LOCK_FNS: &[(&str, &str)] = &[
    ("lock", ".mutexLock"),
    ("try_lock", ".mutexLock"),
    ("read", ".rwRead"),
    ("try_read", ".rwRead"),
    ("write", ".rwWrite"),
    ("try_write", ".rwWrite"),
];

/// guard-returning helper methods of the file (`fn raw(&self) -> MutexGuard<..> { self.0.lock().unwrap() }`):
/// a call `<e>.helper()` is an acquisition in the helper's mode
type Helpers = Vec<(String, &'static str)>;

/// `<e>.0.lock()` (possibly followed by `.unwrap()` / `.expect(..)` / `?`), or a
/// call of a guard-returning helper → mode
fn lock_mode(e: &syn::Expr, helpers: &Helpers) -> Option<&'static str> {
    match e {
        syn::Expr::MethodCall(m) => {
            let name = m.method.to_string();
            if (name == "unwrap" || name == "expect" || name == "unwrap_or_else") && !matches!(&*m.receiver, syn::Expr::Path(_)) {
                return lock_mode(&m.receiver, helpers);
            }
            if m.args.is_empty() {
                if let Some((_, mode)) = LOCK_FNS.iter().find(|(n, _)| *n == name) {
                    if let syn::Expr::Field(f) = &*m.receiver {
                        if matches!(&f.member, syn::Member::Unnamed(i) if i.index == 0) {
                            return Some(mode);
                        }
                    }
                }
                if let Some((_, mode)) = helpers.iter().find(|(n, _)| *n == name) {
                    return Some(mode);
                }
            }
            None
        }
        syn::Expr::Try(t) => lock_mode(&t.expr, helpers),
        syn::Expr::Paren(p) => lock_mode(&p.expr, helpers),
        _ => None,
    }
}

/// is this method call the acquisition itself (not an `.unwrap()` around it)?
fn is_acquisition(m: &syn::ExprMethodCall, helpers: &Helpers) -> bool {
    let name = m.method.to_string();
    LOCK_FNS.iter().any(|(n, _)| *n == name) || helpers.iter().any(|(n, _)| *n == name)
}

/// functions whose body is nothing but an acquisition (tail expression)
struct HelperScan {
    found: Helpers,
}

impl<'ast> Visit<'ast> for HelperScan {
    fn visit_item_mod(&mut self, m: &'ast syn::ItemMod) {
        if !is_cfg_test(&m.attrs) {
            syn::visit::visit_item_mod(self, m);
        }
    }
    fn visit_impl_item_fn(&mut self, f: &'ast syn::ImplItemFn) {
        if let Some(syn::Stmt::Expr(e, None)) = f.block.stmts.last() {
            if f.block.stmts.len() == 1 {
                if let Some(mode) = lock_mode(e, &vec![]) {
                    self.found.push((f.sig.ident.to_string(), mode));
                }
            }
        }
    }
}

struct Site {
    func: String,
    guard: String,
    mode: &'static str,
    calls: Vec<String>,
    mut_borrow: bool,
}

struct SiteScan<'a> {
    func: String,
    sites: Vec<Site>,
    /// guard identifier → indices into `sites`: every acquisition bound to that
    /// name anywhere in the function (a use of the name counts for all of them)
    guards: BTreeMap<String, Vec<usize>>,
    raw_names: &'a [String],
    helpers: &'a Helpers,
    errors: Vec<String>,
}

/// wrappers through which an expression still denotes the guard / the list behind it
const TRANSPARENT: &[&str] = &[
    "unwrap", "expect", "unwrap_or", "unwrap_or_else", "as_ref", "as_deref", "deref", "borrow", "as_mut", "as_deref_mut",
    "deref_mut", "borrow_mut",
];
const TRANSPARENT_MUT: &[&str] = &["as_mut", "as_deref_mut", "deref_mut", "borrow_mut"];
/// constructors that only wrap the guard (`Some(b)`), and `drop`
const WRAPPERS: &[&str] = &["Some", "Ok", "drop", "std::mem::drop", "mem::drop"];

impl SiteScan<'_> {
    /// the guard an expression denotes, through parentheses, `*`, `&`, and transparent wrappers
    fn guard_of(&self, e: &syn::Expr) -> Option<Vec<usize>> {
        match e {
            syn::Expr::Path(p) => p.path.get_ident().and_then(|i| self.guards.get(&i.to_string()).cloned()),
            syn::Expr::Paren(p) => self.guard_of(&p.expr),
            syn::Expr::Unary(u) if matches!(u.op, syn::UnOp::Deref(_)) => self.guard_of(&u.expr),
            syn::Expr::Reference(r) => self.guard_of(&r.expr),
            syn::Expr::MethodCall(m) if TRANSPARENT.contains(&m.method.to_string().as_str()) => self.guard_of(&m.receiver),
            _ => None,
        }
    }
    fn root_guard(&self, e: &syn::Expr) -> Option<Vec<usize>> {
        match e {
            syn::Expr::Field(f) => self.root_guard(&f.base),
            syn::Expr::Index(i) => self.root_guard(&i.expr),
            other => self.guard_of(other),
        }
    }
    fn mark_mut(&mut self, idxs: &[usize]) {
        for &i in idxs {
            self.sites[i].mut_borrow = true;
        }
    }
}

fn pat_idents(p: &syn::Pat, out: &mut Vec<String>) {
    match p {
        syn::Pat::Ident(pi) => out.push(pi.ident.to_string()),
        syn::Pat::Tuple(t) => t.elems.iter().for_each(|e| pat_idents(e, out)),
        syn::Pat::TupleStruct(t) => t.elems.iter().for_each(|e| pat_idents(e, out)),
        syn::Pat::Type(t) => pat_idents(&t.pat, out),
        syn::Pat::Reference(r) => pat_idents(&r.pat, out),
        syn::Pat::Paren(r) => pat_idents(&r.pat, out),
        _ => {}
    }
}

impl<'ast> Visit<'ast> for SiteScan<'_> {
    fn visit_item(&mut self, _: &'ast syn::Item) {}
    fn visit_local(&mut self, l: &'ast syn::Local) {
        if let Some(init) = &l.init {
            if let Some(mode) = lock_mode(&init.expr, self.helpers) {
                // the receiver expression of the lock call is evaluated first
                syn::visit::visit_expr(self, &init.expr);
                // visiting registered a direct (unnamed) site for this chain: name it
                let idx = self.sites.len() - 1;
                debug_assert_eq!(self.sites[idx].mode, mode);
                match &l.pat {
                    syn::Pat::Ident(pi) => {
                        self.sites[idx].guard = pi.ident.to_string();
                        self.guards.entry(pi.ident.to_string()).or_default().push(idx);
                    }
                    other => self.errors.push(format!(
                        "{}: lock guard bound by a pattern outside the subset: {}",
                        self.func,
                        other.to_token_stream()
                    )),
                }
                return;
            }
        }
        match &l.pat {
            // `let x = <something else>` shadows a guard of that name
            syn::Pat::Ident(pi) => {
                let n = pi.ident.to_string();
                if let Some(init) = &l.init {
                    syn::visit::visit_expr(self, &init.expr);
                    // … unless it merely re-wraps the guard (`let b = Some(b)`)
                    if self.guard_of(&init.expr).is_some() {
                        return;
                    }
                }
                self.guards.remove(&n);
            }
            // `let (a, b) = if … { let x = p.0.lock().unwrap(); …; (x, Some(y)) } else { … }`:
            // the names bound inside the branches stay guards under their names, and every name
            // of the pattern may denote any acquisition made inside the initialiser
            other => {
                let before = self.sites.len();
                syn::visit::visit_local(self, l);
                let mut fresh: Vec<usize> = (before..self.sites.len()).collect();
                // … or any guard the initialiser mentions (`let (this, other) = if swap { (second, first) } else { … }`)
                if let Some(init) = &l.init {
                    struct Idents(Vec<String>);
                    impl<'a> Visit<'a> for Idents {
                        fn visit_expr_path(&mut self, p: &'a syn::ExprPath) {
                            if let Some(i) = p.path.get_ident() {
                                self.0.push(i.to_string());
                            }
                        }
                    }
                    let mut ids = Idents(vec![]);
                    ids.visit_expr(&init.expr);
                    for n in ids.0 {
                        if let Some(v) = self.guards.get(&n) {
                            for i in v {
                                if !fresh.contains(i) {
                                    fresh.push(*i);
                                }
                            }
                        }
                    }
                }
                if !fresh.is_empty() {
                    let mut names = vec![];
                    pat_idents(other, &mut names);
                    for n in names {
                        let e = self.guards.entry(n).or_default();
                        for i in &fresh {
                            if !e.contains(i) {
                                e.push(*i);
                            }
                        }
                    }
                }
            }
        }
    }
    fn visit_expr_method_call(&mut self, m: &'ast syn::ExprMethodCall) {
        let name = m.method.to_string();
        // the lock acquisition itself
        if let Some(mode) = lock_mode(&syn::Expr::MethodCall(m.clone()), self.helpers) {
            if is_acquisition(m, self.helpers) {
                syn::visit::visit_expr(self, &m.receiver);
                self.sites.push(Site { func: self.func.clone(), guard: "<temporary>".into(), mode, calls: vec![], mut_borrow: false });
                return;
            }
        }
        // a method invoked on a guard: either a named guard or directly on the chain
        let direct = lock_mode(&m.receiver, self.helpers).is_some();
        if direct {
            syn::visit::visit_expr(self, &m.receiver);
            let idx = self.sites.len() - 1;
            if !TRANSPARENT.contains(&name.as_str()) {
                self.sites[idx].calls.push(name.clone());
            }
        } else if let Some(idxs) = self.guard_of(&m.receiver) {
            if TRANSPARENT.contains(&name.as_str()) {
                if TRANSPARENT_MUT.contains(&name.as_str()) {
                    self.mark_mut(&idxs);
                }
            } else {
                for i in idxs {
                    self.sites[i].calls.push(name.clone());
                }
            }
        } else {
            syn::visit::visit_expr(self, &m.receiver);
        }
        for a in &m.args {
            syn::visit::visit_expr(self, a);
        }
    }
    fn visit_expr_reference(&mut self, r: &'ast syn::ExprReference) {
        if r.mutability.is_some() {
            if let Some(idxs) = self.root_guard(&r.expr) {
                self.mark_mut(&idxs);
            }
        }
        syn::visit::visit_expr_reference(self, r);
    }
    fn visit_expr_assign(&mut self, a: &'ast syn::ExprAssign) {
        if let Some(idxs) = self.root_guard(&a.left) {
            self.mark_mut(&idxs);
        }
        syn::visit::visit_expr_assign(self, a);
    }
    fn visit_expr_call(&mut self, c: &'ast syn::ExprCall) {
        // a guard moved (by value) into a function other than a wrapper / `drop` leaves the subset;
        // `f(&guard)` is a read, `f(&mut guard)` is caught by visit_expr_reference
        let f = c.func.to_token_stream().to_string().replace(' ', "");
        for a in &c.args {
            let by_value = !matches!(a, syn::Expr::Reference(_));
            if by_value && !WRAPPERS.contains(&f.as_str()) {
                if let Some(idxs) = self.guard_of(a) {
                    self.errors.push(format!(
                        "{}: lock guard `{}` handed to `{f}` by value (outside the subset)",
                        self.func, self.sites[idxs[0]].guard
                    ));
                }
            }
        }
        syn::visit::visit_expr_call(self, c);
    }
}

struct FnWalk<'a> {
    path: Vec<String>,
    sites: Vec<Site>,
    raw_names: &'a [String],
    helpers: &'a Helpers,
    errors: Vec<String>,
    skip_impl_of: &'a str,
}

impl FnWalk<'_> {
    fn scan(&mut self, name: String, block: &syn::Block) {
        let mut s = SiteScan { func: name, sites: vec![], guards: BTreeMap::new(), raw_names: self.raw_names, helpers: self.helpers, errors: vec![] };
        s.visit_block(block);
        self.sites.append(&mut s.sites);
        self.errors.append(&mut s.errors);
    }
}

impl<'ast> Visit<'ast> for FnWalk<'_> {
    fn visit_item_mod(&mut self, m: &'ast syn::ItemMod) {
        if is_cfg_test(&m.attrs) {
            return;
        }
        self.path.push(m.ident.to_string());
        syn::visit::visit_item_mod(self, m);
        self.path.pop();
    }
    fn visit_item_impl(&mut self, i: &'ast syn::ItemImpl) {
        let ty = i.self_ty.to_token_stream().to_string().replace(' ', "");
        if ty == self.skip_impl_of {
            return;
        }
        let label = match &i.trait_ {
            Some((_, p, _)) => format!("<{} as {}>", ty, p.to_token_stream().to_string().replace(' ', "")),
            None => ty,
        };
        self.path.push(label);
        syn::visit::visit_item_impl(self, i);
        self.path.pop();
    }
    fn visit_impl_item_fn(&mut self, f: &'ast syn::ImplItemFn) {
        let name = format!("{}::{}", self.path.join("::"), f.sig.ident);
        self.scan(name, &f.block);
    }
    fn visit_item_fn(&mut self, f: &'ast syn::ItemFn) {
        let name = format!("{}::{}", self.path.join("::"), f.sig.ident);
        self.scan(name, &f.block);
    }
}

// ------------------------------------------------------------------ closures inside TypedFunc methods

struct ClosureFact {
    func: String,
    is_move: bool,
    whole_self: bool,
    fields: Vec<String>,
}

fn flatten(ts: TokenStream, out: &mut Vec<TokenTree>) {
    for t in ts {
        match &t {
            TokenTree::Group(g) => {
                // keep the group itself as a marker (for "followed by a call"), then its content
                out.push(t.clone());
                flatten(g.stream(), out);
            }
            _ => out.push(t),
        }
    }
}

/// uses of `self` inside a token sequence
fn self_uses(body: TokenStream) -> (bool, Vec<String>) {
    let mut toks = vec![];
    flatten(body, &mut toks);
    let mut whole = false;
    let mut fields: Vec<String> = vec![];
    let mut i = 0;
    while i < toks.len() {
        if matches!(&toks[i], TokenTree::Ident(id) if id == "self") {
            let dot = matches!(toks.get(i + 1), Some(TokenTree::Punct(p)) if p.as_char() == '.');
            match (dot, toks.get(i + 2)) {
                (true, Some(TokenTree::Ident(f))) => {
                    let is_call = matches!(toks.get(i + 3), Some(TokenTree::Group(g)) if g.delimiter() == Delimiter::Parenthesis)
                        || matches!(toks.get(i + 3), Some(TokenTree::Punct(p)) if p.as_char() == ':');
                    if is_call {
                        whole = true; // a method call on `self` uses all of it
                    } else if !fields.contains(&f.to_string()) {
                        fields.push(f.to_string());
                    }
                }
                (true, Some(TokenTree::Literal(l))) => {
                    let f = l.to_string();
                    if !fields.contains(&f) {
                        fields.push(f);
                    }
                }
                _ => whole = true,
            }
        }
        i += 1;
    }
    (whole, fields)
}

/// every `fn <name>(…self…) … { body }` in a token stream whose body builds a closure
fn closures_in_tokens(ts: TokenStream, out: &mut Vec<ClosureFact>) {
    let toks: Vec<TokenTree> = ts.into_iter().collect();
    let mut i = 0;
    while i < toks.len() {
        if let TokenTree::Group(g) = &toks[i] {
            closures_in_tokens(g.stream(), out);
        }
        if matches!(&toks[i], TokenTree::Ident(id) if id == "fn") {
            if let Some(TokenTree::Ident(name)) = toks.get(i + 1) {
                // parameter list = next parenthesised group, body = next brace group
                let mut j = i + 2;
                let mut params = None;
                let mut body = None;
                while j < toks.len() {
                    match &toks[j] {
                        TokenTree::Group(g) if g.delimiter() == Delimiter::Parenthesis && params.is_none() => {
                            params = Some(g.stream())
                        }
                        TokenTree::Group(g) if g.delimiter() == Delimiter::Brace => {
                            body = Some(g.stream());
                            break;
                        }
                        TokenTree::Punct(p) if p.as_char() == ';' => break,
                        _ => {}
                    }
                    j += 1;
                }
                if let (Some(params), Some(body)) = (params, body) {
                    let takes_self = params.clone().into_iter().any(|t| matches!(&t, TokenTree::Ident(id) if id == "self"));
                    if takes_self {
                        // the closure: from the first `|` (optionally preceded by `move`) to the end of the body
                        let bt: Vec<TokenTree> = body.into_iter().collect();
                        if let Some(bar) = bt.iter().position(|t| matches!(t, TokenTree::Punct(p) if p.as_char() == '|')) {
                            let is_move = bar > 0 && matches!(&bt[bar - 1], TokenTree::Ident(id) if id == "move");
                            let closure: TokenStream = bt[bar..].iter().cloned().collect();
                            let (whole_self, fields) = self_uses(closure);
                            if whole_self || !fields.is_empty() {
                                out.push(ClosureFact { func: name.to_string(), is_move, whole_self, fields });
                            }
                        }
                    }
                    i = j;
                }
            }
        }
        i += 1;
    }
}

// ------------------------------------------------------------------ the target

fn ty_tag(n: &str) -> String {
    match n {
        "RawList" => ".rawList".into(),
        "FunctionDescription" => ".functionDescription".into(),
        "ModuleData" => ".moduleData".into(),
        "TypedFunc" => ".typedFunc".into(),
        "DynVal" => ".dynVal".into(),
        _ => ".other".into(),
    }
}

pub fn c12sharing(repo: &Path) -> Result<String, String> {
    // 1. every struct and every unsafe auto-trait impl under src/
    let mut files = vec![];
    rs_files(&repo.join("src"), &mut files)?;
    let mut decls = Decls::default();
    let mut parsed: Vec<syn::File> = vec![];
    for p in &files {
        let rel = p.strip_prefix(repo).unwrap_or(p).to_string_lossy().to_string();
        let text = std::fs::read_to_string(p).map_err(|e| format!("{rel}: {e}"))?;
        let file = syn::parse_file(&text).map_err(|e| format!("cannot parse {rel}: {e}"))?;
        decls.cur_file = rel;
        decls.visit_file(&file);
        parsed.push(file);
    }
    let all_files: Vec<&syn::File> = parsed.iter().collect();
    if !decls.renames.is_empty() {
        return Err(format!("renamed ownership / lock types (shape by name is not decidable): {}", decls.renames.join("; ")));
    }
    let shaper = Shaper { structs: &decls.structs };

    let mut roots: Vec<String> = vec![];
    for (_, ty, _) in &decls.unsafe_impls {
        if !roots.contains(ty) {
            roots.push(ty.clone());
        }
    }
    for must in ["RawList", "FunctionDescription", "ModuleData", "TypedFunc"] {
        if !roots.iter().any(|r| r == must) {
            // the claim disappeared: nothing to justify for that type, but say so
            roots.push(must.to_string());
        }
    }
    let mut unsafe_lines = vec![];
    let mut typed_func_fields: Option<(Vec<String>, Vec<Shape>)> = None;
    for ty in &roots {
        let defs = decls.structs.get(ty).ok_or(format!("unsafe impl Send/Sync for {ty}: struct definition not found"))?;
        if defs.len() != 1 {
            return Err(format!("unsafe impl Send/Sync for {ty}: {} struct definitions of that name", defs.len()));
        }
        let mut stack = vec![ty.clone()];
        let shapes = shaper.struct_shape(&defs[0], &mut stack)?;
        let names: Vec<String> = defs[0]
            .fields
            .iter()
            .enumerate()
            .map(|(i, f)| f.ident.as_ref().map(|x| x.to_string()).unwrap_or(i.to_string()))
            .collect();
        let send = decls.unsafe_impls.iter().any(|(t, n, _)| t == "Send" && n == ty);
        let sync = decls.unsafe_impls.iter().any(|(t, n, _)| t == "Sync" && n == ty);
        let file = decls.unsafe_impls.iter().find(|(_, n, _)| n == ty).map(|x| x.2.clone()).unwrap_or_default();
        // `&self` methods of the type (plain impls; macro-generated ones are not visible) that write
        let shared_writers: Vec<String> = raw_methods(&all_files, ty)?
            .into_iter()
            .filter(|m| m.recv == ".shared" && m.writes)
            .map(|m| format!("{} ({})", m.name, m.why))
            .collect();
        unsafe_lines.push(format!(
            "    -- {ty} ({file}): fields {}; &self methods that write: [{}]\n    {{ ty := {}, send := {send}, sync := {sync}, fields := [{}], sharedWriters := {} }}",
            names.join(", "),
            shared_writers.join("; "),
            ty_tag(ty),
            shapes.iter().map(|s| s.lean()).collect::<Vec<_>>().join(", "),
            shared_writers.len()
        ));
        if ty == "TypedFunc" {
            typed_func_fields = Some((names, shapes));
        }
    }
    let (tf_names, tf_shapes) = typed_func_fields.ok_or("struct TypedFunc not found")?;

    // 2. the list: cell shape, RawList methods, lock sites
    let list = find::parse(repo, "src/value/list.rs")?;
    let erased = decls.structs.get("ErasedList").and_then(|d| d.first()).ok_or("struct ErasedList not found")?;
    let cell_ty = &erased.fields.iter().next().ok_or("ErasedList has no field")?.ty;
    // the cell is described without inlining RawList (its fields are listed among the unsafe types)
    let empty = BTreeMap::new();
    let cell = Shaper { structs: &empty }.shape(cell_ty, &[], &mut vec![])?;
    let methods = raw_methods(&[&list], "RawList")?;
    if methods.is_empty() {
        return Err("no inherent methods of RawList found in src/value/list.rs".into());
    }
    let raw_names: Vec<String> = methods.iter().map(|m| m.name.clone()).collect();
    let mut hs = HelperScan { found: vec![] };
    hs.visit_file(&list);
    for (n, _) in &hs.found {
        if raw_names.contains(n) {
            return Err(format!("guard-returning helper `{n}` has the name of a RawList method"));
        }
    }
    let helpers: Helpers = hs.found;
    let mut walk = FnWalk { path: vec![], sites: vec![], raw_names: &raw_names, helpers: &helpers, errors: vec![], skip_impl_of: "RawList" };
    walk.visit_file(&list);
    if !walk.errors.is_empty() {
        return Err(walk.errors.join("; "));
    }
    if walk.sites.is_empty() && !matches!(cell, Shape::Arc(ref t) if matches!(**t, Shape::Ext)) {
        // no lock acquisition recognised at all: the Lean decision sees an empty site list
        // together with the cell shape and fails unless nothing mutates
    }
    let mut site_lines = vec![];
    for s in &walk.sites {
        let mut idxs = vec![];
        for c in &s.calls {
            match raw_names.iter().position(|n| n == c) {
                Some(i) => idxs.push(i.to_string()),
                None => {
                    return Err(format!(
                        "{}: method `{c}` invoked on the list guard `{}` is not a method of RawList",
                        s.func, s.guard
                    ))
                }
            }
        }
        site_lines.push(format!(
            "    -- {} guard `{}` calls [{}]\n    {{ mode := {}, calls := [{}], mutBorrow := {} }}",
            s.func,
            s.guard,
            s.calls.join(", "),
            s.mode,
            idxs.join(", "),
            s.mut_borrow
        ));
    }

    // 3. closures built by methods of TypedFunc (macro bodies and plain impls of codegen/mod.rs)
    let codegen_text = std::fs::read_to_string(repo.join("src/codegen/mod.rs")).map_err(|e| format!("src/codegen/mod.rs: {e}"))?;
    let codegen = syn::parse_file(&codegen_text).map_err(|e| format!("cannot parse src/codegen/mod.rs: {e}"))?;
    let mut closures: Vec<ClosureFact> = vec![];
    let mut macro_closures: Vec<(String, Vec<usize>)> = vec![];
    for it in &codegen.items {
        match it {
            syn::Item::Macro(m) if m.mac.path.is_ident("macro_rules") => {
                let body = m.mac.tokens.to_string();
                if body.contains("TypedFunc") {
                    let before = closures.len();
                    closures_in_tokens(m.mac.tokens.clone(), &mut closures);
                    let name = m.ident.as_ref().map(|i| i.to_string()).unwrap_or_default();
                    macro_closures.push((name, (before..closures.len()).collect()));
                }
            }
            syn::Item::Impl(i) => {
                let ty = i.self_ty.to_token_stream().to_string();
                if ty.starts_with("TypedFunc") && i.trait_.is_none() {
                    closures_in_tokens(i.to_token_stream(), &mut closures);
                }
            }
            _ => {}
        }
    }
    if closures.is_empty() {
        return Err("no closure-building method of TypedFunc (into_func) found in src/codegen/mod.rs".into());
    }
    let mut closure_lines = vec![];
    for c in &closures {
        let mut idxs = vec![];
        for f in &c.fields {
            match tf_names.iter().position(|n| n == f) {
                Some(i) => idxs.push(i.to_string()),
                None => return Err(format!("closure in TypedFunc::{} mentions self.{f}, which is not a field of TypedFunc", c.func)),
            }
        }
        closure_lines.push(format!(
            "    -- TypedFunc::{}: uses self as a whole: {}, fields mentioned: [{}]\n    {{ isMove := {}, wholeSelf := {}, fields := [{}] }}",
            c.func,
            c.whole_self,
            c.fields.join(", "),
            c.is_move,
            c.whole_self,
            idxs.join(", ")
        ));
    }

    // 4. edition
    let cargo = std::fs::read_to_string(repo.join("Cargo.toml")).map_err(|e| format!("Cargo.toml: {e}"))?;
    let edition: u32 = cargo
        .lines()
        .filter_map(|l| {
            let l = l.trim();
            l.strip_prefix("edition").map(|r| r.trim_start().trim_start_matches('=').trim().trim_matches('"').to_string())
        })
        .filter_map(|v| v.parse().ok())
        .next()
        .ok_or("Cargo.toml: no `edition = \"…\"` line")?;

    let mut s = String::new();
    s.push_str("/- GENERATED by /verif/extract (target c12sharing) from src/**/*.rs (unsafe impl Send/Sync, struct fields), src/value/list.rs (RawList methods, lock sites), src/codegen/mod.rs (closures of TypedFunc methods), Cargo.toml — do not edit. -/\nimport RotoV.Model.ConcShare\nnamespace RotoV.Gen.C12Sharing\nopen RotoV.Conc.Share\n\n");
    s.push_str("def facts : Facts where\n");
    s.push_str(&format!("  edition := {edition}\n"));
    s.push_str(&format!("  unsafeTypes := [\n{}]\n", unsafe_lines.join(",\n")));
    s.push_str(&format!("  listCell := {}\n", cell.lean()));
    s.push_str(&format!(
        "  rawMethods := [\n{}]\n",
        methods
            .iter()
            .enumerate()
            .map(|(i, m)| format!(
                "    -- {i}: RawList::{}{}\n    {{ recv := {}, writes := {} }}",
                m.name,
                if m.why.is_empty() { String::new() } else { format!("  ({})", m.why) },
                m.recv,
                m.writes
            ))
            .collect::<Vec<_>>()
            .join(",\n")
    ));
    s.push_str(&format!("  lockSites := [\n{}]\n", site_lines.join(",\n")));
    s.push_str(&format!(
        "  -- TypedFunc fields: {}\n  typedFuncFields := [{}]\n",
        tf_names.join(", "),
        tf_shapes.iter().map(|x| x.lean()).collect::<Vec<_>>().join(", ")
    ));
    s.push_str(&format!("  -- macros: {:?}\n  closures := [\n{}]\n", macro_closures, closure_lines.join(",\n")));
    s.push_str("\nend RotoV.Gen.C12Sharing\n");
    Ok(s)
}
