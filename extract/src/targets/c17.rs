//! Translator targets owned by property C17.
//!
//! `bindings` → `RotoV/Generated/Bindings.lean`: the table of every built-in
//! registered by `runtime::basic::built_ins()` through the `library!` macro,
//! with, for each one, the Rust operation its body forwards to (first hop,
//! `call`/`args`/`pre`/`post`) and the operation finally reached in
//! `value/string.rs` / `value/string_buf.rs` / std / inetnum (second hop,
//! `std`).
//!
//! The `library!` token streams are walked by hand (they are not Rust items);
//! every construct that is not understood is an `Err`.
use super::{Gen, Target};
use crate::find;
use proc_macro2::{Delimiter, TokenStream, TokenTree};
use quote::ToTokens;
use std::path::Path;

pub const TARGETS: &[Target] = &[
    ("bindings", "Bindings", bindings as Gen),
    ("c17views", "C17Views", c17views as Gen),
];

/// `c17views` → `RotoV/Generated/C17Views.lean`: the bodies of the byte / char / line view
/// methods of `src/value/string.rs` as Lean DEFINITIONS (not token text), transliterated by
/// the statement translator C10 wrote for the same methods (`c10::c10builtins`: `?` on
/// options, `checked_sub`, iterator `nth`, the skip/take loops, `&s[a..b]` with its panic
/// explicit; `if let` and `match` on an option give the same Lean `match`).  Only the
/// string.rs part of that output is kept, under its own module name, so that C17 builds and
/// reads its own generated module.  `Props/C17.lean` proves the documented meaning over these
/// definitions (`gen_chars_*`), so a changed arm or offset changes the definition the
/// theorem is about, and a behaviour-preserving rewrite inside the translator's subset does
/// not disturb it.
fn c17views(repo: &Path) -> Result<String, String> {
    let all = super::c10::c10builtins(repo)?;
    let cut = all
        .find("def RawList_offset_of")
        .ok_or("c17views: end of the string.rs part (`def RawList_offset_of`) not found in the C10 transliteration")?;
    let mut out = all[..cut].replace("C10Builtins", "C17Views");
    // ... and the nine closures of basic.rs that bind the views (u64 arguments converted with
    // `try_into().ok()?`, then the string.rs method): the script-visible built-ins
    let b0 = all.find("def bind_StringBytes_len").ok_or("c17views: `def bind_StringBytes_len` not found in the C10 transliteration")?;
    let b1 = all.find("def bind_RotoString_repeat").ok_or("c17views: `def bind_RotoString_repeat` not found in the C10 transliteration")?;
    if b1 < b0 || b0 < cut {
        return Err("c17views: unexpected order of the view bindings in the C10 transliteration".into());
    }
    out.push_str(&all[b0..b1]);
    for f in ["StringBytes_len", "StringBytes_get", "StringBytes_slice", "StringChars_len", "StringChars_get",
        "StringChars_slice", "StringLines_len", "StringLines_get", "StringLines_slice", "bind_StringBytes_get",
        "bind_StringBytes_slice", "bind_StringChars_get", "bind_StringChars_slice", "bind_StringLines_get",
        "bind_StringLines_slice"] {
        if !out.contains(&format!("def {f} ")) {
            return Err(format!("c17views: definition `{f}` missing from the transliteration"));
        }
    }
    out.push_str("end RotoV.Gen.C17Views\n");
    Ok(out)
}

const BASIC: &str = "src/runtime/basic.rs";
const STRING: &str = "src/value/string.rs";
const STRING_BUF: &str = "src/value/string_buf.rs";

const STRING_TYPES: &[&str] = &["RotoString", "StringBytes", "StringChars", "StringLines"];
const MAX_INCLUDE_DEPTH: usize = 16;

// ---------------------------------------------------------------------------
// token text

fn compact_into(ts: TokenStream, out: &mut String) {
    for tt in ts {
        match tt {
            TokenTree::Group(g) => {
                let (o, c) = match g.delimiter() {
                    Delimiter::Parenthesis => ("(", ")"),
                    Delimiter::Brace => ("{", "}"),
                    Delimiter::Bracket => ("[", "]"),
                    Delimiter::None => ("", ""),
                };
                out.push_str(o);
                compact_into(g.stream(), out);
                out.push_str(c);
            }
            TokenTree::Ident(i) => out.push_str(&i.to_string()),
            TokenTree::Punct(p) => out.push(p.as_char()),
            // a literal keeps its own text (incl. spaces inside strings)
            TokenTree::Literal(l) => out.push_str(&l.to_string()),
        }
    }
}

/// Token text with all inter-token spaces removed.
fn compact(ts: TokenStream) -> String {
    let mut s = String::new();
    compact_into(ts, &mut s);
    s
}

fn txt<T: ToTokens>(t: &T) -> String {
    compact(t.to_token_stream())
}

fn is_punct(t: &TokenTree, c: char) -> bool {
    matches!(t, TokenTree::Punct(p) if p.as_char() == c)
}

fn describe(t: &TokenTree) -> String {
    let s = t.to_string();
    let mut short: String = s.chars().take(60).collect();
    if short.len() < s.len() {
        short.push('…');
    }
    short
}

// ---------------------------------------------------------------------------
// walking `library! { … }`

struct TypeDecl {
    script: String,
    rust: String,
    attr: String,
}

struct Walk<'a> {
    file: &'a syn::File,
    types: Vec<TypeDecl>,
    impls: Vec<syn::ItemImpl>,
}

fn attr_name(a: &syn::Attribute) -> String {
    txt(a.path())
}

/// The single `library! { … }` invocation that makes up the body of `f`.
fn library_of_fn(f: &syn::ItemFn) -> Result<TokenStream, String> {
    let name = &f.sig.ident;
    if f.block.stmts.len() != 1 {
        return Err(format!(
            "fn {name}: body is not a single `library!` invocation ({} statements)",
            f.block.stmts.len()
        ));
    }
    let mac = match &f.block.stmts[0] {
        syn::Stmt::Macro(m) if m.semi_token.is_none() => &m.mac,
        syn::Stmt::Expr(syn::Expr::Macro(m), None) => &m.mac,
        other => {
            return Err(format!(
                "fn {name}: body is not a `library!` invocation: {}",
                txt(other)
            ))
        }
    };
    if !mac.path.is_ident("library") {
        return Err(format!(
            "fn {name}: body invokes `{}!`, expected `library!`",
            txt(&mac.path)
        ));
    }
    Ok(mac.tokens.clone())
}

fn substitute(ts: TokenStream, var: &str, arg: &TokenStream) -> Result<TokenStream, String> {
    let toks: Vec<TokenTree> = ts.into_iter().collect();
    let mut out: Vec<TokenTree> = vec![];
    let mut i = 0;
    while i < toks.len() {
        match &toks[i] {
            t if is_punct(t, '$') => match toks.get(i + 1) {
                Some(TokenTree::Ident(id)) if id == var => {
                    out.extend(arg.clone());
                    i += 2;
                }
                other => {
                    return Err(format!(
                        "macro_rules body: `$` followed by {:?}, only `${var}` is bound",
                        other.map(describe)
                    ))
                }
            },
            TokenTree::Group(g) => {
                let inner = substitute(g.stream(), var, arg)?;
                let mut ng = proc_macro2::Group::new(g.delimiter(), inner);
                ng.set_span(g.span());
                out.push(TokenTree::Group(ng));
                i += 1;
            }
            t => {
                out.push(t.clone());
                i += 1;
            }
        }
    }
    Ok(out.into_iter().collect())
}

impl<'a> Walk<'a> {
    fn top_fn(&self, name: &str) -> Result<&'a syn::ItemFn, String> {
        let hits: Vec<&syn::ItemFn> = self
            .file
            .items
            .iter()
            .filter_map(|i| match i {
                syn::Item::Fn(f) if f.sig.ident == name => Some(f),
                _ => None,
            })
            .collect();
        match hits.len() {
            1 => Ok(hits[0]),
            n => Err(format!("{BASIC}: {n} definitions of fn {name}")),
        }
    }

    fn top_macro_rules(&self, name: &str) -> Result<&'a syn::ItemMacro, String> {
        let hits: Vec<&syn::ItemMacro> = self
            .file
            .items
            .iter()
            .filter_map(|i| match i {
                syn::Item::Macro(m)
                    if m.mac.path.is_ident("macro_rules")
                        && m.ident.as_ref().map(|x| x == name).unwrap_or(false) =>
                {
                    Some(m)
                }
                _ => None,
            })
            .collect();
        match hits.len() {
            1 => Ok(hits[0]),
            n => Err(format!("{BASIC}: {n} definitions of macro_rules! {name}")),
        }
    }

    /// `name!(ARG)`: expand the single rule of `macro_rules! name` and
    /// return the token stream inside the `library! { … }` it produces.
    fn expand_macro(&self, name: &str, arg: TokenStream) -> Result<TokenStream, String> {
        let m = self.top_macro_rules(name)?;
        let toks: Vec<TokenTree> = m.mac.tokens.clone().into_iter().collect();
        let tail_ok = match toks.len() {
            4 => true,
            5 => is_punct(&toks[4], ';'),
            _ => false,
        };
        let (matcher, rhs) = match toks.get(..4) {
            Some([TokenTree::Group(l), eq, gt, TokenTree::Group(r)])
                if tail_ok && is_punct(eq, '=') && is_punct(gt, '>') =>
            {
                (l, r)
            }
            _ => {
                return Err(format!(
                    "macro_rules! {name}: not of the single-rule form `(…) => {{…}}`"
                ))
            }
        };
        let mt: Vec<TokenTree> = matcher.stream().into_iter().collect();
        let var = match mt.as_slice() {
            [d, TokenTree::Ident(v), c, TokenTree::Ident(_frag)]
                if is_punct(d, '$') && is_punct(c, ':') =>
            {
                v.to_string()
            }
            _ => {
                return Err(format!(
                    "macro_rules! {name}: matcher `{}` is not `$x:frag`",
                    compact(matcher.stream())
                ))
            }
        };
        if arg.is_empty() {
            return Err(format!("{name}!(): empty argument"));
        }
        let body = substitute(rhs.stream(), &var, &arg)?;
        let bt: Vec<TokenTree> = body.into_iter().collect();
        match bt.as_slice() {
            [TokenTree::Ident(l), bang, TokenTree::Group(g)]
                if l == "library" && is_punct(bang, '!') =>
            {
                Ok(g.stream())
            }
            _ => Err(format!(
                "macro_rules! {name}: expansion is not a single `library! {{…}}`"
            )),
        }
    }

    fn include(&mut self, arg: TokenStream, depth: usize) -> Result<(), String> {
        let t: Vec<TokenTree> = arg.clone().into_iter().collect();
        let inner = match t.as_slice() {
            [TokenTree::Ident(name), bang, TokenTree::Group(g)] if is_punct(bang, '!') => {
                self.expand_macro(&name.to_string(), g.stream())?
            }
            [TokenTree::Ident(name), TokenTree::Group(g)]
                if g.delimiter() == Delimiter::Parenthesis && g.stream().is_empty() =>
            {
                let f = self.top_fn(&name.to_string())?;
                if !f.sig.inputs.is_empty() {
                    return Err(format!("include!({name}()): fn {name} takes parameters"));
                }
                library_of_fn(f)?
            }
            _ => {
                return Err(format!(
                    "include!({}): argument is neither `name!(T)` nor `name()`",
                    compact(arg)
                ))
            }
        };
        self.walk(inner, depth + 1)
    }

    fn walk(&mut self, ts: TokenStream, depth: usize) -> Result<(), String> {
        if depth > MAX_INCLUDE_DEPTH {
            return Err("library!: include! nesting too deep (cycle?)".into());
        }
        let toks: Vec<TokenTree> = ts.into_iter().collect();
        let mut attrs: Vec<TokenTree> = vec![];
        let mut i = 0;
        let semi_from = |from: usize, what: &str| -> Result<usize, String> {
            (from..toks.len())
                .find(|&j| is_punct(&toks[j], ';'))
                .ok_or_else(|| format!("library!: `{what}` item without terminating `;`"))
        };
        while i < toks.len() {
            match &toks[i] {
                t if is_punct(t, '#') => match toks.get(i + 1) {
                    Some(TokenTree::Group(g)) if g.delimiter() == Delimiter::Bracket => {
                        attrs.push(toks[i].clone());
                        attrs.push(toks[i + 1].clone());
                        i += 2;
                    }
                    other => {
                        return Err(format!(
                            "library!: `#` followed by {:?}",
                            other.map(describe)
                        ))
                    }
                },
                TokenTree::Ident(id) => {
                    let kw = id.to_string();
                    match kw.as_str() {
                        "use" => {
                            if !attrs.is_empty() {
                                return Err("library!: attributes on a `use` item".into());
                            }
                            i = semi_from(i, "use")? + 1;
                        }
                        "type" => {
                            let j = semi_from(i, "type")?;
                            let item: TokenStream = attrs
                                .drain(..)
                                .chain(toks[i..=j].iter().cloned())
                                .collect();
                            let text = compact(item.clone());
                            let it: syn::ItemType = syn::parse2(item)
                                .map_err(|e| format!("library!: cannot parse `{text}`: {e}"))?;
                            self.type_decl(&it)?;
                            i = j + 1;
                        }
                        "impl" => {
                            let j = (i..toks.len())
                                .find(|&j| {
                                    matches!(&toks[j], TokenTree::Group(g) if g.delimiter() == Delimiter::Brace)
                                })
                                .ok_or("library!: `impl` without a body")?;
                            let item: TokenStream = attrs
                                .drain(..)
                                .chain(toks[i..=j].iter().cloned())
                                .collect();
                            let head = compact(toks[i..j].iter().cloned().collect());
                            let it: syn::ItemImpl = syn::parse2(item)
                                .map_err(|e| format!("library!: cannot parse `{head} {{…}}`: {e}"))?;
                            if it.trait_.is_some()
                                || !it.generics.params.is_empty()
                                || it.generics.where_clause.is_some()
                                || it.unsafety.is_some()
                                || it.defaultness.is_some()
                            {
                                return Err(format!(
                                    "library!: `{head}` is not a plain `impl TYPE {{…}}`"
                                ));
                            }
                            if let Some(a) = it.attrs.iter().find(|a| attr_name(a) != "doc") {
                                return Err(format!(
                                    "library!: unsupported attribute `{}` on `{head}`",
                                    txt(a)
                                ));
                            }
                            self.impls.push(it);
                            i = j + 1;
                        }
                        "include" => {
                            if !attrs.is_empty() {
                                return Err("library!: attributes on `include!`".into());
                            }
                            match (toks.get(i + 1), toks.get(i + 2), toks.get(i + 3)) {
                                (Some(b), Some(TokenTree::Group(g)), Some(s))
                                    if is_punct(b, '!')
                                        && g.delimiter() == Delimiter::Parenthesis
                                        && is_punct(s, ';') =>
                                {
                                    self.include(g.stream(), depth)?;
                                    i += 4;
                                }
                                _ => {
                                    return Err(
                                        "library!: malformed `include!(…);` item".to_string()
                                    )
                                }
                            }
                        }
                        other => {
                            return Err(format!(
                                "library!: unsupported item kind `{other}` at item level"
                            ))
                        }
                    }
                }
                other => {
                    return Err(format!(
                        "library!: unexpected token `{}` at item level",
                        describe(other)
                    ))
                }
            }
        }
        if !attrs.is_empty() {
            return Err("library!: dangling attributes at end of block".into());
        }
        Ok(())
    }

    fn type_decl(&mut self, it: &syn::ItemType) -> Result<(), String> {
        let script = it.ident.to_string();
        if it.generics.where_clause.is_some() {
            return Err(format!("type {script}: where clause"));
        }
        let non_doc: Vec<String> = it
            .attrs
            .iter()
            .map(attr_name)
            .filter(|n| n != "doc")
            .collect();
        let attr = match non_doc.first() {
            Some(a) => a.clone(),
            None => return Err(format!("type {script}: no #[value]/#[clone]/#[copy] attribute")),
        };
        if !["value", "clone", "copy"].contains(&attr.as_str()) {
            return Err(format!("type {script}: unknown attribute #[{attr}]"));
        }
        if non_doc.len() != 1 {
            return Err(format!("type {script}: several non-doc attributes {non_doc:?}"));
        }
        if self.types.iter().any(|t| t.script == script) {
            return Err(format!("type {script}: declared twice"));
        }
        self.types.push(TypeDecl {
            script,
            rust: txt(&*it.ty),
            attr,
        });
        Ok(())
    }
}

// ---------------------------------------------------------------------------
// bindings

struct Binding {
    ty: String,
    script: String,
    name: String,
    kind: &'static str,
    params: Vec<(String, String)>,
    ret: String,
    sig: String,
    doc: String,
    call: String,
    args: Vec<String>,
    pre: Vec<String>,
    post: Vec<String>,
    std: String,
}

fn lit_str(e: &syn::Expr) -> Option<String> {
    match e {
        syn::Expr::Lit(syn::ExprLit {
            lit: syn::Lit::Str(s),
            ..
        }) => Some(s.value()),
        _ => None,
    }
}

/// (`sig`, first doc paragraph) from the attributes of a fn / const.
fn item_attrs(attrs: &[syn::Attribute], what: &str) -> Result<(String, String), String> {
    let mut sig: Option<String> = None;
    let mut docs: Vec<String> = vec![];
    for a in attrs {
        match attr_name(a).as_str() {
            "doc" => match &a.meta {
                syn::Meta::NameValue(nv) => match lit_str(&nv.value) {
                    Some(s) => docs.push(s),
                    None => return Err(format!("{what}: non-literal doc attribute `{}`", txt(a))),
                },
                _ => return Err(format!("{what}: unsupported doc attribute `{}`", txt(a))),
            },
            "sig" => match &a.meta {
                syn::Meta::NameValue(nv) => match lit_str(&nv.value) {
                    Some(s) if sig.is_none() => sig = Some(s),
                    Some(_) => return Err(format!("{what}: two #[sig] attributes")),
                    None => return Err(format!("{what}: non-literal #[sig]")),
                },
                _ => return Err(format!("{what}: malformed #[sig]")),
            },
            "vtables" => {}
            other => return Err(format!("{what}: unsupported attribute #[{other}]")),
        }
    }
    let mut para: Vec<String> = vec![];
    for d in &docs {
        let t = d.trim();
        if t.is_empty() {
            break;
        }
        para.push(t.to_string());
    }
    Ok((sig.unwrap_or_default(), para.join(" ")))
}

fn path_is(e: &syn::Expr, name: &str) -> bool {
    matches!(e, syn::Expr::Path(p) if p.qself.is_none() && p.attrs.is_empty() && p.path.is_ident(name))
}

/// Peel result-conversion layers off `e`, outermost first.
fn peel<'e>(mut e: &'e syn::Expr, post: &mut Vec<String>) -> &'e syn::Expr {
    loop {
        match e {
            syn::Expr::Group(g) => e = &g.expr,
            syn::Expr::MethodCall(m)
                if m.turbofish.is_none() && m.args.is_empty() && m.method == "into" =>
            {
                post.push("into".into());
                e = &m.receiver;
            }
            syn::Expr::MethodCall(m)
                if m.turbofish.is_none() && m.args.is_empty() && m.method == "unwrap" =>
            {
                post.push("unwrap".into());
                e = &m.receiver;
            }
            syn::Expr::MethodCall(m)
                if m.turbofish.is_none()
                    && m.method == "map"
                    && m.args.len() == 1
                    && matches!(m.args[0], syn::Expr::Closure(_)) =>
            {
                post.push(format!("map({})", txt(&m.args[0])));
                e = &m.receiver;
            }
            syn::Expr::Cast(c) => {
                post.push(format!("as {}", txt(&*c.ty)));
                e = &c.expr;
            }
            syn::Expr::Call(c) if path_is(&c.func, "Val") && c.args.len() == 1 => {
                post.push("Val".into());
                e = &c.args[0];
            }
            syn::Expr::Unsafe(u) if u.block.stmts.len() == 1 => match &u.block.stmts[0] {
                syn::Stmt::Expr(x, None) => {
                    post.push("unsafe".into());
                    e = x;
                }
                _ => return e,
            },
            syn::Expr::Try(t) => {
                post.push("?".into());
                e = &t.expr;
            }
            _ => return e,
        }
    }
}

fn macro_call(mac: &syn::Macro) -> (String, Vec<String>) {
    // literal tokens keep their source text; a single format-string argument
    // (the only case in the tree) is therefore reproduced exactly.
    (format!("{}!", txt(&mac.path)), vec![mac.tokens.to_string()])
}

fn core(e: &syn::Expr, what: &str) -> Result<(String, Vec<String>), String> {
    match e {
        syn::Expr::MethodCall(m) => {
            if m.turbofish.is_some() {
                return Err(format!("{what}: method call with turbofish `{}`", txt(e)));
            }
            Ok((
                format!("{}.{}", txt(&*m.receiver), m.method),
                m.args.iter().map(|a| txt(a)).collect(),
            ))
        }
        syn::Expr::Call(c) => match &*c.func {
            syn::Expr::Path(p) if p.qself.is_none() => {
                Ok((txt(&p.path), c.args.iter().map(|a| txt(a)).collect()))
            }
            _ => Err(format!("{what}: call of a non-path `{}`", txt(e))),
        },
        syn::Expr::Binary(b) => Ok((
            format!("op{}", txt(&b.op)),
            vec![txt(&*b.left), txt(&*b.right)],
        )),
        syn::Expr::Path(p) if p.qself.is_none() => Ok((txt(&p.path), vec![])),
        syn::Expr::Macro(m) => Ok(macro_call(&m.mac)),
        _ => Err(format!("{what}: unsupported result expression `{}`", txt(e))),
    }
}

struct Body {
    call: String,
    args: Vec<String>,
    pre: Vec<String>,
    post: Vec<String>,
}

fn analyse_block(b: &syn::Block, what: &str) -> Result<Body, String> {
    let Some((last, init)) = b.stmts.split_last() else {
        return Err(format!("{what}: empty body"));
    };
    let mut pre = vec![];
    for s in init {
        match s {
            syn::Stmt::Local(l) => {
                let Some(i) = &l.init else {
                    return Err(format!("{what}: `let` without initializer"));
                };
                if i.diverge.is_some() {
                    return Err(format!("{what}: let-else"));
                }
                if !l.attrs.is_empty() {
                    return Err(format!("{what}: attribute on `let`"));
                }
                pre.push(format!("{}={}", txt(&l.pat), txt(&*i.expr)));
            }
            other => {
                return Err(format!(
                    "{what}: non-`let` statement before the result: `{}`",
                    txt(other)
                ))
            }
        }
    }
    let mut post = vec![];
    let (call, args) = match last {
        syn::Stmt::Expr(e, _) => {
            let c = peel(e, &mut post);
            core(c, what)?
        }
        syn::Stmt::Macro(m) => macro_call(&m.mac),
        other => {
            return Err(format!(
                "{what}: last statement is not an expression: `{}`",
                txt(other)
            ))
        }
    };
    Ok(Body {
        call,
        args,
        pre,
        post,
    })
}

/// `fn m` of the inherent `impl ty` at the top level of `file`.
fn inherent_fn<'f>(
    file: &'f syn::File,
    rel: &str,
    ty: &str,
    m: &str,
) -> Result<Option<&'f syn::ImplItemFn>, String> {
    let mut hits = vec![];
    for it in &file.items {
        if let syn::Item::Impl(im) = it {
            if im.trait_.is_none() && txt(&*im.self_ty) == ty {
                for x in &im.items {
                    if let syn::ImplItem::Fn(f) = x {
                        if f.sig.ident == m {
                            hits.push(f);
                        }
                    }
                }
            }
        }
    }
    match hits.len() {
        0 => Ok(None),
        1 => Ok(Some(hits[0])),
        n => Err(format!("{rel}: {n} definitions of {ty}::{m}")),
    }
}

/// Second hop inside `value/string.rs`.
fn string_std(f: &syn::ImplItemFn, what: &str) -> Result<String, String> {
    if f.block.stmts.is_empty() {
        return Err(format!("{what}: empty body in {STRING}"));
    }
    if f.block.stmts.len() != 1 {
        return Ok("<algorithm>".into());
    }
    match &f.block.stmts[0] {
        syn::Stmt::Expr(
            syn::Expr::ForLoop(_) | syn::Expr::While(_) | syn::Expr::Loop(_),
            _,
        ) => Ok("<algorithm>".into()),
        syn::Stmt::Expr(e, _) => {
            let t = txt(e);
            const RECV: &str = "self.0.0";
            if let Some(rest) = t.strip_prefix(RECV) {
                let boundary = rest
                    .chars()
                    .next()
                    .map(|c| !(c.is_alphanumeric() || c == '_'))
                    .unwrap_or(true);
                if boundary {
                    return Ok(format!("str{rest}"));
                }
            }
            Ok(t)
        }
        syn::Stmt::Local(_) => Ok("<algorithm>".into()),
        other => Err(format!(
            "{what}: unsupported body statement in {STRING}: `{}`",
            txt(other)
        )),
    }
}

/// Second hop inside `value/string_buf.rs`: the statements joined by `;`.
fn string_buf_std(f: &syn::ImplItemFn, what: &str) -> Result<String, String> {
    if f.block.stmts.is_empty() {
        return Err(format!("{what}: empty body in {STRING_BUF}"));
    }
    let mut parts = vec![];
    for s in &f.block.stmts {
        let t = match s {
            syn::Stmt::Expr(e, _) => txt(e),
            syn::Stmt::Local(_) | syn::Stmt::Macro(_) => {
                let t = txt(s);
                t.strip_suffix(';').map(|x| x.to_string()).unwrap_or(t)
            }
            syn::Stmt::Item(_) => {
                return Err(format!("{what}: nested item in {STRING_BUF} body"))
            }
        };
        parts.push(t);
    }
    Ok(parts.join(";"))
}

struct Sources {
    string: syn::File,
    string_buf: syn::File,
}

fn second_hop(src: &Sources, ty: &str, call: &str, what: &str) -> Result<String, String> {
    let self_m = call
        .strip_prefix("self.")
        .filter(|m| !m.is_empty() && m.chars().all(|c| c.is_alphanumeric() || c == '_'));
    if STRING_TYPES.contains(&ty) {
        let own_static = call.strip_prefix(&format!("{ty}::")).filter(|m| !m.contains("::"));
        let own_static = own_static.or_else(|| call.strip_prefix("Self::").filter(|m| !m.contains("::")));
        if let Some(m) = self_m.or(own_static) {
            return match inherent_fn(&src.string, STRING, ty, m)? {
                Some(f) => string_std(f, what),
                None => Ok(format!("trait:{m}")),
            };
        }
    }
    if ty == "Val<StringBuf>" {
        let m = call
            .strip_prefix("self.0.")
            .or_else(|| call.strip_prefix("StringBuf::"))
            .filter(|m| !m.is_empty() && m.chars().all(|c| c.is_alphanumeric() || c == '_'));
        if let Some(m) = m {
            return match inherent_fn(&src.string_buf, STRING_BUF, "StringBuf", m)? {
                Some(f) => string_buf_std(f, what),
                None => Ok(format!("trait:{m}")),
            };
        }
    }
    // generic rules
    if let Some(m) = self_m {
        return Ok(format!("{ty}::{m}"));
    }
    if call == "self" {
        return Ok("identity".into());
    }
    if call == "op==" {
        return Ok(format!("{ty}::eq"));
    }
    if call == "format!" {
        return Ok("format!".into());
    }
    if call.contains("::") && !call.contains('.') {
        let segs: Vec<&str> = call
            .split("::")
            .map(|s| if s == "Self" { ty } else { s })
            .collect();
        return Ok(segs.join("::"));
    }
    Ok(call.to_string())
}

fn bindings_of_impl(
    im: &syn::ItemImpl,
    script: &str,
    src: &Sources,
    out: &mut Vec<Binding>,
) -> Result<(), String> {
    let ty = txt(&*im.self_ty);
    for item in &im.items {
        match item {
            syn::ImplItem::Fn(f) => {
                let name = f.sig.ident.to_string();
                let what = format!("impl {ty} / fn {name}");
                let s = &f.sig;
                if s.constness.is_some()
                    || s.asyncness.is_some()
                    || s.unsafety.is_some()
                    || s.abi.is_some()
                    || !s.generics.params.is_empty()
                    || s.generics.where_clause.is_some()
                    || s.variadic.is_some()
                {
                    return Err(format!("{what}: unsupported signature `{}`", txt(s)));
                }
                if !matches!(f.vis, syn::Visibility::Inherited) || f.defaultness.is_some() {
                    return Err(format!("{what}: unexpected visibility/default qualifier"));
                }
                let (sig, doc) = item_attrs(&f.attrs, &what)?;
                let mut params = vec![];
                let mut method = false;
                for a in &s.inputs {
                    match a {
                        syn::FnArg::Receiver(r) => {
                            if r.reference.is_some()
                                || r.mutability.is_some()
                                || r.colon_token.is_some()
                                || !r.attrs.is_empty()
                            {
                                return Err(format!(
                                    "{what}: receiver `{}` is not plain `self`",
                                    txt(r)
                                ));
                            }
                            method = true;
                            params.push(("self".to_string(), "Self".to_string()));
                        }
                        syn::FnArg::Typed(t) => match &*t.pat {
                            syn::Pat::Ident(p)
                                if p.by_ref.is_none()
                                    && p.mutability.is_none()
                                    && p.subpat.is_none()
                                    && p.attrs.is_empty()
                                    && t.attrs.is_empty() =>
                            {
                                if p.ident == "self_" {
                                    method = true;
                                }
                                params.push((p.ident.to_string(), txt(&*t.ty)));
                            }
                            _ => {
                                return Err(format!(
                                    "{what}: unsupported parameter `{}`",
                                    txt(a)
                                ))
                            }
                        },
                    }
                }
                let ret = match &s.output {
                    syn::ReturnType::Default => "()".to_string(),
                    syn::ReturnType::Type(_, t) => txt(&**t),
                };
                let body = analyse_block(&f.block, &what)?;
                let std = second_hop(src, &ty, &body.call, &what)?;
                out.push(Binding {
                    ty: ty.clone(),
                    script: script.to_string(),
                    name,
                    kind: if method { "method" } else { "static" },
                    params,
                    ret,
                    sig,
                    doc,
                    call: body.call,
                    args: body.args,
                    pre: body.pre,
                    post: body.post,
                    std,
                });
            }
            syn::ImplItem::Const(c) => {
                let name = c.ident.to_string();
                let what = format!("impl {ty} / const {name}");
                if !c.generics.params.is_empty()
                    || c.generics.where_clause.is_some()
                    || !matches!(c.vis, syn::Visibility::Inherited)
                    || c.defaultness.is_some()
                {
                    return Err(format!("{what}: unsupported const form"));
                }
                let (sig, doc) = item_attrs(&c.attrs, &what)?;
                let mut post = vec![];
                let e = peel(&c.expr, &mut post);
                let (call, args) = core(e, &what)?;
                out.push(Binding {
                    ty: ty.clone(),
                    script: script.to_string(),
                    name,
                    kind: "const",
                    params: vec![],
                    ret: txt(&c.ty),
                    sig,
                    doc,
                    std: call.clone(),
                    call,
                    args,
                    pre: vec![],
                    post,
                });
            }
            other => {
                return Err(format!(
                    "impl {ty}: unsupported impl item `{}`",
                    describe_ts(other.to_token_stream())
                ))
            }
        }
    }
    Ok(())
}

fn describe_ts(ts: TokenStream) -> String {
    let s = compact(ts);
    let mut short: String = s.chars().take(60).collect();
    if short.len() < s.len() {
        short.push('…');
    }
    short
}

// ---------------------------------------------------------------------------
// Lean output

fn lean_str(s: &str) -> String {
    let mut o = String::with_capacity(s.len() + 2);
    o.push('"');
    for c in s.chars() {
        match c {
            '\\' => o.push_str("\\\\"),
            '"' => o.push_str("\\\""),
            '\n' => o.push_str("\\n"),
            c => o.push(c),
        }
    }
    o.push('"');
    o
}

fn lean_list(v: &[String]) -> String {
    format!(
        "[{}]",
        v.iter().map(|s| lean_str(s)).collect::<Vec<_>>().join(", ")
    )
}

fn lean_pairs(v: &[(String, String)]) -> String {
    format!(
        "[{}]",
        v.iter()
            .map(|(a, b)| format!("({}, {})", lean_str(a), lean_str(b)))
            .collect::<Vec<_>>()
            .join(", ")
    )
}

const PRELUDE: &str = "\
namespace RotoV.Gen.Bindings

structure Binding where
  ty : String
  script : String
  name : String
  kind : String
  params : List (String × String)
  ret : String
  sig : String
  doc : String
  call : String
  args : List String
  pre : List String
  post : List String
  std : String
deriving DecidableEq, Repr

structure TypeDecl where
  script : String
  rust : String
  attr : String
deriving DecidableEq, Repr

";

fn bindings(repo: &Path) -> Result<String, String> {
    let basic = find::parse(repo, BASIC)?;
    let src = Sources {
        string: find::parse(repo, STRING)?,
        string_buf: find::parse(repo, STRING_BUF)?,
    };

    let mut w = Walk {
        file: &basic,
        types: vec![],
        impls: vec![],
    };
    let root = library_of_fn(w.top_fn("built_ins")?)?;
    w.walk(root, 0)?;

    let mut table: Vec<Binding> = vec![];
    for im in &w.impls {
        let ty = txt(&*im.self_ty);
        let decls: Vec<&TypeDecl> = w.types.iter().filter(|t| t.rust == ty).collect();
        let script = match decls.len() {
            1 => decls[0].script.clone(),
            0 => return Err(format!("impl {ty}: no `type X = {ty};` declaration")),
            n => return Err(format!("impl {ty}: {n} type declarations map to it")),
        };
        bindings_of_impl(im, &script, &src, &mut table)?;
    }
    if table.is_empty() {
        return Err("no bindings found".into());
    }
    for (i, b) in table.iter().enumerate() {
        if table[..i]
            .iter()
            .any(|a| a.script == b.script && a.name == b.name)
        {
            return Err(format!("{}.{} registered twice", b.script, b.name));
        }
    }

    let mut o = String::new();
    o.push_str(&format!(
        "/- GENERATED by /verif/extract from {BASIC}, {STRING}, {STRING_BUF} — do not edit. -/\n"
    ));
    o.push_str(PRELUDE);
    o.push_str("def types : List TypeDecl := [\n");
    let n = w.types.len();
    for (i, t) in w.types.iter().enumerate() {
        o.push_str(&format!(
            "  ⟨{}, {}, {}⟩{}\n",
            lean_str(&t.script),
            lean_str(&t.rust),
            lean_str(&t.attr),
            if i + 1 < n { "," } else { "" }
        ));
    }
    o.push_str("]\n\n");
    o.push_str("def table : List Binding := [\n");
    let n = table.len();
    for (i, b) in table.iter().enumerate() {
        o.push_str(&format!(
            "  {{ ty := {}, script := {}, name := {}, kind := {}, params := {}, ret := {}, sig := {}, doc := {}, call := {}, args := {}, pre := {}, post := {}, std := {} }}{}\n",
            lean_str(&b.ty),
            lean_str(&b.script),
            lean_str(&b.name),
            lean_str(b.kind),
            lean_pairs(&b.params),
            lean_str(&b.ret),
            lean_str(&b.sig),
            lean_str(&b.doc),
            lean_str(&b.call),
            lean_list(&b.args),
            lean_list(&b.pre),
            lean_list(&b.post),
            lean_str(&b.std),
            if i + 1 < n { "," } else { "" }
        ));
    }
    o.push_str("]\n\n");
    o.push_str("def names : List (String × String) := table.map fun b => (b.script, b.name)\n\n");
    // bodies that are algorithms (second hop `<algorithm>`): their statements, token text
    o.push_str("/-- the statements of the string.rs methods that are algorithms (what Model/Strings.lean transcribes) -/\n");
    o.push_str("def algorithms : List (String × List String) := [\n");
    let algos: Vec<&Binding> = table.iter().filter(|b| b.std == "<algorithm>").collect();
    for (i, b) in algos.iter().enumerate() {
        let m = b
            .call
            .strip_prefix("self.")
            .or_else(|| b.call.strip_prefix(&format!("{}::", b.ty)))
            .ok_or_else(|| format!("{}.{}: cannot locate the algorithm behind call `{}`", b.script, b.name, b.call))?;
        let f = inherent_fn(&src.string, STRING, &b.ty, m)?
            .ok_or_else(|| format!("{}.{}: {}::{m} not found in {STRING}", b.script, b.name, b.ty))?;
        let stmts: Vec<String> = f.block.stmts.iter().map(|s| txt(s)).collect();
        o.push_str(&format!(
            "  ({}, {}){}\n",
            lean_str(&format!("{}::{m}", b.ty)),
            lean_list(&stmts),
            if i + 1 < algos.len() { "," } else { "" }
        ));
    }
    o.push_str("]\n");
    o.push_str("\nend RotoV.Gen.Bindings\n");
    Ok(o)
}
