//! Translator targets owned by property C06.
//!
//! `lextables` → `Generated/LexTables.lean`, from `src/parser/lexer.rs`:
//!  * `recognisers`: the `self.x()?;` chain of `Lexer::next_token`, in order;
//!  * `twoChar` / `oneChar`: the byte patterns of `two_char_punctuation` /
//!    `one_char_punctuation` with the token variant they produce;
//!  * `keywords`: the string patterns of `keyword_or_ident` with the keyword /
//!    boolean they produce.
//!
//! `unifyfacts` → `Generated/UnifyFacts.lean`, from `src/typechecker/unionfind.rs`
//! and `src/typechecker/mod.rs`:
//!  * `findHead` / `findRefHead`: the variables `UnionFind::find` / `find_ref` follow;
//!  * `resolveHead`: the variables `TypeChecker::resolve_type` looks up;
//!  * `occursArm`: per constructor of `Type`, what `TypeChecker::occurs` does
//!    with it (compare the variable / search which children / `false`);
//!  * `setGuard`: per arm of `unify_inner` that calls `unionfind.set(v, t)`,
//!    whether `if self.occurs(v, &t) { return None; }` stands directly in front;
//!  * the arms of `unify_inner`'s `match (a, b)` must be exactly the ones the
//!    hand-written model (`Model/Unify.lean`) was written against — except the
//!    arm `(Never, x) | (x, Never) => x`, whose presence is the generated fact
//!    `innerNeverArm` (a parameter of the model);
//!  * `entryNeverFound`: whether `TypeChecker::unify(expected a, found b)` starts
//!    with `if let Type::Never = self.resolve_type(b) { return Ok(self.resolve_type(a)); }`
//!    (the rest of its body must be the known one), and nothing but `unify`,
//!    `unify_inner`, `unify_fields` (and verification hooks) calls `unify_inner`.
//!
//! `reportslices` → `Generated/ReportSlices.lean`: every place in the files that
//! build or render reports (`REPORT_FILES`) where a text is cut by byte offsets
//! (range index, `split_at`, `truncate`, …), classified: the two slices of
//! `Span::character_range` (modelled, theorem `char_range_ok`), the full range,
//! or `unaudited`. Items under `#[cfg(feature = "verif-hooks")]` are skipped:
//! the hooks are not compiled into the product.
//! Anything outside these shapes is an extraction failure.
//!
//! `parsefacts` → `Generated/ParseFacts.lean`: the decision tables and call
//! skeletons of the parser; see `c06_parse.rs`.
//!
//! `fspanfacts` → `Generated/FSpanFacts.lean`: the constants of `unescape_f_string_part`'s scan (`piece_start`)
//! and every arithmetic expression on byte positions in the three `unescape_*` functions (`c06_parse.rs`, section C).
//!
//! `msgops` → `Generated/MsgOps.lean`: every operation (method call, macro, call, index, arithmetic, loop) in the
//! functions that build the MESSAGE of a parse error (`src/parser/error.rs`, `Display for Token`), and what each
//! constructor of `ParseError` stores from its `impl Display` parameters (classified in `Model/ReportMsgBase.lean`).
//!
//! `tclistops` → `Generated/TcListOps.lean`: every operation of the type checker
//! that is partial in the length of a list, with the evidence that the list is
//! long enough; see `c06_tclists.rs`.
use super::{Gen, Target};
use crate::find;
use quote::ToTokens;
use std::path::Path;

#[path = "c06_parse.rs"]
mod c06_parse;
#[path = "c06_tclists.rs"]
mod c06_tclists;

pub const TARGETS: &[Target] = &[
    ("lextables", "LexTables", lextables as Gen),
    ("unifyfacts", "UnifyFacts", unifyfacts as Gen),
    ("reportslices", "ReportSlices", reportslices as Gen),
    ("parsefacts", "ParseFacts", c06_parse::parsefacts as Gen),
    ("fspanfacts", "FSpanFacts", c06_parse::fspanfacts as Gen),
    ("tclistops", "TcListOps", c06_tclists::tclistops as Gen),
    ("msgops", "MsgOps", msgops as Gen),
];

fn txt(t: &impl ToTokens) -> String {
    t.to_token_stream().to_string().replace(' ', "")
}

fn byte_lit(p: &syn::Pat) -> Result<u8, String> {
    match p {
        syn::Pat::Lit(l) => match &l.lit {
            syn::Lit::Byte(b) => Ok(b.value()),
            other => Err(format!("expected a byte literal, found {}", txt(other))),
        },
        other => Err(format!("expected a byte literal pattern, found {}", txt(other))),
    }
}

/// `Token::Name` → `Name`
fn token_variant(e: &syn::Expr) -> Result<String, String> {
    let s = txt(e);
    match s.strip_prefix("Token::") {
        Some(v) if v.chars().all(|c| c.is_ascii_alphanumeric()) => Ok(v.to_string()),
        _ => Err(format!("expected `Token::<Variant>`, found {s}")),
    }
}

fn is_continue(e: &syn::Expr) -> bool {
    txt(e) == "returnControlFlow::Continue(())"
}

fn the_match<'a>(f: &'a find::FnBody, scrut: &str, what: &str) -> Result<syn::ExprMatch, String> {
    let ms = find::matches_on(&f.block, scrut);
    match ms.len() {
        1 => Ok(ms.into_iter().next().unwrap()),
        n => Err(format!("{what}: expected one `match {scrut}`, found {n}")),
    }
}

fn camel(s: &str) -> String {
    let mut out = String::new();
    let mut up = false;
    for c in s.chars() {
        if c == '_' {
            up = true;
        } else if up {
            out.push(c.to_ascii_uppercase());
            up = false;
        } else {
            out.push(c);
        }
    }
    out
}

const RECOGNISERS: &[&str] = &[
    "ipv6", "ipv4", "two_char_punctuation", "one_char_punctuation", "as_number", "hex_number",
    "number", "f_string", "string", "char", "keyword_or_ident",
];

fn lean_chars(s: &str) -> String {
    let cs: Vec<String> = s
        .chars()
        .map(|c| format!("Char.ofNat {}", c as u32))
        .collect();
    format!("[{}]", cs.join(", "))
}

pub fn lextables(repo: &Path) -> Result<String, String> {
    let file = find::parse(repo, "src/parser/lexer.rs")?;
    let mut out = String::from(
        "/- GENERATED by /verif/extract from src/parser/lexer.rs — do not edit. -/\nimport RotoV.Model.LexerBase\nnamespace RotoV.Gen.LexTables\nopen RotoV.Lex\n\n",
    );

    // ---- next_token: the chain of recognisers
    let f = find::func(&file, "next_token", Some("Lexer"))?;
    let mut chain = vec![];
    let mut seen_ws = false;
    let mut seen_empty = false;
    let n = f.block.stmts.len();
    for (i, st) in f.block.stmts.iter().enumerate() {
        let s = txt(st);
        if s == "self.skip_whitespace();" && chain.is_empty() && !seen_empty {
            seen_ws = true;
            continue;
        }
        if s == "ifself.is_empty(){returnControlFlow::Continue(());}" && seen_ws && chain.is_empty() {
            seen_empty = true;
            continue;
        }
        if i == n - 1 {
            if s != "ControlFlow::Continue(())" {
                return Err(format!("next_token: unexpected tail `{s}`"));
            }
            continue;
        }
        // `self.name()?;`
        let name = s
            .strip_prefix("self.")
            .and_then(|r| r.strip_suffix("()?;"))
            .ok_or_else(|| format!("next_token: statement outside the subset: `{s}`"))?;
        if !RECOGNISERS.contains(&name) {
            return Err(format!("next_token: unknown recogniser `{name}` (no model for it)"));
        }
        if !(seen_ws && seen_empty) {
            return Err("next_token: recogniser before skip_whitespace / is_empty test".into());
        }
        chain.push(format!(".{}", camel(name)));
    }
    if !(seen_ws && seen_empty) {
        return Err("next_token: skip_whitespace / is_empty prologue not found".into());
    }
    out.push_str(&format!(
        "/-- the `self.x()?;` chain of `Lexer::next_token`, in source order -/\ndef recognisers : List Recogniser :=\n  [{}]\n\n",
        chain.join(", ")
    ));

    // ---- two_char_punctuation
    let f = find::func(&file, "two_char_punctuation", Some("Lexer"))?;
    let m = the_match(&f, "*x", "two_char_punctuation")?;
    let mut rows = vec![];
    for arm in &m.arms {
        if arm.guard.is_some() {
            return Err("two_char_punctuation: guarded arm".into());
        }
        match &arm.pat {
            syn::Pat::Wild(_) => {
                if !is_continue(&arm.body) {
                    return Err("two_char_punctuation: `_` arm is not `return Continue`".into());
                }
            }
            syn::Pat::Slice(s) if s.elems.len() == 2 => {
                let a = byte_lit(&s.elems[0])?;
                let b = byte_lit(&s.elems[1])?;
                rows.push(format!("({a}, {b}, \"{}\")", token_variant(&arm.body)?));
            }
            other => return Err(format!("two_char_punctuation: pattern outside the subset: {}", txt(other))),
        }
    }
    // the code after the match must be `bump(2)`
    if !txt(&f.block).contains("let(_,span)=self.bump(2);") {
        return Err("two_char_punctuation: `self.bump(2)` not found".into());
    }
    out.push_str(&format!(
        "/-- `two_char_punctuation`: (first byte, second byte, token variant), first match wins -/\ndef twoChar : List (Nat × Nat × String) :=\n  [{}]\n\n",
        rows.join(",\n   ")
    ));

    // ---- one_char_punctuation
    let f = find::func(&file, "one_char_punctuation", Some("Lexer"))?;
    let m = the_match(&f, "x", "one_char_punctuation")?;
    let mut rows = vec![];
    for arm in &m.arms {
        if arm.guard.is_some() {
            return Err("one_char_punctuation: guarded arm".into());
        }
        match &arm.pat {
            syn::Pat::Wild(_) => {
                if !is_continue(&arm.body) {
                    return Err("one_char_punctuation: `_` arm is not `return Continue`".into());
                }
            }
            p @ syn::Pat::Lit(_) => {
                rows.push(format!("({}, \"{}\")", byte_lit(p)?, token_variant(&arm.body)?));
            }
            other => return Err(format!("one_char_punctuation: pattern outside the subset: {}", txt(other))),
        }
    }
    if !txt(&f.block).contains("let(_,span)=self.bump(1);") {
        return Err("one_char_punctuation: `self.bump(1)` not found".into());
    }
    out.push_str(&format!(
        "/-- `one_char_punctuation`: (byte, token variant), first match wins -/\ndef oneChar : List (Nat × String) :=\n  [{}]\n\n",
        rows.join(",\n   ")
    ));

    // ---- keyword_or_ident
    let f = find::func(&file, "keyword_or_ident", Some("Lexer"))?;
    let m = the_match(&f, "ident", "keyword_or_ident")?;
    let mut rows = vec![];
    let mut fallback = false;
    for arm in &m.arms {
        if arm.guard.is_some() {
            return Err("keyword_or_ident: guarded arm".into());
        }
        match &arm.pat {
            syn::Pat::Lit(l) => {
                let syn::Lit::Str(s) = &l.lit else {
                    return Err("keyword_or_ident: non-string literal pattern".into());
                };
                let body = txt(&arm.body);
                let kind = if let Some(k) = body.strip_prefix("Keyword::") {
                    if !k.chars().all(|c| c.is_ascii_alphanumeric()) {
                        return Err(format!("keyword_or_ident: body outside the subset: {body}"));
                    }
                    format!(".keyword \"{k}\"")
                } else if body == "returnControlFlow::Break((Token::Bool(true),span))" {
                    ".bool true".to_string()
                } else if body == "returnControlFlow::Break((Token::Bool(false),span))" {
                    ".bool false".to_string()
                } else {
                    return Err(format!("keyword_or_ident: body outside the subset: {body}"));
                };
                if fallback {
                    return Err("keyword_or_ident: literal arm after the catch-all".into());
                }
                rows.push(format!("({}, {kind})", lean_chars(&s.value())));
            }
            syn::Pat::Ident(_) => {
                let body = txt(&arm.body);
                if !body.contains("returnControlFlow::Break((Token::Ident(x),span))") {
                    return Err(format!("keyword_or_ident: catch-all arm is not `Ident`: {body}"));
                }
                fallback = true;
            }
            other => return Err(format!("keyword_or_ident: pattern outside the subset: {}", txt(other))),
        }
    }
    if !fallback {
        return Err("keyword_or_ident: no catch-all `Ident` arm".into());
    }
    out.push_str(&format!(
        "/-- `keyword_or_ident`: (text, kind); anything else is an identifier -/\ndef keywords : List (List Char × TokKind) :=\n  [{}]\n\n",
        rows.join(",\n   ")
    ));
    out.push_str("end RotoV.Gen.LexTables\n");
    Ok(out)
}


// ------------------------------------------------------------- unifyfacts

/// constructors of `typechecker::types::Type` with their arity in Rust
const TY_CTORS: &[(&str, usize)] = &[
    ("Var", 1), ("IntVar", 2), ("FloatVar", 1), ("RecordVar", 2), ("Record", 1), ("Function", 2), ("Name", 1),
    ("ExplicitVar", 1), ("Unit", 0), ("Never", 0),
];

/// One alternative of a pattern over `Type`: constructor + binder per field
/// (`None` for `_`).
#[derive(Clone, Debug)]
struct TyPat {
    ctor: String,
    binders: Vec<Option<String>>,
}

fn ctor_of_path(p: &syn::Path) -> Result<String, String> {
    let segs: Vec<String> = p.segments.iter().map(|s| s.ident.to_string()).collect();
    let name = match segs.as_slice() {
        [c] => c.clone(),
        [t, c] if t == "Type" => c.clone(),
        _ => return Err(format!("pattern path outside the subset: {}", segs.join("::"))),
    };
    if TY_CTORS.iter().any(|(c, _)| *c == name) {
        Ok(name)
    } else {
        Err(format!("unknown constructor of Type: {name}"))
    }
}

fn binder(p: &syn::Pat) -> Result<Option<String>, String> {
    match p {
        syn::Pat::Wild(_) => Ok(None),
        syn::Pat::Ident(i) if i.subpat.is_none() => Ok(Some(i.ident.to_string())),
        other => Err(format!("binder outside the subset: {}", txt(other))),
    }
}

/// alternatives of `Type::A(x, _) | Type::B(x) | Type::Unit`
fn ty_alts(p: &syn::Pat) -> Result<Vec<TyPat>, String> {
    match p {
        syn::Pat::Or(o) => {
            let mut v = vec![];
            for c in &o.cases {
                v.extend(ty_alts(c)?);
            }
            Ok(v)
        }
        syn::Pat::Paren(p) => ty_alts(&p.pat),
        syn::Pat::TupleStruct(ts) => {
            let ctor = ctor_of_path(&ts.path)?;
            let binders = ts.elems.iter().map(binder).collect::<Result<Vec<_>, _>>()?;
            let want = TY_CTORS.iter().find(|(c, _)| *c == ctor).unwrap().1;
            if binders.len() != want {
                return Err(format!("{ctor}: {} fields in the pattern, expected {want}", binders.len()));
            }
            Ok(vec![TyPat { ctor, binders }])
        }
        syn::Pat::Path(pp) => Ok(vec![TyPat { ctor: ctor_of_path(&pp.path)?, binders: vec![] }]),
        syn::Pat::Ident(i) if i.subpat.is_none() && i.by_ref.is_none() => {
            // a unit constructor written bare (`Unit`) parses as an identifier
            let n = i.ident.to_string();
            if TY_CTORS.iter().any(|(c, a)| *c == n && *a == 0) {
                Ok(vec![TyPat { ctor: n, binders: vec![] }])
            } else {
                Err(format!("pattern outside the subset: {n}"))
            }
        }
        other => Err(format!("pattern outside the subset: {}", txt(other))),
    }
}

/// Lean pattern of one alternative. `Vec<(name, type)>` fields are the pair
/// (names, tys) in Lean: the Rust binder names the list of types.
fn lean_ty_pat(p: &TyPat, rename: &dyn Fn(&str) -> String) -> String {
    let b = |i: usize| match p.binders.get(i).cloned().flatten() {
        Some(n) => rename(&n),
        None => "_".to_string(),
    };
    match p.ctor.as_str() {
        "Var" => format!(".var {}", b(0)),
        "IntVar" => format!(".intVar {} {}", b(0), b(1)),
        "FloatVar" => format!(".floatVar {}", b(0)),
        "RecordVar" => format!(".recordVar {} _ {}", b(0), b(1)),
        "Record" => format!(".record _ {}", b(0)),
        "Function" => format!(".func {} {}", b(0), b(1)),
        // `Name(name)`: the Lean constructor has the two fields of `TypeName`
        "Name" => match p.binders.first().cloned().flatten() {
            Some(n) => format!(".name _ {}", rename(&format!("{n}.arguments"))),
            None => ".name _ _".to_string(),
        },
        "ExplicitVar" => format!(".explicitVar {}", b(0)),
        "Unit" => ".unit".to_string(),
        "Never" => ".never".to_string(),
        _ => unreachable!(),
    }
}

fn lean_ident(s: &str) -> String {
    // `name.arguments` → `arguments`
    s.rsplit('.').next().unwrap().to_string()
}

/// `def <name> : Ty → Option Nat` from an or-pattern whose alternatives all
/// bind their first field to the same identifier
fn head_fn(name: &str, doc: &str, alts: &[TyPat], var: &str) -> Result<String, String> {
    let mut out = format!("/-- {doc} -/\ndef {name} : Ty → Option Nat\n");
    let mut seen = vec![];
    for a in alts {
        if a.binders.first().cloned().flatten().as_deref() != Some(var) {
            return Err(format!("{name}: `{}` does not bind its index to `{var}`", a.ctor));
        }
        if a.binders.iter().skip(1).any(|b| b.is_some()) {
            return Err(format!("{name}: `{}` binds more than its index", a.ctor));
        }
        if seen.contains(&a.ctor) {
            return Err(format!("{name}: `{}` twice", a.ctor));
        }
        seen.push(a.ctor.clone());
        out.push_str(&format!("  | {} => some {var}\n", lean_ty_pat(a, &|s| lean_ident(s))));
    }
    out.push_str("  | _ => none\n\n");
    Ok(out)
}

/// the first arm of `match &self.inner[index] { A(i) | B(i, _) if *i != index => { … self.<rec>(*i) … } t => … }`
fn find_arms(file: &syn::File, func: &str) -> Result<Vec<TyPat>, String> {
    let f = find::func(file, func, Some("UnionFind"))?;
    let m = the_match(&f, "&self.inner[index]", func)?;
    if m.arms.len() != 2 {
        return Err(format!("{func}: expected two arms, found {}", m.arms.len()));
    }
    let a = &m.arms[0];
    let guard = a.guard.as_ref().map(|g| txt(&g.1)).unwrap_or_default();
    if guard != "*i!=index" {
        return Err(format!("{func}: guard of the first arm is `{guard}`, expected `*i != index`"));
    }
    if !txt(&a.body).contains(&format!("self.{func}(*i)")) {
        return Err(format!("{func}: the first arm does not continue with `self.{func}(*i)`"));
    }
    if !matches!(&m.arms[1].pat, syn::Pat::Ident(_)) || m.arms[1].guard.is_some() {
        return Err(format!("{func}: the second arm is not a catch-all"));
    }
    ty_alts(&a.pat)
}

/// `L.iter().any(|(_, t)| self.occurs(var, t))` / `L.iter().any(|t| self.occurs(var, t))`
/// → `L`;  `self.occurs(var, &x)` → `[x]`
fn occurs_search(e: &syn::Expr) -> Result<String, String> {
    let s = txt(e);
    if let Some(rest) = s.strip_suffix(".iter().any(|(_,t)|self.occurs(var,t))") {
        return Ok(lean_ident(rest));
    }
    if let Some(rest) = s.strip_suffix(".iter().any(|t|self.occurs(var,t))") {
        return Ok(lean_ident(rest));
    }
    if let Some(rest) = s.strip_prefix("self.occurs(var,").and_then(|r| r.strip_suffix(')')) {
        let x = rest.trim_start_matches('&');
        if x.chars().all(|c| c.is_ascii_alphanumeric() || c == '_') {
            return Ok(format!("[{x}]"));
        }
    }
    Err(format!("occurs: expression outside the subset: {s}"))
}

fn strip_block(e: &syn::Expr) -> &syn::Expr {
    match e {
        syn::Expr::Block(b) if b.block.stmts.len() == 1 => match &b.block.stmts[0] {
            syn::Stmt::Expr(inner, None) => strip_block(inner),
            _ => e,
        },
        syn::Expr::Paren(p) => strip_block(&p.expr),
        _ => e,
    }
}

/// operands of a chain of `||`, left to right
fn or_chain<'a>(e: &'a syn::Expr, out: &mut Vec<&'a syn::Expr>) {
    match strip_block(e) {
        syn::Expr::Binary(b) if matches!(b.op, syn::BinOp::Or(_)) => {
            or_chain(&b.left, out);
            or_chain(&b.right, out);
        }
        other => out.push(other),
    }
}

fn occurs_arm(body: &syn::Expr) -> Result<String, String> {
    let mut ops = vec![];
    or_chain(body, &mut ops);
    let first = txt(ops[0]);
    if ops.len() == 1 && first == "false" {
        return Ok(".no".into());
    }
    let var_test = first.strip_suffix("==var").filter(|x| x.chars().all(|c| c.is_ascii_alphanumeric() || c == '_'));
    if let Some(x) = var_test {
        if ops.len() == 1 {
            return Ok(format!(".isVar {x}"));
        }
        let cs = ops[1..].iter().map(|o| occurs_search(o)).collect::<Result<Vec<_>, _>>()?;
        return Ok(format!(".varOr {x} ({})", cs.join(" ++ ")));
    }
    let cs = ops.iter().map(|o| occurs_search(o)).collect::<Result<Vec<_>, _>>()?;
    Ok(format!(".children ({})", cs.join(" ++ ")))
}

/// the arms of `unify_inner`'s `match (a, b)` the model was written against,
/// in source order (token text without blanks), with the `SetArm` of those
/// that bind a variable
const UNIFY_ARMS: &[(&str, Option<&str>)] = &[
    ("(a,b)ifa==b", None),
    ("(a@ExplicitVar(_),b)", None),
    ("(a,b@ExplicitVar(_))", None),
    ("(Never,x)|(x,Never)", None),
    ("(IntVar(a,a_signed),IntVar(b,b_signed))", Some("intInt")),
    ("(IntVar(b,s),Name(name))|(Name(name),IntVar(b,s))", Some("intName")),
    ("(FloatVar(a),b@FloatVar(_))", Some("floatFloat")),
    ("(FloatVar(b),Name(name))|(Name(name),FloatVar(b))", Some("floatName")),
    ("(Var(a),b)", Some("varLeft")),
    ("(a,Var(b))", Some("varRight")),
    ("(RecordVar(a_var,a_fields),refb@RecordVar(_,refb_fields))", Some("recRec")),
    ("(RecordVar(a_var,a_fields),refb@Record(refb_fields))", Some("recRecord")),
    ("(refa@Record(refa_fields),RecordVar(b_var,b_fields))", Some("recordRec")),
    ("(RecordVar(var,fields),Name(name))|(Name(name),RecordVar(var,fields))", Some("recName")),
    ("(Name(a),Name(b))", None),
    ("(Function(a_params,a_ret),refb@Function(refb_params,refb_ret))", None),
    ("(_a,_b)", None),
];

const NEVER_ARM: &str = "(Never,x)|(x,Never)";
const NEVER_ARM_AT: usize = 3;

fn norm_value(s: &str) -> String {
    let s = s.trim_start_matches('&');
    s.strip_suffix(".clone()").unwrap_or(s).to_string()
}

/// all `….unionfind.set(v, t)` statements of a block (not nested ones) with
/// the guard in front of each
fn sets_in_block(stmts: &[syn::Stmt], atomic: &dyn Fn(&str) -> bool) -> Result<Vec<&'static str>, String> {
    let mut out = vec![];
    let texts: Vec<String> = stmts.iter().map(|s| txt(s)).collect();
    for (i, t) in texts.iter().enumerate() {
        let Some(rest) = t.strip_prefix("self.type_info.unionfind.set(") else {
            if t.contains("unionfind.set(") {
                return Err(format!("unify_inner: a `set` inside a nested statement: {t}"));
            }
            continue;
        };
        let args = rest.strip_suffix(");").ok_or_else(|| format!("set: statement outside the subset: {t}"))?;
        let (v, val) = args.split_once(',').ok_or_else(|| format!("set: arguments outside the subset: {t}"))?;
        let val = norm_value(val);
        // the statement directly in front (skipping nothing)
        let guarded = i > 0 && {
            let want_a = format!("ifself.occurs({v},&{val}){{returnNone;}}");
            let want_b = format!("ifself.occurs({v},{val}){{returnNone;}}");
            texts[i - 1] == want_a || texts[i - 1] == want_b
        };
        out.push(if guarded {
            "occursCheck"
        } else if atomic(&val) {
            "atomic"
        } else {
            "unguarded"
        });
    }
    Ok(out)
}

fn body_stmts(e: &syn::Expr) -> Vec<syn::Stmt> {
    match e {
        syn::Expr::Block(b) => b.block.stmts.clone(),
        other => vec![syn::Stmt::Expr(other.clone(), None)],
    }
}

pub fn unifyfacts(repo: &Path) -> Result<String, String> {
    let uf = find::parse(repo, "src/typechecker/unionfind.rs")?;
    let tc = find::parse(repo, "src/typechecker/mod.rs")?;
    let mut out = String::from(
        "/- GENERATED by /verif/extract from src/typechecker/mod.rs, src/typechecker/unionfind.rs — do not edit. -/\nimport RotoV.Model.UnifyBase\nset_option linter.unusedVariables false\nnamespace RotoV.Gen.UnifyFacts\nopen RotoV.Unify\n\n",
    );

    // ---- UnionFind::find / find_ref
    out.push_str(&head_fn(
        "findHead",
        "`UnionFind::find`: the index that is followed when the entry is one of these variables (and differs from the entry's own index)",
        &find_arms(&uf, "find")?,
        "i",
    )?);
    out.push_str(&head_fn("findRefHead", "`UnionFind::find_ref`: likewise", &find_arms(&uf, "find_ref")?, "i")?);
    // the compressing `find` stores what it found
    let f = find::func(&uf, "find", Some("UnionFind"))?;
    if !txt(&f.block).contains("letnew_t=self.find(*i);self.inner[index]=new_t.clone();new_t") {
        return Err("find: the path-compression sequence `let new_t = self.find(*i); self.inner[index] = new_t.clone(); new_t` not found".into());
    }
    let f = find::func(&uf, "set", Some("UnionFind"))?;
    if txt(&f.block) != "{self.inner[index]=t;}" {
        return Err(format!("UnionFind::set is not `self.inner[index] = t;`: {}", txt(&f.block)));
    }

    // ---- TypeChecker::resolve_type
    let f = find::func(&tc, "resolve_type", Some("TypeChecker"))?;
    let [syn::Stmt::Expr(syn::Expr::If(iff), None)] = &f.block.stmts[..] else {
        return Err("resolve_type: body is not a single `if let`".into());
    };
    let syn::Expr::Let(l) = &*iff.cond else {
        return Err("resolve_type: condition is not `let … = t`".into());
    };
    if txt(&l.expr) != "t" {
        return Err("resolve_type: scrutinee is not `t`".into());
    }
    if txt(&iff.then_branch) != "{self.type_info.unionfind.find(*x).clone()}" {
        return Err(format!("resolve_type: then-branch outside the subset: {}", txt(&iff.then_branch)));
    }
    match &iff.else_branch {
        Some((_, e)) if txt(e) == "{t.clone()}" => {}
        _ => return Err("resolve_type: else-branch is not `t.clone()`".into()),
    }
    out.push_str(&head_fn("resolveHead", "`TypeChecker::resolve_type`: the variables that are looked up", &ty_alts(&l.pat)?, "x")?);

    // ---- TypeInfo::resolve / resolve_ref (what every later stage uses)
    let info = find::parse(repo, "src/typechecker/info.rs")?;
    for (func, lean, want_then) in [
        ("resolve", "infoResolveHead", "{t=self.unionfind.find(x).clone();}"),
        ("resolve_ref", "infoResolveRefHead", "{t=self.unionfind.find_ref(*x);}"),
    ] {
        let f = find::func(&info, func, Some("TypeInfo"))?;
        let ifs: Vec<&syn::ExprIf> = f
            .block
            .stmts
            .iter()
            .filter_map(|s| match s {
                syn::Stmt::Expr(syn::Expr::If(i), _) => Some(i),
                _ => None,
            })
            .collect();
        let [iff] = ifs[..] else {
            return Err(format!("TypeInfo::{func}: expected one `if let` statement"));
        };
        let syn::Expr::Let(l) = &*iff.cond else {
            return Err(format!("TypeInfo::{func}: condition is not `let … = t`"));
        };
        if txt(&l.expr) != "t" || iff.else_branch.is_some() || txt(&iff.then_branch) != want_then {
            return Err(format!("TypeInfo::{func}: `if let` outside the subset: {}", txt(iff)));
        }
        match f.block.stmts.last() {
            Some(syn::Stmt::Expr(e, None)) if txt(e) == "t" => {}
            _ => return Err(format!("TypeInfo::{func}: does not end with `t`")),
        }
        out.push_str(&head_fn(lean, &format!("`TypeInfo::{func}`: the variables that are looked up"), &ty_alts(&l.pat)?, "x")?);
    }

    // ---- TypeChecker::occurs
    let f = find::func(&tc, "occurs", Some("TypeChecker"))?;
    let params: Vec<String> = f.sig.inputs.iter().map(|a| txt(a)).collect();
    if params != ["&mutself", "var:usize", "ty:&Type"] {
        return Err(format!("occurs: signature outside the subset: {params:?}"));
    }
    let [syn::Stmt::Expr(syn::Expr::Match(m), None)] = &f.block.stmts[..] else {
        return Err("occurs: body is not a single `match`".into());
    };
    if txt(&m.expr) != "self.resolve_type(ty)" {
        return Err(format!("occurs: scrutinee is `{}`, expected `self.resolve_type(ty)`", txt(&m.expr)));
    }
    out.push_str("/-- `TypeChecker::occurs`: what each arm does with the resolved type -/\ndef occursArm : Ty → OccArm\n");
    let mut covered: Vec<String> = vec![];
    for arm in &m.arms {
        if arm.guard.is_some() {
            return Err("occurs: guarded arm".into());
        }
        if matches!(&arm.pat, syn::Pat::Wild(_)) {
            let what = occurs_arm(&arm.body)?;
            for (c, n) in TY_CTORS {
                if !covered.iter().any(|x| x == c) {
                    let p = TyPat { ctor: c.to_string(), binders: vec![None; *n] };
                    out.push_str(&format!("  | {} => {what}\n", lean_ty_pat(&p, &|s| lean_ident(s))));
                    covered.push(c.to_string());
                }
            }
            continue;
        }
        let what = occurs_arm(&arm.body)?;
        for alt in ty_alts(&arm.pat)? {
            if covered.contains(&alt.ctor) {
                // an earlier arm wins in Rust; Lean would flag the redundant alternative
                return Err(format!("occurs: constructor {} matched twice", alt.ctor));
            }
            covered.push(alt.ctor.clone());
            out.push_str(&format!("  | {} => {what}\n", lean_ty_pat(&alt, &|s| lean_ident(s))));
        }
    }
    for (c, _) in TY_CTORS {
        if !covered.iter().any(|x| x == c) {
            return Err(format!("occurs: constructor {c} not matched"));
        }
    }
    out.push('\n');

    // ---- TypeChecker::unify_inner: arms and the guard of every `set`
    let f = find::func(&tc, "unify_inner", Some("TypeChecker"))?;
    let m = the_match(&f, "(a,b)", "unify_inner")?;
    let pats: Vec<String> = m
        .arms
        .iter()
        .map(|a| {
            let mut s = txt(&a.pat).replace(",)", ")");
            if let Some(g) = &a.guard {
                s.push_str(&format!("if{}", txt(&g.1)));
            }
            s
        })
        .collect();
    // the arm `(Never, x) | (x, Never) => x` may or may not be there (the model
    // takes `innerNeverArm` as a parameter; the theorems hold either way)
    let inner_never = pats.get(NEVER_ARM_AT).map(|p| p == NEVER_ARM).unwrap_or(false);
    if inner_never && txt(&m.arms[NEVER_ARM_AT].body) != "x" {
        return Err(format!("unify_inner: the body of the arm `{NEVER_ARM}` is not `x`: {}", txt(&m.arms[NEVER_ARM_AT].body)));
    }
    let arms: Vec<&(&str, Option<&str>)> = UNIFY_ARMS.iter().filter(|a| inner_never || a.0 != NEVER_ARM).collect();
    let want: Vec<&str> = arms.iter().map(|a| a.0).collect();
    if pats != want {
        let diff = pats.iter().zip(want.iter()).position(|(a, b)| a != b).unwrap_or(pats.len().min(want.len()));
        return Err(format!(
            "unify_inner: the arms of `match (a, b)` differ from the ones the model was written against (first difference at arm {diff}: `{}`)",
            pats.get(diff).cloned().unwrap_or_else(|| "<missing>".into())
        ));
    }
    let pre = txt(&f.block);
    if !pre.contains("leta=self.resolve_type(a);letb=self.resolve_type(b);") {
        return Err("unify_inner: `let a = self.resolve_type(a); let b = self.resolve_type(b);` not found".into());
    }
    let mut guards: Vec<(String, &'static str)> = vec![];
    let total_sets = txt(&f.block).matches("unionfind.set(").count();
    let mut attributed = 0;
    for (arm, (_, set_arm)) in m.arms.iter().zip(arms.iter().copied()) {
        let body = txt(&arm.body);
        let n = body.matches("unionfind.set(").count();
        match set_arm {
            None => {
                if n != 0 {
                    return Err(format!("unify_inner: arm `{}` binds a variable but the model has no binding there", txt(&arm.pat)));
                }
            }
            Some("intInt") => {
                if n != 0 || body != "{self.unify_intvars(a,a_signed,b,b_signed)}" {
                    return Err(format!("unify_inner: IntVar/IntVar arm outside the subset: {body}"));
                }
                let g = find::func(&tc, "unify_intvars", Some("TypeChecker"))?;
                let [syn::Stmt::Expr(syn::Expr::If(iff), None)] = &g.block.stmts[..] else {
                    return Err("unify_intvars: body is not a single `if`".into());
                };
                let mut all = vec![];
                all.extend(sets_in_block(&iff.then_branch.stmts, &|v| v.starts_with("Type::IntVar(") && !v.contains("["))?);
                match &iff.else_branch {
                    Some((_, e)) => all.extend(sets_in_block(&body_stmts(e), &|v| v.starts_with("Type::IntVar("))?),
                    None => return Err("unify_intvars: no else branch".into()),
                }
                if all.len() != 2 || txt(&g.block).matches("unionfind.set(").count() != 2 {
                    return Err("unify_intvars: expected exactly one `set` per branch".into());
                }
                let worst = if all.contains(&"unguarded") { "unguarded" } else if all.iter().all(|g| *g == "occursCheck") { "occursCheck" } else { "atomic" };
                guards.push(("intInt".into(), worst));
            }
            Some(name) => {
                let stmts = body_stmts(&arm.body);
                let empty_args_checked = body.contains("if!name.arguments.is_empty(){returnNone;}");
                let atomic = |v: &str| match *name {
                    "intName" | "floatName" => v == "Name(name.clone())" && empty_args_checked,
                    "floatFloat" => v == "b",
                    _ => false,
                };
                let gs = sets_in_block(&stmts, &atomic)?;
                if gs.len() != 1 || n != 1 {
                    return Err(format!("unify_inner: arm `{}`: expected exactly one `set` at the top level of the arm, found {} (of {n})", txt(&arm.pat), gs.len()));
                }
                attributed += 1;
                guards.push((name.to_string(), gs[0]));
            }
        }
    }
    if attributed != total_sets {
        return Err(format!("unify_inner: {total_sets} calls of `unionfind.set`, {attributed} attributed to arms"));
    }
    out.push_str("/-- `TypeChecker::unify_inner` / `unify_intvars`: what guards each `unionfind.set` -/\ndef setGuard : SetArm → Guard\n");
    for (a, g) in &guards {
        out.push_str(&format!("  | .{a} => .{g}\n"));
    }
    out.push_str(&format!(
        "\n/-- `unify_inner` has the arm `(Never, x) | (x, Never) => x` (behind the two `ExplicitVar` arms) -/\ndef innerNeverArm : Bool := {inner_never}\n"
    ));

    // ---- TypeChecker::unify (expected `a`, found `b`): the entry point
    let f = find::func(&tc, "unify", Some("TypeChecker"))?;
    let params: Vec<String> = f.sig.inputs.iter().map(|a| txt(a)).collect();
    if params != ["&mutself", "a:&Type", "b:&Type", "span:MetaId", "cause:Option<MetaId>"] {
        return Err(format!("unify: signature outside the subset: {params:?}"));
    }
    let stmts: Vec<String> = f.block.stmts.iter().map(|s| txt(s)).collect();
    const ENTRY_NEVER: &str = "ifletType::Never=self.resolve_type(b){returnOk(self.resolve_type(a));}";
    const ENTRY_REST: &str = "ifletSome(ty)=self.unify_inner(a,b){Ok(ty)}else{leta=self.resolve_type(a);letb=self.resolve_type(b);Err(self.error_mismatched_types(&a,&b,span,cause))}";
    let entry_never = match stmts.iter().map(|s| s.as_str()).collect::<Vec<_>>()[..] {
        [ENTRY_NEVER, ENTRY_REST] => true,
        [ENTRY_REST] => false,
        _ => return Err(format!("unify: body outside the subset (expected the optional early return for a found `!`, then `if let Some(ty) = self.unify_inner(a, b) … else … error_mismatched_types`): {}", stmts.join(" "))),
    };
    out.push_str(&format!(
        "\n/-- `unify(expected a, found b)` starts with `if let Type::Never = self.resolve_type(b) {{ return Ok(self.resolve_type(a)); }}` -/\ndef entryNeverFound : Bool := {entry_never}\n"
    ));
    // nothing but `unify` (and the verification hooks) calls `unify_inner` from outside
    struct Callers(Vec<String>);
    impl<'ast> syn::visit::Visit<'ast> for Callers {
        fn visit_item_impl(&mut self, i: &'ast syn::ItemImpl) {
            if !hook_only(&i.attrs) {
                syn::visit::visit_item_impl(self, i);
            }
        }
        fn visit_item_mod(&mut self, i: &'ast syn::ItemMod) {
            if !hook_only(&i.attrs) {
                syn::visit::visit_item_mod(self, i);
            }
        }
        fn visit_impl_item_fn(&mut self, i: &'ast syn::ImplItemFn) {
            if !hook_only(&i.attrs) && txt(&i.block).contains(".unify_inner(") {
                self.0.push(i.sig.ident.to_string());
            }
        }
        fn visit_item_fn(&mut self, i: &'ast syn::ItemFn) {
            if !hook_only(&i.attrs) && txt(&i.block).contains(".unify_inner(") {
                self.0.push(i.sig.ident.to_string());
            }
        }
    }
    for file in ["src/typechecker/mod.rs", "src/typechecker/expr.rs", "src/typechecker/function.rs", "src/typechecker/info.rs"] {
        use syn::visit::Visit;
        let parsed = find::parse(repo, file)?;
        let mut c = Callers(vec![]);
        c.visit_file(&parsed);
        for name in c.0 {
            if !["unify", "unify_inner", "unify_fields"].contains(&name.as_str()) {
                return Err(format!("{file}: `{name}` calls `unify_inner` directly (the model has `unify` as the only entry point)"));
            }
        }
    }
    out.push_str("\nend RotoV.Gen.UnifyFacts\n");
    Ok(out)
}


// ------------------------------------------------------------ reportslices

/// the files that build the text of parse / type errors and render reports
const REPORT_FILES: &[&str] = &[
    "src/parser/error.rs",
    "src/parser/meta.rs",
    "src/parser/token.rs",
    "src/typechecker/error.rs",
    "src/typechecker/types.rs",
    "src/pipeline.rs",
];

/// the rest of the front end (without the lexer, which has its own model):
/// cuts here decode literals or take the tail of an argument list
const FRONT_END_FILES: &[&str] = &[
    "src/parser/mod.rs",
    "src/parser/expr.rs",
    "src/parser/filter_map.rs",
    "src/parser/signature.rs",
    "src/typechecker/mod.rs",
    "src/typechecker/expr.rs",
    "src/typechecker/function.rs",
    "src/typechecker/info.rs",
    "src/typechecker/scope.rs",
    "src/typechecker/scoped_display.rs",
    "src/module.rs",
    "src/file_tree.rs",
];

/// methods that cut or splice at a byte offset (or skip the checks)
const CUT_METHODS: &[&str] = &[
    "split_at", "split_at_mut", "split_at_checked", "truncate", "drain", "split_off", "insert", "insert_str",
    "replace_range", "get_unchecked", "get_unchecked_mut", "slice_unchecked", "from_utf8_unchecked", "remove",
];

struct SliceFinder {
    /// also flag `insert` / `remove` (ambiguous with maps and lists: only in the report files)
    strict: bool,
    file: &'static str,
    source: String,
    cur_fn: Vec<String>,
    found: Vec<String>,
}

fn lean_str(s: &str) -> String {
    let mut o = String::from("\"");
    for c in s.chars() {
        match c {
            '"' => o.push_str("\\\""),
            '\\' => o.push_str("\\\\"),
            c if c.is_ascii() && !c.is_ascii_control() => o.push(c),
            c => o.push_str(&format!("\\u{{{:x}}}", c as u32)),
        }
    }
    o.push('"');
    o
}

impl SliceFinder {
    /// best effort (no span locations in this build of proc-macro2): the first
    /// line whose text without blanks contains the start of the expression
    fn line_of(&self, text: &str) -> usize {
        let head: String = text.chars().take(24).collect();
        self.source
            .lines()
            .position(|l| l.replace(' ', "").contains(&head))
            .map(|i| i + 1)
            .unwrap_or(0)
    }
    fn site(&mut self, line: usize, text: String) {
        let f = self.cur_fn.last().cloned().unwrap_or_else(|| "-".into());
        let known = match (self.file, f.as_str(), text.as_str()) {
            (_, _, t) if t.ends_with("[..]") => Some(".full"),
            ("src/parser/meta.rs", "character_range", "file[..self.start]") => Some(".charRangePrefix"),
            ("src/parser/meta.rs", "character_range", "file[self.start..self.end]") => Some(".charRangeSpan"),
            ("src/parser/expr.rs", "simple_literal", "s[1..s.len()-1]") => Some(".quotesStripped"),
            ("src/parser/expr.rs", "simple_literal", "s[2..]") => Some(".asciiPrefix2"),
            ("src/parser/expr.rs", "unescape_f_string_part", "s[piece_start..i]") => Some(".fstringPiece"),
            ("src/parser/expr.rs", "unescape_f_string_part", "s[piece_start..]") => Some(".fstringPiece"),
            ("src/typechecker/expr.rs", _, "function.signature.parameter_types[1..]") => Some(".vecTail"),
            _ => None,
        };
        self.found.push(match known {
            Some(k) => k.to_string(),
            None => format!(".unaudited {} {} {line} {}", lean_str(self.file), lean_str(&f), lean_str(&text)),
        });
    }
}

/// `#[cfg(feature = "verif-hooks")]` on an item: the verification hooks are
/// add-only scaffolding that is not compiled into the product (the feature is
/// off by default) — they are not part of the code the property is about
fn hook_only(attrs: &[syn::Attribute]) -> bool {
    attrs.iter().any(|a| txt(a) == "#[cfg(feature=\"verif-hooks\")]")
}

impl<'ast> syn::visit::Visit<'ast> for SliceFinder {
    fn visit_item_fn(&mut self, i: &'ast syn::ItemFn) {
        if hook_only(&i.attrs) {
            return;
        }
        self.cur_fn.push(i.sig.ident.to_string());
        syn::visit::visit_item_fn(self, i);
        self.cur_fn.pop();
    }
    fn visit_impl_item_fn(&mut self, i: &'ast syn::ImplItemFn) {
        if hook_only(&i.attrs) {
            return;
        }
        self.cur_fn.push(i.sig.ident.to_string());
        syn::visit::visit_impl_item_fn(self, i);
        self.cur_fn.pop();
    }
    fn visit_item_impl(&mut self, i: &'ast syn::ItemImpl) {
        if hook_only(&i.attrs) {
            return;
        }
        syn::visit::visit_item_impl(self, i);
    }
    fn visit_item_mod(&mut self, i: &'ast syn::ItemMod) {
        if hook_only(&i.attrs) {
            return;
        }
        syn::visit::visit_item_mod(self, i);
    }
    fn visit_expr_index(&mut self, e: &'ast syn::ExprIndex) {
        if matches!(&*e.index, syn::Expr::Range(_)) {
            let t = txt(e);
            self.site(self.line_of(&t), t);
        }
        syn::visit::visit_expr_index(self, e);
    }
    fn visit_expr_method_call(&mut self, e: &'ast syn::ExprMethodCall) {
        let m = e.method.to_string();
        if CUT_METHODS.contains(&m.as_str()) && (self.strict || (m != "insert" && m != "remove")) {
            let t = txt(e);
            self.site(self.line_of(&t), t);
        }
        syn::visit::visit_expr_method_call(self, e);
    }
    fn visit_expr_call(&mut self, e: &'ast syn::ExprCall) {
        let f = txt(&e.func);
        if CUT_METHODS.iter().any(|m| f.ends_with(&format!("::{m}"))) {
            let t = txt(e);
            self.site(self.line_of(&t), t);
        }
        syn::visit::visit_expr_call(self, e);
    }
    fn visit_macro(&mut self, m: &'ast syn::Macro) {
        // format!/write!/… arguments are expressions too
        if let Ok(args) = m.parse_body_with(syn::punctuated::Punctuated::<syn::Expr, syn::Token![,]>::parse_terminated) {
            for a in &args {
                self.visit_expr(a);
            }
        }
    }
}

pub fn reportslices(repo: &Path) -> Result<String, String> {
    use syn::visit::Visit;
    let mut out = String::from(
        "/- GENERATED by /verif/extract from the files that build and render reports — do not edit. -/\nimport RotoV.Model.ReportBase\nnamespace RotoV.Gen.ReportSlices\nopen RotoV.Report\n\n",
    );
    let mut all = vec![];
    for f in REPORT_FILES {
        let file = find::parse(repo, f)?;
        let source = std::fs::read_to_string(repo.join(f)).unwrap_or_default();
        let mut v = SliceFinder { strict: true, file: f, source, cur_fn: vec![], found: vec![] };
        v.visit_file(&file);
        all.extend(v.found);
    }
    out.push_str(&format!(
        "/-- every cut of a text by byte offsets in {} -/\ndef sliceSites : List SliceSite :=\n  [{}]\n\n",
        REPORT_FILES.join(", "),
        all.join(",\n   ")
    ));
    let mut all = vec![];
    for f in FRONT_END_FILES {
        let file = find::parse(repo, f)?;
        let source = std::fs::read_to_string(repo.join(f)).unwrap_or_default();
        let mut v = SliceFinder { strict: false, file: f, source, cur_fn: vec![], found: vec![] };
        v.visit_file(&file);
        all.extend(v.found);
    }
    out.push_str(&format!(
        "/-- every cut of a text or list by offsets in {} -/\ndef frontEndSites : List SliceSite :=\n  [{}]\n\nend RotoV.Gen.ReportSlices\n",
        FRONT_END_FILES.join(", "),
        all.join(",\n   ")
    ));
    Ok(out)
}

// ------------------------------------------------------------ msgops

/// the files that build the MESSAGE of a parse error: the constructors of
/// `ParseError`, `label`, `hint`, the `Display` impls, and `Display for Token`
/// (the text of the offending token as it is quoted)
const MSG_FILES: &[&str] = &["src/parser/error.rs", "src/parser/token.rs"];

/// the methods `Model/ReportMsgBase.lean` (`Meth`) has a constructor `k_<name>` for
const MSG_METHODS: &[&str] = &[
    "to_string", "into", "clone", "to_owned", "as_str", "as_ref", "write_str", "write_fmt", "fmt", "len", "is_empty",
    "chars", "char_indices", "bytes", "count", "push", "push_str", "iter", "map", "filter", "collect", "join",
    "starts_with", "ends_with", "contains", "trim", "get", "first", "last", "next", "take", "skip", "rev", "pop",
    "find", "lines", "is_some", "is_none", "ok", "unwrap_or", "unwrap_or_default", "unwrap_or_else",
    "is_char_boundary", "unwrap", "expect", "unwrap_err", "expect_err", "truncate", "split_at", "split_at_mut",
    "drain", "split_off", "insert", "insert_str", "replace_range", "remove", "swap_remove", "repeat", "step_by",
    "chunks", "copy_from_slice", "get_unchecked", "get_unchecked_mut", "slice_unchecked", "unwrap_unchecked",
];

/// the macros `Mac` has a constructor `m_<name>` for
const MSG_MACROS: &[&str] = &[
    "format", "write", "writeln", "panic", "unreachable", "todo", "unimplemented", "assert", "assert_eq", "assert_ne",
    "debug_assert", "debug_assert_eq", "debug_assert_ne",
];

fn msg_meth(name: &str) -> String {
    if MSG_METHODS.contains(&name) {
        format!(".k_{name}")
    } else {
        format!("(.other {})", lean_str(name))
    }
}

fn test_or_hook(attrs: &[syn::Attribute]) -> bool {
    attrs.iter().any(|a| {
        let t = txt(a);
        t == "#[cfg(feature=\"verif-hooks\")]" || t == "#[cfg(test)]" || t == "#[test]"
    })
}

struct MsgOpFinder {
    file: &'static str,
    /// the functions defined in the audited files (a call of one is `localFn`: its body is in the list)
    local: Vec<String>,
    cur_fn: Vec<String>,
    found: Vec<String>,
    functions: Vec<String>,
}

impl MsgOpFinder {
    fn op(&mut self, op: String) {
        let f = self.cur_fn.last().cloned().unwrap_or_else(|| "-".into());
        self.found.push(format!("⟨{}, {}, {op}⟩", lean_str(self.file), lean_str(&f)));
    }
}

impl<'ast> syn::visit::Visit<'ast> for MsgOpFinder {
    fn visit_item_fn(&mut self, i: &'ast syn::ItemFn) {
        if test_or_hook(&i.attrs) {
            return;
        }
        self.cur_fn.push(i.sig.ident.to_string());
        self.functions.push(i.sig.ident.to_string());
        syn::visit::visit_item_fn(self, i);
        self.cur_fn.pop();
    }
    fn visit_impl_item_fn(&mut self, i: &'ast syn::ImplItemFn) {
        if test_or_hook(&i.attrs) {
            return;
        }
        self.cur_fn.push(i.sig.ident.to_string());
        self.functions.push(i.sig.ident.to_string());
        syn::visit::visit_impl_item_fn(self, i);
        self.cur_fn.pop();
    }
    fn visit_item_impl(&mut self, i: &'ast syn::ItemImpl) {
        if test_or_hook(&i.attrs) {
            return;
        }
        syn::visit::visit_item_impl(self, i);
    }
    fn visit_item_mod(&mut self, i: &'ast syn::ItemMod) {
        if test_or_hook(&i.attrs) {
            return;
        }
        syn::visit::visit_item_mod(self, i);
    }
    fn visit_expr_method_call(&mut self, e: &'ast syn::ExprMethodCall) {
        self.op(format!(".meth {}", msg_meth(&e.method.to_string())));
        syn::visit::visit_expr_method_call(self, e);
    }
    fn visit_expr_call(&mut self, e: &'ast syn::ExprCall) {
        let f = txt(&e.func);
        let c = match f.as_str() {
            "Vec::new" => ".c_vec_new".to_string(),
            "String::new" => ".c_string_new".to_string(),
            "String::from" => ".c_string_from".to_string(),
            "Some" => ".c_some".to_string(),
            "Ok" => ".c_ok".to_string(),
            "Err" => ".c_err".to_string(),
            f if self.local.iter().any(|l| l == f || f == format!("Self::{l}")) => {
                format!("(.localFn {})", lean_str(f))
            }
            f => format!("(.other {})", lean_str(f)),
        };
        self.op(format!(".call {c}"));
        syn::visit::visit_expr_call(self, e);
    }
    fn visit_expr_index(&mut self, e: &'ast syn::ExprIndex) {
        let t = txt(e);
        if t.ends_with("[..]") {
            self.op(".fullRange".to_string());
        } else {
            self.op(format!(".index {}", lean_str(&t)));
        }
        syn::visit::visit_expr_index(self, e);
    }
    fn visit_expr_binary(&mut self, e: &'ast syn::ExprBinary) {
        use syn::BinOp::*;
        match &e.op {
            Add(_) | Sub(_) | Mul(_) | Div(_) | Rem(_) | Shl(_) | Shr(_) | AddAssign(_) | SubAssign(_)
            | MulAssign(_) | DivAssign(_) | RemAssign(_) | ShlAssign(_) | ShrAssign(_) => {
                self.op(format!(".arith {}", lean_str(&txt(&e.op))));
            }
            _ => {}
        }
        syn::visit::visit_expr_binary(self, e);
    }
    fn visit_expr_unary(&mut self, e: &'ast syn::ExprUnary) {
        if matches!(e.op, syn::UnOp::Neg(_)) {
            self.op(".arith \"neg\"".to_string());
        }
        syn::visit::visit_expr_unary(self, e);
    }
    fn visit_expr_while(&mut self, e: &'ast syn::ExprWhile) {
        self.op(".hazard \"while\"".to_string());
        syn::visit::visit_expr_while(self, e);
    }
    fn visit_expr_loop(&mut self, e: &'ast syn::ExprLoop) {
        self.op(".hazard \"loop\"".to_string());
        syn::visit::visit_expr_loop(self, e);
    }
    fn visit_expr_unsafe(&mut self, e: &'ast syn::ExprUnsafe) {
        self.op(".hazard \"unsafe\"".to_string());
        syn::visit::visit_expr_unsafe(self, e);
    }
    fn visit_macro(&mut self, m: &'ast syn::Macro) {
        let name = m.path.segments.last().map(|s| s.ident.to_string()).unwrap_or_default();
        match m.parse_body_with(syn::punctuated::Punctuated::<syn::Expr, syn::Token![,]>::parse_terminated) {
            Ok(args) => {
                if MSG_MACROS.contains(&name.as_str()) {
                    self.op(format!(".mac .m_{name}"));
                } else {
                    self.op(format!(".mac (.other {})", lean_str(&name)));
                }
                for a in &args {
                    self.visit_expr(a);
                }
            }
            Err(_) => self.op(format!(".mac (.other {})", lean_str(&format!("{name}!(unparsed)")))),
        }
    }
}

/// names of the functions the audited files define (outside hooks and tests)
fn msg_local_fns(file: &syn::File, out: &mut Vec<String>) {
    for it in &file.items {
        match it {
            syn::Item::Fn(f) if !test_or_hook(&f.attrs) => out.push(f.sig.ident.to_string()),
            syn::Item::Impl(i) if !test_or_hook(&i.attrs) => {
                for ii in &i.items {
                    if let syn::ImplItem::Fn(f) = ii {
                        if !test_or_hook(&f.attrs) {
                            out.push(f.sig.ident.to_string());
                        }
                    }
                }
            }
            _ => {}
        }
    }
}

/// `param.m1().m2()…` → (param, [m1, m2, …]); anything else → None
fn msg_chain(e: &syn::Expr, params: &[String]) -> Option<(String, Vec<String>)> {
    match e {
        syn::Expr::Path(p) => {
            let id = p.path.get_ident()?.to_string();
            params.contains(&id).then(|| (id, vec![]))
        }
        syn::Expr::MethodCall(m) if m.args.is_empty() => {
            let (p, mut c) = msg_chain(&m.receiver, params)?;
            c.push(m.method.to_string());
            Some((p, c))
        }
        syn::Expr::Paren(p) => msg_chain(&p.expr, params),
        syn::Expr::Reference(r) => msg_chain(&r.expr, params),
        _ => None,
    }
}

/// the struct literals `ParseErrorKind::X { field: expr, … }` in a constructor's body
struct KindLiterals<'a> {
    found: Vec<&'a syn::ExprStruct>,
}
impl<'ast> syn::visit::Visit<'ast> for KindLiterals<'ast> {
    fn visit_expr_struct(&mut self, e: &'ast syn::ExprStruct) {
        if e.path.segments.first().map(|s| s.ident == "ParseErrorKind").unwrap_or(false) {
            self.found.push(e);
        }
        syn::visit::visit_expr_struct(self, e);
    }
}

/// Target `msgops` → `Generated/MsgOps.lean`: every operation in the bodies of the functions that build the message
/// of a parse error (`MSG_FILES`; method calls, macros, calls, indexing, arithmetic, `while` / `loop` / `unsafe`),
/// and — for every function of `impl ParseError` that has `impl Display` parameters — what it stores in each field
/// of the `ParseErrorKind` it builds. The constructors the parser calls with the text of a token must be there.
pub fn msgops(repo: &Path) -> Result<String, String> {
    use syn::visit::Visit;
    let mut files = vec![];
    let mut local = vec![];
    for f in MSG_FILES {
        let file = find::parse(repo, f)?;
        msg_local_fns(&file, &mut local);
        files.push((*f, file));
    }
    let mut ops = vec![];
    let mut functions = vec![];
    for (f, file) in &files {
        let mut v = MsgOpFinder { file: f, local: local.clone(), cur_fn: vec![], found: vec![], functions: vec![] };
        v.visit_file(file);
        ops.extend(v.found);
        functions.extend(v.functions.into_iter().map(|n| format!("{f}::{n}")));
    }
    // the constructors of `ParseError`
    let mut fields = vec![];
    let mut ctors = vec![];
    for it in &files[0].1.items {
        let syn::Item::Impl(i) = it else { continue };
        if test_or_hook(&i.attrs) || i.trait_.is_some() || txt(&i.self_ty) != "ParseError" {
            continue;
        }
        for ii in &i.items {
            let syn::ImplItem::Fn(f) = ii else { continue };
            if test_or_hook(&f.attrs) {
                continue;
            }
            let mut params = vec![];
            for a in &f.sig.inputs {
                if let syn::FnArg::Typed(t) = a {
                    if txt(&t.ty) == "implDisplay" {
                        if let syn::Pat::Ident(p) = &*t.pat {
                            params.push(p.ident.to_string());
                        } else {
                            return Err(format!("msgops: parameter pattern of ParseError::{} not understood", f.sig.ident));
                        }
                    }
                }
            }
            if params.is_empty() {
                continue;
            }
            let name = f.sig.ident.to_string();
            let mut lits = KindLiterals { found: vec![] };
            lits.visit_block(&f.block);
            let mut used: Vec<String> = vec![];
            for lit in &lits.found {
                for fv in &lit.fields {
                    let field = txt(&fv.member);
                    let (param, chain) = match msg_chain(&fv.expr, &params) {
                        Some((p, c)) => {
                            used.push(p.clone());
                            (p, c.iter().map(|m| msg_meth(m)).collect::<Vec<_>>())
                        }
                        None => ("-".to_string(), vec![format!("(.other {})", lean_str(&txt(&fv.expr)))]),
                    };
                    fields.push(format!(
                        "⟨{}, {}, {}, [{}]⟩",
                        lean_str(&name),
                        lean_str(&field),
                        lean_str(&param),
                        chain.join(", ")
                    ));
                }
            }
            // a parameter that reaches the message some other way (a `let`, a helper) is not understood
            for p in &params {
                let n = count_ident(&f.block, p);
                let direct = used.iter().filter(|u| *u == p).count();
                if n != direct {
                    fields.push(format!(
                        "⟨{}, \"-\", {}, [(.other {})]⟩",
                        lean_str(&name),
                        lean_str(p),
                        lean_str(&format!("{p}: used {n} times, {direct} times as a field `{p}.m()..`"))
                    ));
                }
            }
            ctors.push(name);
        }
    }
    for need in ["expected", "invalid_literal", "custom"] {
        if !ctors.iter().any(|c| c == need) {
            return Err(format!("msgops: ParseError::{need} with `impl Display` parameters not found in {}", MSG_FILES[0]));
        }
    }
    if !functions.iter().any(|f| f == "src/parser/token.rs::fmt") {
        return Err("msgops: `Display for Token` (fn fmt) not found in src/parser/token.rs".into());
    }
    let mut out = String::from(
        "/- GENERATED by /verif/extract (target `msgops`) from src/parser/error.rs, src/parser/token.rs — do not edit. -/\nimport RotoV.Model.ReportMsgBase\nnamespace RotoV.Gen.MsgOps\nopen RotoV.ReportMsg\n\n",
    );
    out.push_str(&format!(
        "/-- every operation in the bodies of the functions of {} (hooks and tests skipped) -/\ndef ops : List Site :=\n  [{}]\n\n",
        MSG_FILES.join(", "),
        ops.join(",\n   ")
    ));
    out.push_str(&format!("/-- the number of function bodies walked -/\ndef functionCount : Nat := {}\n\n", functions.len()));
    out.push_str(&format!(
        "/-- what the constructors of `ParseError` store from their `impl Display` parameters -/\ndef fields : List Field :=\n  [{}]\n\n",
        fields.join(",\n   ")
    ));
    let mut call_args = vec![];
    for f in MSG_CALLER_FILES {
        let file = find::parse(repo, f)?;
        let mut v = MsgCallFinder { file: f, found: vec![] };
        v.visit_file(&file);
        call_args.extend(v.found);
    }
    out.push_str(&format!(
        "/-- every text argument of every call of `ParseError::expected` / `invalid_literal` / `custom` in {} -/\ndef callArgs : List CallArg :=\n  [{}]\n\nend RotoV.Gen.MsgOps\n",
        MSG_CALLER_FILES.join(", "),
        call_args.join(",\n   ")
    ));
    Ok(out)
}

/// the parser files that call the constructors of `ParseError`
const MSG_CALLER_FILES: &[&str] =
    &["src/parser/mod.rs", "src/parser/expr.rs", "src/parser/filter_map.rs", "src/parser/signature.rs"];

/// what a caller hands to a text parameter of a constructor of `ParseError`
fn msg_arg(e: &syn::Expr) -> String {
    match e {
        syn::Expr::Lit(l) if matches!(l.lit, syn::Lit::Str(_)) => ".lit".to_string(),
        syn::Expr::Path(p) if p.path.get_ident().is_some() => format!(".var {}", lean_str(&txt(p))),
        syn::Expr::Reference(r) => msg_arg(&r.expr),
        syn::Expr::Paren(p) => msg_arg(&p.expr),
        syn::Expr::Macro(m) if m.mac.path.is_ident("format") => {
            match m.mac.parse_body_with(syn::punctuated::Punctuated::<syn::Expr, syn::Token![,]>::parse_terminated) {
                Ok(args)
                    if args.iter().enumerate().all(|(i, a)| match a {
                        syn::Expr::Lit(l) => i == 0 && matches!(l.lit, syn::Lit::Str(_)),
                        syn::Expr::Path(p) => i > 0 && p.path.get_ident().is_some(),
                        _ => false,
                    }) =>
                {
                    ".fmt".to_string()
                }
                _ => format!(".other {}", lean_str(&txt(e))),
            }
        }
        _ => format!(".other {}", lean_str(&txt(e))),
    }
}

struct MsgCallFinder {
    file: &'static str,
    found: Vec<String>,
}

impl<'ast> syn::visit::Visit<'ast> for MsgCallFinder {
    fn visit_item_fn(&mut self, i: &'ast syn::ItemFn) {
        if !test_or_hook(&i.attrs) {
            syn::visit::visit_item_fn(self, i);
        }
    }
    fn visit_impl_item_fn(&mut self, i: &'ast syn::ImplItemFn) {
        if !test_or_hook(&i.attrs) {
            syn::visit::visit_impl_item_fn(self, i);
        }
    }
    fn visit_item_impl(&mut self, i: &'ast syn::ItemImpl) {
        if !test_or_hook(&i.attrs) {
            syn::visit::visit_item_impl(self, i);
        }
    }
    fn visit_item_mod(&mut self, i: &'ast syn::ItemMod) {
        if !test_or_hook(&i.attrs) {
            syn::visit::visit_item_mod(self, i);
        }
    }
    fn visit_expr_call(&mut self, e: &'ast syn::ExprCall) {
        let f = txt(&e.func);
        if let Some(ctor) = f.strip_prefix("ParseError::") {
            // the last argument is the location (a `Span`, not a text); `escape` takes the escaper's error and a span
            let texts = match ctor {
                "expected" | "custom" => 2,
                "invalid_literal" => 3,
                "escape" => 0,
                _ => usize::MAX,
            };
            if texts == usize::MAX || (ctor != "escape" && e.args.len() != texts + 1) {
                self.found.push(format!(
                    "⟨{}, {}, .other {}⟩",
                    lean_str(self.file),
                    lean_str(ctor),
                    lean_str(&format!("call not understood: {}", txt(e)))
                ));
            } else {
                for a in e.args.iter().take(texts) {
                    self.found.push(format!("⟨{}, {}, {}⟩", lean_str(self.file), lean_str(ctor), msg_arg(a)));
                }
            }
        }
        syn::visit::visit_expr_call(self, e);
    }
    fn visit_macro(&mut self, m: &'ast syn::Macro) {
        if let Ok(args) = m.parse_body_with(syn::punctuated::Punctuated::<syn::Expr, syn::Token![,]>::parse_terminated) {
            for a in &args {
                self.visit_expr(a);
            }
        }
    }
}

/// how often the identifier occurs as an expression in the block
fn count_ident(b: &syn::Block, name: &str) -> usize {
    use syn::visit::Visit;
    struct C<'a> {
        name: &'a str,
        n: usize,
    }
    impl<'ast, 'a> syn::visit::Visit<'ast> for C<'a> {
        fn visit_expr_path(&mut self, p: &'ast syn::ExprPath) {
            if p.path.is_ident(self.name) {
                self.n += 1;
            }
        }
        fn visit_macro(&mut self, m: &'ast syn::Macro) {
            // format!("{x}") captures are not visible to syn: count textual occurrences of the name
            let t = m.tokens.to_string();
            self.n += t.matches(self.name).count();
        }
    }
    let mut c = C { name, n: 0 };
    c.visit_block(b);
    c.n
}
