//! Translator targets owned by property C20.
//!
//! `evalmem` → `Generated/EvalMem.lean`, from `src/lir/eval.rs` and
//! `src/codegen/mod.rs`:
//!
//!  * the field lists of `Allocation`, `LocalPointer`, `StackFrame`, `Memory`
//!    (must equal the hand-written structures of `Model/EvalMem.lean`);
//!  * `LocalPointer::offset_by`, `Allocation::{read, write}`,
//!    `StackFrame::{read, write}`, `Memory::{read_slice, write, copy,
//!    push_frame, pop_frame, offset_by, allocate, get}` — `&mut self` functions
//!    become state-passing functions (`Res Self` / `Res (Self × T)`): the
//!    desugarer below turns `x.push(e)`, `x += e`, `x[a..b].copy_from_slice(v)`
//!    and calls of `&mut self` methods through `&mut xs[i]` aliases into
//!    functional updates with write-back, the rest is `r2l`;
//!  * the control-flow arms of the evaluator loop (`Switch`, `Jump`, and the
//!    program-counter part of `Return`) and the `Switch` arm of
//!    `FuncGen::instruction`.
//!
//! Anything outside the subset (an `unsafe` view of the storage, a method
//! without a Lean meaning such as `binary_search_by_key`, a changed
//! statement shape) is an extraction failure = broken obligation.

use super::{Gen, Target};
use crate::find;
use crate::r2l::{CallRw, Cx, Meth};
use crate::{footer, header};
use quote::ToTokens;
use std::collections::HashMap;
use std::path::Path;
use syn::{Expr, Stmt};

pub const TARGETS: &[Target] = &[("evalmem", "EvalMem", evalmem as Gen), ("evalregs", "EvalRegs", evalregs as Gen)];

const STRUCTS: [&str; 6] = ["Allocation", "LocalPointer", "GlobalPointer", "StackFrame", "Memory", "Pointer"];

fn txt<T: ToTokens>(t: &T) -> String {
    t.to_token_stream().to_string()
}

fn nospace(s: &str) -> String {
    s.replace(' ', "")
}

/// Rust type ↦ Lean type (of the memory model).
fn lean_ty(t: &str, this: &str) -> Result<String, String> {
    let t = nospace(t);
    let t = t.trim_start_matches('&').trim_start_matches("mut");
    Ok(match t {
        "usize" | "u32" => "Nat".into(),
        "u8" => "UInt8".into(),
        "Self" => this.into(),
        "()" => "Unit".into(),
        "Var" => "Nat".into(),
        "*mut()" => "RawPtr".into(),
        "[u8]" | "Vec<u8>" | "Box<[u8]>" => "(List UInt8)".into(),
        x if STRUCTS.contains(&x) => x.into(),
        x => {
            if let Some(inner) = x.strip_prefix("Option<").and_then(|s| s.strip_suffix('>')) {
                format!("(Option {})", lean_ty(inner, this)?)
            } else if let Some(inner) = x.strip_prefix("Vec<").and_then(|s| s.strip_suffix('>')) {
                format!("(List {})", lean_ty(inner, this)?)
            } else {
                return Err(format!("type outside the memory model: {x}"));
            }
        }
    })
}

/// element type of a `Vec<T>` field
fn elem_ty(field_ty: &str) -> Option<String> {
    nospace(field_ty)
        .strip_prefix("Vec<")
        .and_then(|s| s.strip_suffix('>'))
        .map(|s| s.to_string())
}

struct Decls {
    /// struct ↦ (field, type)
    fields: HashMap<String, Vec<(String, String)>>,
    /// functions to generate: (type, method) ↦ is `&mut self`, returns unit
    fns: HashMap<(String, String), (bool, bool)>,
}

/// Desugars one function body into pure-functional Rust text for `r2l`.
struct Desugar<'a> {
    d: &'a Decls,
    this: String,
    mut_self: bool,
    unit: bool,
    /// local ↦ Rust type name
    env: HashMap<String, String>,
    /// `&mut` aliases: local ↦ (place text, index text)
    aliases: HashMap<String, (String, String)>,
}

impl Desugar<'_> {
    fn root(&self, s: &str) -> String {
        if s == "self" { "self_".into() } else { s.into() }
    }

    /// the type of a place `R` or `R.f`
    fn place_ty(&self, e: &Expr) -> Option<String> {
        match e {
            Expr::Path(p) => self.env.get(&txt(p)).cloned(),
            Expr::Field(f) => {
                let base = self.place_ty(&f.base)?;
                let fs = self.d.fields.get(&base)?;
                fs.iter().find(|x| x.0 == txt(&f.member)).map(|x| x.1.clone())
            }
            Expr::Reference(r) => self.place_ty(&r.expr),
            Expr::Paren(p) => self.place_ty(&p.expr),
            Expr::Index(ix) => elem_ty(&self.place_ty(&ix.expr)?),
            _ => None,
        }
    }

    /// expression text with method calls on receivers of a known generated
    /// type turned into calls of `Type__method`, `self` renamed.
    fn expr(&self, e: &Expr) -> String {
        struct V<'b, 'c>(&'b Desugar<'c>);
        impl syn::visit_mut::VisitMut for V<'_, '_> {
            fn visit_expr_mut(&mut self, e: &mut Expr) {
                syn::visit_mut::visit_expr_mut(self, e);
                match e {
                    Expr::MethodCall(mc) => {
                        if let Some(t) = self.0.place_ty(&mc.receiver) {
                            let t = t.trim_start_matches('&').to_string();
                            let m = mc.method.to_string();
                            if self.0.d.fns.contains_key(&(t.clone(), m.clone())) {
                                let mut args = vec![txt(&mc.receiver)];
                                args.extend(mc.args.iter().map(txt));
                                *e = syn::parse_str(&format!("{t}__{m}({})", args.join(", ")))
                                    .expect("desugared call parses");
                            }
                        }
                    }
                    // pointer casts are the identity on the model's addresses; the address of a
                    // place is taken with `raw_of_ref` (the place has to exist)
                    Expr::Cast(c) if matches!(*c.ty, syn::Type::Ptr(_)) => {
                        *e = match &*c.expr {
                            Expr::Reference(r) => syn::parse_str(&format!("raw_of_ref({})", txt(&r.expr)))
                                .expect("raw_of_ref parses"),
                            other => other.clone(),
                        };
                    }
                    // the one raw access: what a global pointer refers to
                    Expr::Unsafe(u) => {
                        if let [Stmt::Expr(Expr::Call(c), None)] = u.block.stmts.as_slice() {
                            if nospace(&txt(&c.func)).ends_with("slice::from_raw_parts") && c.args.len() == 2 {
                                let a: Vec<String> = c.args.iter().map(txt).collect();
                                *e = syn::parse_str(&format!("raw_read({}, {})", a[0], a[1])).expect("raw read parses");
                            }
                        }
                    }
                    _ => {}
                }
            }
        }
        let mut e = e.clone();
        // typed receivers are looked up with the original names
        syn::visit_mut::VisitMut::visit_expr_mut(&mut V(self), &mut e);
        // `self` ↦ `self_`
        struct S;
        impl syn::visit_mut::VisitMut for S {
            fn visit_expr_path_mut(&mut self, p: &mut syn::ExprPath) {
                if p.path.is_ident("self") {
                    *p = syn::parse_str("self_").unwrap();
                }
            }
        }
        syn::visit_mut::VisitMut::visit_expr_mut(&mut S, &mut e);
        txt(&e)
    }

    fn ret(&self, v: Option<String>) -> String {
        match (self.mut_self, self.unit, v) {
            (true, true, _) => "self_".into(),
            (true, false, Some(v)) => format!("(self_, {v})"),
            (true, false, None) => "(self_, ())".into(),
            (false, _, Some(v)) => v,
            (false, _, None) => "()".into(),
        }
    }

    /// `R.f = V` / `R = V` as `let` lines, with write-back through aliases.
    fn assign(&self, place: &Expr, value: String, out: &mut String) -> Result<(), String> {
        let root = match place {
            Expr::Path(p) => {
                let r = txt(p);
                out.push_str(&format!("let {} = {value};\n", self.root(&r)));
                r
            }
            Expr::Field(f) => {
                let Expr::Path(p) = &*f.base else {
                    return Err(format!("unsupported place (nested field): {}", txt(place)));
                };
                let r = txt(p);
                let rr = self.root(&r);
                out.push_str(&format!("let {rr} = Upd {{ {}: {value}, ..{rr} }};\n", txt(&f.member)));
                r
            }
            other => return Err(format!("unsupported place: {}", txt(other))),
        };
        if !self.mut_self && root == "self" {
            return Err("mutation of `self` in a `&self` function".into());
        }
        if let Some((pl, idx)) = self.aliases.get(&root) {
            let pl_e: Expr = syn::parse_str(pl).map_err(|e| e.to_string())?;
            let v = format!("vec_set({}, {}, {})", self.expr(&pl_e), idx, self.root(&root));
            self.assign(&pl_e, v, out)?;
        }
        Ok(())
    }

    /// a statement that mutates through a place; `None` when `e` is not one
    fn mutation(&self, e: &Expr, out: &mut String) -> Result<Option<Option<String>>, String> {
        match e {
            Expr::MethodCall(mc) => {
                let m = mc.method.to_string();
                let args: Vec<String> = mc.args.iter().map(|a| self.expr(a)).collect();
                match m.as_str() {
                    "push" if args.len() == 1 => {
                        let v = format!("vec_push({}, {})", self.expr(&mc.receiver), args[0]);
                        self.assign(&mc.receiver, v, out)?;
                        Ok(Some(None))
                    }
                    "pop" if args.is_empty() => {
                        out.push_str(&format!("let popped__ = vec_pop({});\n", self.expr(&mc.receiver)));
                        self.assign(&mc.receiver, "popped__.0".into(), out)?;
                        Ok(Some(Some("popped__.1".into())))
                    }
                    "copy_from_slice" if args.len() == 1 => {
                        let Expr::Index(ix) = &*mc.receiver else {
                            return Err("copy_from_slice: receiver is not a slice of a place".into());
                        };
                        let Expr::Range(r) = &*ix.index else {
                            return Err("copy_from_slice: receiver is not a range".into());
                        };
                        let (Some(a), Some(b)) = (&r.start, &r.end) else {
                            return Err("copy_from_slice: open range".into());
                        };
                        if !matches!(r.limits, syn::RangeLimits::HalfOpen(_)) {
                            return Err("copy_from_slice: inclusive range".into());
                        }
                        let v = format!(
                            "vec_splice({}, {}, {}, {})",
                            self.expr(&ix.expr),
                            self.expr(a),
                            self.expr(b),
                            args[0]
                        );
                        self.assign(&ix.expr, v, out)?;
                        Ok(Some(None))
                    }
                    _ => {
                        // a `&mut self` method of a generated type on `self` or an alias
                        let Some(t) = self.place_ty(&mc.receiver) else { return Ok(None) };
                        let Some((is_mut, unit)) = self.d.fns.get(&(t.clone(), m.clone())) else { return Ok(None) };
                        if !is_mut {
                            return Ok(None);
                        }
                        let mut a = vec![self.expr(&mc.receiver)];
                        a.extend(args);
                        let call = format!("{t}__{m}({})", a.join(", "));
                        if *unit {
                            self.assign(&mc.receiver, call, out)?;
                            Ok(Some(None))
                        } else {
                            out.push_str(&format!("let called__ = {call};\n"));
                            self.assign(&mc.receiver, "called__.0".into(), out)?;
                            Ok(Some(Some("called__.1".into())))
                        }
                    }
                }
            }
            Expr::Binary(b) if matches!(b.op, syn::BinOp::AddAssign(_)) => {
                let v = format!("{} + {}", self.expr(&b.left), self.expr(&b.right));
                self.assign(&b.left, v, out)?;
                Ok(Some(None))
            }
            Expr::Assign(a) => {
                self.assign(&a.left, self.expr(&a.right), out)?;
                Ok(Some(None))
            }
            _ => Ok(None),
        }
    }

    fn bind_pat(&mut self, pat: &syn::Pat) {
        // `Pointer::Local(p)` ↦ p : LocalPointer (payload types of `Pointer`)
        if let syn::Pat::TupleStruct(ts) = pat {
            let v = ts.path.segments.last().map(|s| s.ident.to_string()).unwrap_or_default();
            let payload = match v.as_str() {
                "Local" => Some("LocalPointer"),
                "Global" => Some("GlobalPointer"),
                _ => None,
            };
            if let (Some(t), Some(syn::Pat::Ident(i))) = (payload, ts.elems.first()) {
                self.env.insert(i.ident.to_string(), t.into());
            }
        }
    }

    fn tail(&mut self, e: &Expr) -> Result<String, String> {
        Ok(match e {
            Expr::Match(m) => {
                let mut s = format!("match {} {{\n", self.expr(&m.expr));
                for a in &m.arms {
                    if a.guard.is_some() {
                        return Err("unsupported: guard in a memory function".into());
                    }
                    let saved = (self.env.clone(), self.aliases.clone());
                    self.bind_pat(&a.pat);
                    let body = match &*a.body {
                        Expr::Block(b) => self.block(&b.block.stmts)?,
                        other => self.block(&[Stmt::Expr(other.clone(), None)])?,
                    };
                    (self.env, self.aliases) = saved;
                    s.push_str(&format!("{} => {{ {body} }}\n", txt(&a.pat)));
                }
                s + "}"
            }
            Expr::If(i) => {
                let then = self.block(&i.then_branch.stmts)?;
                let els = match &i.else_branch {
                    Some((_, e)) => self.tail(e)?,
                    None => return Err("unsupported: tail `if` without `else`".into()),
                };
                format!("if {} {{ {then} }} else {{ {els} }}", self.expr(&i.cond))
            }
            Expr::Block(b) => self.block(&b.block.stmts)?,
            Expr::Return(r) => {
                let v = r.expr.as_ref().map(|x| self.expr(x));
                format!("return {}", self.ret(v))
            }
            Expr::Macro(_) => txt(e),
            other => {
                let mut out = String::new();
                match self.mutation(other, &mut out)? {
                    Some(v) => format!("{out}{}", self.ret(v)),
                    None => self.ret(Some(self.expr(other))),
                }
            }
        })
    }

    fn block(&mut self, stmts: &[Stmt]) -> Result<String, String> {
        let saved = (self.env.clone(), self.aliases.clone());
        let mut out = String::new();
        let mut closed = false;
        for (k, s) in stmts.iter().enumerate() {
            let last = k + 1 == stmts.len();
            match s {
                Stmt::Local(l) => {
                    let init = l.init.as_ref().ok_or("let without initialiser")?;
                    if init.diverge.is_some() {
                        return Err("unsupported: let-else in a memory function".into());
                    }
                    let (pat, _asc) = match &l.pat {
                        syn::Pat::Type(pt) => (&*pt.pat, Some(txt(&pt.ty))),
                        p => (p, None),
                    };
                    let name = match pat {
                        syn::Pat::Ident(i) => i.ident.to_string(),
                        other => return Err(format!("unsupported let pattern: {}", txt(other))),
                    };
                    // the initialiser is evaluated in the old environment
                    let value = self.expr(&init.expr);
                    let ty = self.place_ty(&init.expr);
                    self.aliases.remove(&name);
                    if let Expr::Reference(r) = &*init.expr {
                        if let (true, Expr::Index(ix)) = (r.mutability.is_some(), &*r.expr) {
                            if matches!(*ix.index, Expr::Range(_)) {
                                return Err("unsupported: `&mut` of a sub-slice".into());
                            }
                            self.aliases.insert(name.clone(), (txt(&ix.expr), self.expr(&ix.index)));
                        } else if r.mutability.is_some() {
                            return Err(format!("unsupported `&mut` borrow: {}", txt(&init.expr)));
                        }
                    }
                    match ty {
                        Some(t) => self.env.insert(name.clone(), t),
                        None => self.env.remove(&name),
                    };
                    out.push_str(&format!("let {name} = {value};\n"));
                }
                Stmt::Macro(m) => {
                    // assert!/assert_eq!/panic!/trace!: r2l gives them their meaning
                    let inner: proc_macro2::TokenStream = m.mac.tokens.clone();
                    let args = syn::parse::Parser::parse2(
                        syn::punctuated::Punctuated::<Expr, syn::Token![,]>::parse_terminated,
                        inner,
                    );
                    let name = txt(&m.mac.path);
                    match (name.as_str(), args) {
                        ("assert" | "assert_eq" | "assert_ne", Ok(a)) => {
                            let n = if name == "assert" { 1 } else { 2 };
                            let a: Vec<String> = a.iter().take(n).map(|x| self.expr(x)).collect();
                            out.push_str(&format!("{name}!({});\n", a.join(", ")));
                        }
                        _ => out.push_str(&format!("{};\n", txt(&m.mac))),
                    }
                    if last && nospace(&name) == "panic" {
                        closed = true;
                    }
                }
                Stmt::Expr(e, semi) => {
                    let is_ctl = matches!(e, Expr::Return(_) | Expr::Match(_) | Expr::Block(_))
                        || matches!(e, Expr::If(i) if i.else_branch.is_some())
                        || matches!(e, Expr::Macro(_));
                    if last && (semi.is_none() || is_ctl) {
                        out.push_str(&self.tail(e)?);
                        closed = true;
                    } else if let Expr::If(i) = e {
                        // `if c { …; return x; }` followed by more statements
                        if i.else_branch.is_some() || !crate::r2l::diverges(&i.then_branch.stmts) {
                            return Err(format!("unsupported statement: {}", txt(e)));
                        }
                        let then = self.block(&i.then_branch.stmts)?;
                        out.push_str(&format!("if {} {{ {then} }}\n", self.expr(&i.cond)));
                    } else {
                        let mut lines = String::new();
                        match self.mutation(e, &mut lines)? {
                            Some(_) => out.push_str(&lines),
                            None => return Err(format!("unsupported statement: {}", txt(e))),
                        }
                    }
                }
                Stmt::Item(_) => return Err("unsupported: nested item".into()),
            }
        }
        if !closed {
            out.push_str(&self.ret(None));
        }
        (self.env, self.aliases) = saved;
        Ok(out)
    }
}

fn mem_cx(this: &str) -> Cx {
    let mut cx = Cx::default();
    for (r, l) in [
        ("Pointer::Local", "Pointer.Local"),
        ("Pointer::Global", "Pointer.Global"),
        ("self_", "self_"),
    ] {
        cx.paths.insert(r.into(), l.into());
    }
    cx.paths.insert("Self".into(), format!("{this}.mk"));
    // struct literals
    for t in ["Allocation", "LocalPointer", "GlobalPointer", "StackFrame", "Memory"] {
        cx.paths.insert(t.into(), format!("{t}.mk"));
    }
    cx.paths.insert("Vec::new".into(), "Vec.new".into());
    cx.paths.insert("val".into(), "val_".into());
    cx.types.insert("usize".into(), "Nat".into());
    cx.types.insert("Vec<_>".into(), "(List UInt8)".into());
    cx.methods.insert("len".into(), Meth::Pure("Vec.len".into()));
    cx.methods.insert("is_multiple_of".into(), Meth::Pure("Usize.is_multiple_of".into()));
    cx.methods.insert("next_multiple_of".into(), Meth::Fallible("Usize.next_multiple_of".into()));
    cx.methods.insert("div_ceil".into(), Meth::Fallible("Usize.div_ceil".into()));
    cx.methods.insert("into_boxed_slice".into(), Meth::Identity);
    cx.methods.insert("to_vec".into(), Meth::Identity);
    for (f, l, fallible) in [
        ("vec_push", "Vec.push", false),
        ("vec_set", "Vec.set", false),
        ("vec_pop", "Vec.pop", false),
        ("raw_read", "Raw.read", false),
        ("raw_of_ref", "Raw.of_ref", false),
        ("vec_splice", "Vec.splice", true),
    ] {
        if fallible {
            cx.fallible_fns.insert(f.into(), (l.into(), false));
        } else {
            cx.paths.insert(f.into(), l.into());
        }
    }
    cx
}

/// `vec![0; n]` ↦ `vec_zeros(n)` (text level: `syn` keeps macro bodies opaque)
fn vec_zeros(s: &str) -> String {
    let mut out = String::new();
    let mut rest = s;
    while let Some(i) = rest.find("vec ! [0 ;") {
        out.push_str(&rest[..i]);
        let after = &rest[i + "vec ! [0 ;".len()..];
        let Some(j) = after.find(']') else { break };
        out.push_str(&format!("vec_zeros({})", after[..j].trim()));
        rest = &after[j + 1..];
    }
    out + rest
}

const MEM_FNS: [(&str, &str); 15] = [
    ("Allocation", "get"),
    ("StackFrame", "get"),
    ("Memory", "get"),
    ("LocalPointer", "offset_by"),
    ("Allocation", "write"),
    ("Allocation", "read"),
    ("StackFrame", "write"),
    ("StackFrame", "read"),
    ("Memory", "write"),
    ("Memory", "read_slice"),
    ("Memory", "copy"),
    ("Memory", "push_frame"),
    ("Memory", "pop_frame"),
    ("Memory", "offset_by"),
    ("Memory", "allocate"),
];

pub fn evalmem(repo: &Path) -> Result<String, String> {
    let eval = find::parse(repo, "src/lir/eval.rs")?;
    let codegen = find::parse(repo, "src/codegen/mod.rs")?;
    let mut out = header("EvalMem", &["src/lir/eval.rs", "src/codegen/mod.rs"])
        .replace("import RotoV.Model.Clif\n", "import RotoV.Model.Clif\nimport RotoV.Model.EvalMem\n");

    // ---- declarations: the field lists are part of the tie
    let mut d = Decls { fields: HashMap::new(), fns: HashMap::new() };
    let expected: [(&str, &[(&str, &str)]); 5] = [
        ("Allocation", &[("inner", "Box<[u8]>")]),
        (
            "LocalPointer",
            &[("stack_index", "usize"), ("stack_id", "usize"), ("allocation_index", "usize"), ("allocation_offset", "usize")],
        ),
        ("GlobalPointer", &[("ptr", "*mut()")]),
        (
            "StackFrame",
            &[("id", "usize"), ("return_address", "usize"), ("return_place", "Option<Var>"), ("allocations", "Vec<Allocation>")],
        ),
        ("Memory", &[("id_counter", "usize"), ("stack", "Vec<StackFrame>"), ("pointers", "Vec<Pointer>")]),
    ];
    for (name, want) in expected {
        let have = find::struct_fields(&eval, name)?;
        let want: Vec<(String, String)> = want.iter().map(|(a, b)| (a.to_string(), b.to_string())).collect();
        if have != want {
            return Err(format!(
                "struct {name}: fields {have:?} differ from the modelled {want:?} (Model/EvalMem.lean has to follow the source)"
            ));
        }
        d.fields.insert(name.into(), have);
    }
    let variants = find::enum_variants(&eval, "Pointer")?;
    if variants != ["Global", "Local"] {
        return Err(format!("enum Pointer: variants {variants:?} differ from the modelled [Global, Local]"));
    }

    // ---- signatures first (calls between the functions need them)
    let mut bodies = vec![];
    for (t, m) in MEM_FNS {
        let f = find::func(&eval, m, Some(t))?;
        let recv = f.sig.receiver().ok_or(format!("{t}::{m}: no self parameter"))?;
        let is_mut = recv.mutability.is_some();
        let unit = matches!(f.sig.output, syn::ReturnType::Default);
        d.fns.insert((t.to_string(), m.to_string()), (is_mut, unit));
        bodies.push((t, m, f, is_mut, unit));
    }

    for (t, m, f, is_mut, unit) in bodies {
        let mut ds = Desugar {
            d: &d,
            this: t.to_string(),
            mut_self: is_mut,
            unit,
            env: HashMap::new(),
            aliases: HashMap::new(),
        };
        ds.env.insert("self".into(), t.to_string());
        let mut params = vec![format!("(self_ : {t})")];
        for a in f.sig.inputs.iter().skip(1) {
            let syn::FnArg::Typed(pt) = a else { continue };
            let name = txt(&pt.pat);
            let ty = nospace(&txt(&pt.ty));
            let lname = if name == "val" { "val_".to_string() } else { crate::r2l::lean_ident(&name) };
            params.push(format!("({lname} : {})", lean_ty(&ty, t)?));
            let bare = ty.trim_start_matches('&').trim_start_matches("mut").to_string();
            if STRUCTS.contains(&bare.as_str()) {
                ds.env.insert(name, bare);
            }
        }
        let ret = match &f.sig.output {
            syn::ReturnType::Default => None,
            syn::ReturnType::Type(_, ty) => Some(lean_ty(&txt(ty), t)?),
        };
        let ret = match (is_mut, ret) {
            (true, None) => t.to_string(),
            (true, Some(r)) => format!("{t} × {r}"),
            (false, None) => "Unit".into(),
            (false, Some(r)) => r,
        };
        let text = ds.block(&f.block.stmts).map_err(|e| format!("{t}::{m}: {e}"))?;
        let text = vec_zeros(&text);
        let block: syn::Block = syn::parse_str(&format!("{{ {text} }}"))
            .map_err(|e| format!("{t}::{m}: desugared body does not parse: {e}\n{text}"))?;
        let mut cx = mem_cx(t);
        cx.paths.insert("vec_zeros".into(), "Vec.zeros".into());
        for ((ft, fm), _) in d.fns.iter() {
            cx.fallible_fns.insert(format!("{ft}__{fm}"), (format!("{ft}.{fm}"), true));
        }
        let body = cx.block(&block.stmts).map_err(|e| format!("{t}::{m}: {e}"))?;
        out.push_str(&format!(
            "/-- `{t}::{m}` ({}) -/\ndef {t}.{m} (dbg : Bool) {} : Res ({ret}) :=\n {body}\n\n",
            if is_mut { "`&mut self`: returns the new `self`" } else { "`&self`" },
            params.join(" ")
        ));
    }

    // ---- Memory::default
    {
        let f = find::func(&eval, "default", Some("Default for Memory"))?;
        let text = vec_zeros(&txt(&f.block)).replace("vec ! [", "vec_lit ! [");
        // `vec![StackFrame { … }]`: a one-element vector
        let text = text.replace("vec_lit ! [", "[").replace("Vec :: new ()", "[]");
        let block: syn::Block = syn::parse_str(&text).map_err(|e| format!("Memory::default: {e}"))?;
        let mut cx = mem_cx("Memory");
        cx.paths.insert("None".into(), "none".into());
        let body = cx.block(&block.stmts).map_err(|e| format!("Memory::default: {e}"))?;
        out.push_str(&format!("/-- `Memory::default` -/\ndef Memory.default (dbg : Bool) : Res Memory :=\n {body}\n\n"));
    }

    // ---- control-flow arms of the evaluator loop
    {
        let f = find::func(&eval, "eval", None)?;
        let ms = find::matches_on(&f.block, "instruction");
        if ms.len() != 1 {
            return Err(format!("eval: expected one `match instruction`, found {}", ms.len()));
        }
        let m = &ms[0];
        let mut cx = Cx::default();
        cx.call_rewrites.insert("eval_operand".into(), CallRw::Arg(1));
        cx.types.insert("usize".into(), "Nat".into());
        cx.methods.insert("switch_on".into(), Meth::Fallible("switch_on_nat".into()));
        cx.methods.insert("find_map".into(), Meth::Pure("Vec.find_map".into()));
        cx.methods.insert("then_some".into(), Meth::Pure("RBool.then_some".into()));
        cx.methods.insert("unwrap_or".into(), Meth::Pure("ROpt.unwrap_or".into()));

        // Switch: everything up to the assignment of the program counter
        let arm = find::arm_for(m, "Switch")?;
        let Expr::Block(b) = &*arm.body else { return Err("Switch arm is not a block".into()) };
        let stmts = &b.block.stmts;
        let n = stmts.len();
        if n < 3
            || nospace(&txt(&stmts[n - 2])) != "program_counter=block_map[label];"
            || nospace(&txt(&stmts[n - 1])) != "continue;"
        {
            return Err(format!(
                "Switch arm: expected to end in `program_counter = block_map[label]; continue;`, found `{}`",
                stmts[n.saturating_sub(2)..].iter().map(txt).collect::<Vec<_>>().join(" ")
            ));
        }
        let mut body_stmts: Vec<Stmt> = stmts[..n - 2].to_vec();
        // `*i == x` on `usize` keys: decidable equality, no panic
        let mut rp = super::scalar::ExprReplacer::new(&[("*i == x", "nat_eq(*i, x)")]);
        for s in body_stmts.iter_mut() {
            syn::visit_mut::VisitMut::visit_stmt_mut(&mut rp, s);
        }
        cx.paths.insert("nat_eq".into(), "Nat.beq".into());
        body_stmts.push(Stmt::Expr(syn::parse_str("label").unwrap(), None));
        let body = cx.block(&body_stmts).map_err(|e| format!("Switch arm: {e}"))?;
        out.push_str(&format!(
            "/-- the `Switch` arm of `lir::eval`: the label whose block the program counter is set to.\n    `switch_on_nat` is the generated `IrValue::switch_on` (EvalArms) as a `usize`. -/\ndef eval_Switch (dbg : Bool) (switch_on_nat : IrValue → Res Nat) (examinee : IrValue) (branches : List (Nat × Nat)) (default : Nat) : Res Nat :=\n {body}\n\n"
        ));

        // Jump: `program_counter = block_map[b]; continue;`
        let arm = find::arm_for(m, "Jump")?;
        if nospace(&txt(&arm.body)) != "{program_counter=block_map[b];continue;}" {
            return Err(format!("Jump arm: expected `program_counter = block_map[b]; continue;`, found {}", txt(&arm.body)));
        }
        out.push_str("/-- the `Jump` arm of `lir::eval` (checked verbatim: `program_counter = block_map[b]; continue;`) -/\ndef eval_Jump (b : Nat) : Nat := b\n\n");
    }

    // ---- access widths: `IrType::bytes` (value.rs) and the arms that use it
    {
        let value = find::parse(repo, "src/lir/value.rs")?;
        let f = find::func(&value, "bytes", Some("IrType"))?;
        let mut cx = Cx::default();
        for v in ["Bool", "U8", "U16", "U32", "U64", "I8", "I16", "I32", "I64", "F32", "F64", "Char", "Asn", "Pointer"] {
            cx.paths.insert(v.into(), format!("IrType.{v}"));
            cx.paths.insert(format!("IrType::{v}"), format!("IrType.{v}"));
        }
        cx.paths.insert("usize::BITS".into(), "Usize.BITS".into());
        cx.types.insert("usize".into(), "Nat".into());
        let body = cx.block(&f.block.stmts).map_err(|e| format!("IrType::bytes: {e}"))?;
        out.push_str(&format!(
            "/-- `IrType::bytes`: the number of bytes the evaluator reads for a value of this type -/\ndef IrType.bytes (dbg : Bool) (self : IrType) : Res Nat :=\n {body}\n\n"
        ));
        // the evaluator reads `ty.bytes()` bytes; the compiled code loads a `cranelift_type(ty)`
        let f = find::func(&eval, "eval", None)?;
        let ms = find::matches_on(&f.block, "instruction");
        let arm = find::arm_for(&ms[0], "Read")?;
        let want = "{let&IrValue::Pointer(from)=eval_operand(&vars,from)else{panic!()};letsize=ty.bytes();letres=mem.read_slice(from,size);letval=IrValue::from_slice(ty,res);vars.insert(to.clone(),val);}";
        if nospace(&txt(&arm.body)) != want {
            return Err(format!("Read arm of eval differs from the modelled `mem.read_slice(from, ty.bytes())` → `IrValue::from_slice(ty, …)`: {}", txt(&arm.body)));
        }
        let g = find::func(&codegen, "instruction", Some("FuncGen"))?;
        let gms = find::matches_on(&g.block, "instruction");
        let garm = find::arm_for(&gms[0], "Read")?;
        let want = "{letc_ty=self.module.cranelift_type(ty);let(from,_)=self.operand(from);letres=self.ins().load(c_ty,MEMFLAGS,from,0);letto=self.variable(to,c_ty);self.def(to,res);}";
        if nospace(&txt(&garm.body)) != want {
            return Err(format!("Read arm of FuncGen::instruction differs from the modelled `load(cranelift_type(ty), from, 0)`: {}", txt(&garm.body)));
        }
        // Offset / Copy: the same offset and size on both sides
        for (arm_name, ev, cgw) in [
            ("Offset", "letnew=mem.offset_by(from,*offsetasusize);", "lettmp=self.ins().iadd_imm(from,*offsetasi64);"),
            ("Copy", "mem.copy(to,from,*sizeasusize)", "*sizeasu64,"),
        ] {
            let a = find::arm_for(&ms[0], arm_name)?;
            if !nospace(&txt(&a.body)).contains(ev) {
                return Err(format!("{arm_name} arm of eval no longer contains `{ev}`"));
            }
            let a = find::arm_for(&gms[0], arm_name)?;
            if !nospace(&txt(&a.body)).contains(cgw) {
                return Err(format!("{arm_name} arm of FuncGen::instruction no longer contains `{cgw}`"));
            }
        }
    }

    // ---- Call: how arguments are bound to the callee's parameters
    {
        let f = find::func(&eval, "eval", None)?;
        let ms = find::matches_on(&f.block, "instruction");
        let arm = find::arm_for(&ms[0], "Call")?;
        // the one loop that binds arguments: `for (name, arg) in <iter> { let val = eval_operand(&vars, arg);
        // vars.insert(Var { scope: f.scope, kind: VarKind::Explicit(name) }, val.clone()); }`
        struct Loops(Vec<syn::ExprForLoop>);
        impl<'ast> syn::visit::Visit<'ast> for Loops {
            fn visit_expr_for_loop(&mut self, l: &'ast syn::ExprForLoop) {
                self.0.push(l.clone());
                syn::visit::visit_expr_for_loop(self, l);
            }
        }
        let mut ls = Loops(vec![]);
        syn::visit::Visit::visit_expr(&mut ls, &arm.body);
        let binders: Vec<&syn::ExprForLoop> = ls.0.iter().filter(|l| nospace(&txt(&l.pat)) == "(name,arg)").collect();
        if binders.len() != 1 {
            return Err(format!("Call arm: expected one `for (name, arg) in …` loop, found {}", binders.len()));
        }
        let l = binders[0];
        let want_body = "{letval=eval_operand(&vars,arg);vars.insert(Var{scope:f.scope,kind:VarKind::Explicit(name),},val.clone(),);}";
        if nospace(&txt(&l.body)) != want_body {
            return Err(format!("Call arm: the argument-binding loop body differs from the modelled `vars.insert(Explicit(name), eval_operand(arg))`: {}", txt(&l.body)));
        }
        // `names` is `Some(parameter names)` for a function, `None` for a constant
        let names_ok = nospace(&txt(&arm.body)).contains(
            "letnames=match&f.kind{ItemKind::Function{ir_signature,..}=>{Some(ir_signature.parameters.iter().map(|p|p.0))}ItemKind::Constant{..}=>None,};",
        );
        if !names_ok {
            return Err("Call arm: `names` is no longer `Some(ir_signature.parameters.iter().map(|p| p.0))` / `None`".into());
        }
        let mut cx = Cx::default();
        cx.methods.insert("into_iter".into(), Meth::Identity);
        cx.methods.insert("flatten".into(), Meth::Pure("ROpt.flatten_iter".into()));
        cx.methods.insert("zip".into(), Meth::Pure("List.zip".into()));
        cx.methods.insert("rev".into(), Meth::Pure("List.reverse".into()));
        cx.methods.insert("skip".into(), Meth::Pure("RIter.skip".into()));
        cx.methods.insert("take".into(), Meth::Pure("RIter.take".into()));
        let it = cx.v(&l.expr).map_err(|e| format!("Call arm, argument iterator: {e}"))?;
        out.push_str(&format!(
            "/-- the `Call` arm of `lir::eval`: which argument operand each parameter of the callee is bound to\n    (`names`: the callee's parameter names, `None` for a constant; the loop body is checked verbatim:\n    `vars.insert(Explicit(name), eval_operand(arg))`). -/\ndef eval_Call_bindings {{α : Type}} (names : Option (List Nat)) (args : List α) : List (Nat × α) :=\n {it}\n\n"
        ));

        // the code generator passes `[return_ptr?] ++ [ctx?] ++ args` positionally
        let g = find::func(&codegen, "instruction", Some("FuncGen"))?;
        let gms = find::matches_on(&g.block, "instruction");
        let garm = find::arm_for(&gms[0], "Call")?;
        let gt = nospace(&txt(&garm.body));
        let want = "letmutnew_args=Vec::new();ifletSome(return_ptr)=return_ptr{new_args.push(self.operand(&return_ptr.clone().into()).0);}ifletSome(ctx)=ctx{new_args.push(self.operand(ctx).0);}forarginargs{new_args.push(self.operand(arg).0);}";
        if !gt.contains(want) {
            return Err("FuncGen::instruction Call arm: argument list is no longer `[return_ptr?] ++ [ctx?] ++ args` in order".into());
        }
        out.push_str("/-- the `Call` arm of `FuncGen::instruction` (checked verbatim): the explicit arguments are pushed in\n    order, after the optional return pointer and context; a CLIF call binds them positionally to the\n    callee's block parameters, which `FuncGen` declares in the order of `ir_signature.parameters`. -/\ndef cg_Call_bindings {α : Type} (params : List Nat) (args : List α) : List (Nat × α) := params.zip args\n\n");
    }

    // ---- Return / the frame bookkeeping of Call (shape-checked; the frame operations they call are
    //      the generated `Memory.push_frame` / `Memory.pop_frame`)
    {
        let f = find::func(&eval, "eval", None)?;
        let ms = find::matches_on(&f.block, "instruction");
        let arm = find::arm_for(&ms[0], "Return")?;
        let want = "{letval=ret.as_ref().map(|r|eval_operand(&vars,r).clone());ifletSome(StackFrame{id:_,allocations:_,return_address,return_place,})=mem.pop_frame(){ifletSome(val)=val{vars.insert(return_place.unwrap(),val.clone());}program_counter=return_address+1;continue;}else{returnval;}}";
        if nospace(&txt(&arm.body)) != want {
            return Err(format!(
                "Return arm differs from the modelled shape (pop_frame; a popped frame: assign the value to its return_place, continue at return_address + 1; no frame: return the value): {}",
                txt(&arm.body)
            ));
        }
        let call = find::arm_for(&ms[0], "Call")?;
        let ct = nospace(&txt(&call.body));
        if !ct.contains("mem.push_frame(program_counter,to.clone().map(|to|to.0));")
            || !ct.ends_with("program_counter=block_map[&f.entry_block];continue;}")
        {
            return Err("Call arm: no longer `mem.push_frame(program_counter, to.clone().map(|to| to.0))` … `program_counter = block_map[&f.entry_block]; continue;`".into());
        }
        out.push_str(
            "/-- the `Return` arm of `lir::eval` (shape checked verbatim; `Memory.pop_frame` is the generated one):\n    pop a frame; with a frame, hand the value to the frame's `return_place` (`unwrap`: panics when the\n    call expected no value) and continue after the call; without one, `main` returns. -/\ndef eval_Return (dbg : Bool) (mem : Memory) (val_ : Option IrValue) : Res (Memory × Flow) := do\n  let (mem, popped) ← Memory.pop_frame dbg mem\n  match popped with\n  | some fr =>\n    match val_ with\n    | some v =>\n      match fr.return_place with\n      | some place => pure (mem, Flow.resume (fr.return_address + 1) (some (place, v)))\n      | none => Res.panic\n    | none => pure (mem, Flow.resume (fr.return_address + 1) none)\n  | none => pure (mem, Flow.finish val_)\n\n/-- the frame bookkeeping of the `Call` arm (shape checked verbatim): `push_frame(program_counter,\n    to.map(|to| to.0))`, then jump to the callee's entry block. -/\ndef eval_Call_frame (dbg : Bool) (mem : Memory) (program_counter : Nat) (to_ : Option Nat) : Res Memory :=\n  Memory.push_frame dbg mem program_counter to_\n\n",
        );
    }

    // ---- the Switch arm of the code generator
    {
        let f = find::func(&codegen, "instruction", Some("FuncGen"))?;
        let ms = find::matches_on(&f.block, "instruction");
        if ms.len() != 1 {
            return Err(format!("FuncGen::instruction: expected one `match instruction`, found {}", ms.len()));
        }
        let arm = find::arm_for(&ms[0], "Switch")?;
        let want = "{letmutswitch=Switch::new();for(idx,label)inbranches{letblock=self.get_block(*label);switch.set_entry(*idxasu128,block);}letotherwise=self.get_block(*default);let(val,_)=self.operand(examinee);switch.emit(&mutself.builder,val,otherwise);}";
        if nospace(&txt(&arm.body)) != want {
            return Err(format!(
                "FuncGen::instruction Switch arm differs from the modelled shape (one `set_entry(*idx as u128, get_block(*label))` per branch in table order, then `emit(val, get_block(*default))`): {}",
                txt(&arm.body)
            ));
        }
        out.push_str(
            "/-- the `Switch` arm of `FuncGen::instruction` (checked verbatim): one `set_entry` per branch in\n    table order, then `emit` with the default block; blocks are identified with their labels\n    (`get_block` is a map lookup). -/\ndef cg_Switch (branches : List (Nat × Nat)) : Res ClifSwitch :=\n branches.foldlM (fun s (idx, label) => s.set_entry idx label) ClifSwitch.new\n\n",
        );
    }

    out.push_str(&footer("EvalMem"));
    Ok(out)
}

// ====================================================================== evalregs
//
// The register file of the evaluator and the variable map of the code generator: what a variable
// of the lowered IR is keyed by. Generated: `VarKind` / `Var` of src/lir/mod.rs (variants, fields,
// and that equality and hashing are the DERIVED ones, i.e. over every field), the key types of
// `vars` in `lir::eval` and of `ModuleBuilder::variable_map`, and the operand lookup of both
// sides (shape-checked: a map lookup with the whole place, a miss stops loudly).

fn regs_lean_ty(t: &str) -> Result<&'static str, String> {
    match t {
        "ScopeRef" | "Identifier" | "usize" => Ok("Nat"),
        "VarKind" => Ok("VarKind"),
        other => Err(format!("type `{other}` in Var / VarKind has no Lean counterpart in the register model")),
    }
}

fn derives(attrs: &[syn::Attribute]) -> Vec<String> {
    let mut out = vec![];
    for a in attrs {
        if a.path().is_ident("derive") {
            let _ = a.parse_nested_meta(|m| {
                out.push(m.path.to_token_stream().to_string().replace(' ', ""));
                Ok(())
            });
        }
    }
    out
}

/// The key type `K` of an expression / type of the form `HashMap<K, V>` or `HashMap::<K, V>::new()`.
fn hashmap_key(tokens: &str) -> Option<(String, String)> {
    let t = nospace(tokens);
    let t = t.strip_prefix("HashMap::<").or_else(|| t.strip_prefix("HashMap<"))?;
    let t = t.strip_suffix(">::new()").or_else(|| t.strip_suffix('>'))?;
    // split at the first top-level comma
    let mut depth = 0;
    for (i, c) in t.char_indices() {
        match c {
            '<' | '(' => depth += 1,
            '>' | ')' => depth -= 1,
            ',' if depth == 0 => return Some((t[..i].to_string(), t[i + 1..].to_string())),
            _ => {}
        }
    }
    None
}

pub fn evalregs(repo: &Path) -> Result<String, String> {
    let lir = find::parse(repo, "src/lir/mod.rs")?;
    let eval = find::parse(repo, "src/lir/eval.rs")?;
    let codegen = find::parse(repo, "src/codegen/mod.rs")?;
    let mut out = header("EvalRegs", &["src/lir/mod.rs", "src/lir/eval.rs", "src/codegen/mod.rs"])
        .replace("import RotoV.Model.RustStd\nimport RotoV.Model.Lir\nimport RotoV.Model.Clif\n", "import RotoV.Model.EvalRegs\n");

    // ---- VarKind / Var: generated from the declarations
    let mut var_kind = None;
    let mut var = None;
    for item in &lir.items {
        match item {
            syn::Item::Enum(e) if e.ident == "VarKind" => var_kind = Some(e),
            syn::Item::Struct(s) if s.ident == "Var" => var = Some(s),
            _ => {}
        }
    }
    let var_kind = var_kind.ok_or("src/lir/mod.rs: enum VarKind not found")?;
    let var = var.ok_or("src/lir/mod.rs: struct Var not found")?;
    for (name, attrs) in [("VarKind", &var_kind.attrs), ("Var", &var.attrs)] {
        let d = derives(attrs);
        for need in ["PartialEq", "Eq", "Hash"] {
            if !d.iter().any(|x| x == need) {
                return Err(format!(
                    "{name}: `{need}` is not derived (derives: {d:?}); a hand-written implementation may ignore a field, the register model assumes equality and hashing over every field"
                ));
            }
        }
    }
    // no hand-written PartialEq / Hash next to the derived ones (would not compile, but a removed derive plus an impl would)
    out.push_str("/-- `lir::VarKind` (variants and payloads generated) -/\ninductive VarKind where\n");
    for v in &var_kind.variants {
        let mut line = format!("  | {}", v.ident);
        for (i, f) in v.fields.iter().enumerate() {
            let t = regs_lean_ty(&nospace(&txt(&f.ty)))?;
            line += &format!(" (a{i} : {t})");
        }
        out.push_str(&line);
        out.push('\n');
    }
    out.push_str("  deriving DecidableEq, Repr\n\n");
    out.push_str("/-- `lir::Var` (fields generated; `PartialEq`, `Eq` and `Hash` are the derived ones: over every field) -/\nstructure Var where\n");
    for f in &var.fields {
        let n = f.ident.as_ref().ok_or("Var: tuple struct")?;
        let t = regs_lean_ty(&nospace(&txt(&f.ty)))?;
        out.push_str(&format!("  {n} : {t}\n"));
    }
    out.push_str("  deriving DecidableEq, Repr\n\n");

    // ---- the evaluator: `let mut vars = HashMap::<K, IrValue>::new();`
    let f = find::func(&eval, "eval", None)?;
    let mut decl = None;
    for s in &f.block.stmts {
        if let Stmt::Local(l) = s {
            if nospace(&txt(&l.pat)) == "mutvars" {
                decl = l.init.as_ref().map(|i| txt(&i.expr));
            }
        }
    }
    let decl = decl.ok_or("lir::eval: no `let mut vars = …;` (the evaluator's register file)")?;
    let (k, v) = hashmap_key(&decl).ok_or(format!(
        "lir::eval: the register file `vars` is no longer one `HashMap::<Key, IrValue>::new()` for the whole run: `{decl}` (the register model has to follow the source)"
    ))?;
    if v != "IrValue" {
        return Err(format!("lir::eval: the register file maps to `{v}`, modelled: IrValue"));
    }
    if k != "Var" {
        return Err(format!("lir::eval: the register file is keyed by `{k}`; the lowered IR names a variable by a whole `Var` (scope and kind)"));
    }
    out.push_str(&format!("/-- key of the evaluator's register file: `let mut vars = {};` -/\nabbrev EvalKey := {k}\n\n", nospace(&decl)));
    out.push_str("/-- the key a place is looked up / stored under in the evaluator (`vars.get(p)`, `vars.insert(to.clone(), …)`) -/\ndef evalKey (v : Var) : EvalKey := v\n\n");

    // every use of `vars` is `vars.insert(<key>, <value>)` or `eval_operand(&vars, …)` / `&vars`
    {
        struct Uses(Vec<String>);
        impl<'ast> syn::visit::Visit<'ast> for Uses {
            fn visit_expr_method_call(&mut self, m: &'ast syn::ExprMethodCall) {
                if nospace(&txt(&m.receiver)) == "vars" && m.method != "insert" {
                    self.0.push(txt(m));
                }
                syn::visit::visit_expr_method_call(self, m);
            }
        }
        let mut u = Uses(vec![]);
        syn::visit::Visit::visit_block(&mut u, &f.block);
        if let Some(x) = u.0.first() {
            return Err(format!("lir::eval: the register file is used other than through `insert` and `eval_operand`: `{x}`"));
        }
    }
    let eo = find::func(&eval, "eval_operand", None)?;
    let sig = nospace(&txt(&eo.sig));
    if !sig.contains("mem:&'aHashMap<Var,IrValue>") {
        return Err(format!("eval_operand: the register file parameter is no longer `&HashMap<Var, IrValue>`: {}", txt(&eo.sig)));
    }
    let body = nospace(&txt(&eo.block));
    let ok = body.starts_with("{matchop{Operand::Place(p)=>{letSome(v)=mem.get(p)else{panic!(")
        && body.ends_with(")};v}Operand::Value(v)=>v,}}");
    if !ok {
        return Err(format!("eval_operand differs from the modelled shape (a place: `mem.get(p)`, a miss panics; a value: itself): {}", txt(&eo.block)));
    }
    out.push_str("/-- `eval_operand` (shape checked verbatim): a place is looked up under its whole `Var`, a miss is a\n    loud stop; an immediate is itself. -/\ndef eval_operand {α : Type} (vars : RMap EvalKey α) (op : Var ⊕ α) : Option α :=\n  match op with\n  | .inl p => vars.get (evalKey p)\n  | .inr v => some v\n\n");

    // ---- the code generator: `variable_map: HashMap<Var, (Variable, Type)>`, `variable`, `operand`
    let mut key = None;
    for item in &codegen.items {
        if let syn::Item::Struct(s) = item {
            for fld in &s.fields {
                if fld.ident.as_ref().map(|i| i == "variable_map").unwrap_or(false) {
                    key = hashmap_key(&txt(&fld.ty));
                }
            }
        }
    }
    let (jk, jv) = key.ok_or("src/codegen/mod.rs: no field `variable_map: HashMap<…>`")?;
    if jk != "Var" || jv != "(Variable,Type)" {
        return Err(format!("codegen: `variable_map` is `HashMap<{jk}, {jv}>`, modelled: HashMap<Var, (Variable, Type)>"));
    }
    let vf = find::func(&codegen, "variable", Some("FuncGen"))?;
    let want = "{let(var,_ty)=*self.module.variable_map.entry(var.clone()).or_insert_with(||{letvar=self.builder.declare_var(ty);(var,ty)},);var}";
    if nospace(&txt(&vf.block)) != want {
        return Err(format!("FuncGen::variable differs from the modelled shape (`variable_map.entry(var.clone()).or_insert_with(declare_var)`): {}", txt(&vf.block)));
    }
    let of = find::func(&codegen, "operand", Some("FuncGen"))?;
    let ob = nospace(&txt(&of.block));
    if !ob.contains("let(var,ty)=self.module.variable_map.get(p).unwrap_or_else(||{ice!(") || !ob.contains("(self.builder.use_var(*var),*ty)") {
        return Err("FuncGen::operand: a place is no longer `variable_map.get(p)` → `use_var`".into());
    }
    out.push_str("/-- key of the code generator's `variable_map` (one Cranelift variable per key; `use_var` yields the\n    last `def_var` of that variable) -/\nabbrev JitKey := Var\n\n/-- `FuncGen::variable` / `FuncGen::operand` (shape checked verbatim): `variable_map.entry(var.clone())`,\n    `variable_map.get(p)` -/\ndef jitKey (v : Var) : JitKey := v\n\n");

    out.push_str(&footer("EvalRegs"));
    Ok(out)
}
