//! Translator targets owned by property C11.
//!
//! `lifetime` → `Generated/Lifetime.lean`: the declaration-level facts that are
//! the *mechanism* of C11 (DESIGN.md §4 C11):
//!  * field order of `ModuleData` (Rust drops fields in declaration order),
//!    each field classified by its type;
//!  * `TypedFunc` owns a `SharedModuleData` (= `Arc<ModuleData>`) that
//!    `Module::get_function` fills with `self.inner.clone()`;
//!  * `codegen` clones every registered constant (`declare_constant`) and the
//!    `Arc` of every referenced registered function into the module;
//!  * which `Drop` impls call `free_memory`;
//!  * what the closure returned by `TypedFunc::into_func` captures (the body
//!    lives inside `macro_rules! call_impl`, so it is analysed on the token
//!    level: a use of `self` as a whole — `self.call(…)` — captures the whole
//!    handle; only `self.<field>` uses capture just those fields under the
//!    disjoint-capture rule of edition ≥ 2021, and the other fields are dropped
//!    when `into_func` returns);
//!  * every address the code generator bakes into the machine code
//!    (`iconst(ty, <ptr> as usize as i64)` …) and every data object it defines
//!    in the JIT module, with the struct that owns the pointee after
//!    `ModuleBuilder::finalize` (JIT module / `ModuleData` / `Module<Ctx>` =
//!    the package / nobody).
//!  * the statements of `Drop for RotoConstant::drop` in order, each with the
//!    size class of constants it runs for (`if self.size == 0 { return; }` …):
//!    whether the constant's drop function runs must not depend on the size of
//!    its type;
//!  * how `ModuleData`'s keep-alive collection of registered functions is
//!    keyed: a `Vec` that is pushed to holds every `Arc`, a map keyed by
//!    `TypeId` with insert-if-absent holds one per Rust type.
//!  * where the value of a script constant lives, i.e. what the address that the
//!    `ConstantAddress` arm bakes into the code points into: an allocation of
//!    its own that the `RotoConstant` owns through a stored pointer
//!    (`ConstStore.ownAlloc`), or the `RotoConstant` value itself, which is an
//!    entry of the builder's `HashMap` and moves when the table grows
//!    (`ConstStore.inMapEntry`) → `def constStore`.
//! Shapes that are not recognised are extraction failures, never defaults.
#[allow(unused_imports)]
use super::{Gen, Target};
use crate::find;
use quote::ToTokens;
use std::path::Path;
use syn::visit::Visit;

pub const TARGETS: &[Target] = &[("lifetime", "Lifetime", lifetime as Gen)];

fn norm<T: ToTokens>(t: &T) -> String {
    t.to_token_stream().to_string().replace(' ', "")
}

/// every `fn` inside an `impl`, with the impl's label (`Trait for Type` / `Type`)
struct ImplFns {
    cur: Option<String>,
    out: Vec<(String, String, syn::Block)>,
    /// parallel to `out`: the names bound by the function's parameters
    params: Vec<Vec<String>>,
}
fn sig_idents(sig: &syn::Signature) -> Vec<String> {
    let mut p = PatIdents(vec![]);
    for a in &sig.inputs {
        if let syn::FnArg::Typed(t) = a {
            p.visit_pat(&t.pat);
        }
    }
    p.0
}
impl<'ast> Visit<'ast> for ImplFns {
    fn visit_item_impl(&mut self, i: &'ast syn::ItemImpl) {
        let ty = norm(&i.self_ty);
        let label = match &i.trait_ {
            Some((_, p, _)) => format!("{} for {}", norm(p), ty),
            None => ty,
        };
        let old = self.cur.replace(label);
        syn::visit::visit_item_impl(self, i);
        self.cur = old;
    }
    fn visit_impl_item_fn(&mut self, f: &'ast syn::ImplItemFn) {
        self.out.push((
            self.cur.clone().unwrap_or_default(),
            f.sig.ident.to_string(),
            f.block.clone(),
        ));
        self.params.push(sig_idents(&f.sig));
        syn::visit::visit_impl_item_fn(self, f);
    }
    fn visit_item_fn(&mut self, f: &'ast syn::ItemFn) {
        self.out
            .push((String::new(), f.sig.ident.to_string(), (*f.block).clone()));
        self.params.push(sig_idents(&f.sig));
        syn::visit::visit_item_fn(self, f);
    }
}

struct CallsMethod<'a>(&'a str, usize);
impl<'ast> Visit<'ast> for CallsMethod<'_> {
    fn visit_expr_method_call(&mut self, m: &'ast syn::ExprMethodCall) {
        if m.method == self.0 {
            self.1 += 1;
        }
        syn::visit::visit_expr_method_call(self, m);
    }
}

/// the (unique) struct literal `Name { … }` inside a block
struct StructLit<'a>(&'a str, Vec<syn::ExprStruct>);
impl<'ast> Visit<'ast> for StructLit<'_> {
    fn visit_expr_struct(&mut self, s: &'ast syn::ExprStruct) {
        if s.path.segments.last().map(|x| x.ident == self.0).unwrap_or(false) {
            self.1.push(s.clone());
        }
        syn::visit::visit_expr_struct(self, s);
    }
}

fn derives(file: &syn::File, name: &str, what: &str) -> bool {
    struct F<'a>(&'a str, &'a str, bool);
    impl<'ast> Visit<'ast> for F<'_> {
        fn visit_item_struct(&mut self, s: &'ast syn::ItemStruct) {
            if s.ident == self.0 {
                for a in &s.attrs {
                    if a.path().is_ident("derive") {
                        let t = norm(&a.meta);
                        if t
                            .trim_start_matches("derive(")
                            .trim_end_matches(')')
                            .split(',')
                            .any(|d| d == self.1)
                        {
                            self.2 = true;
                        }
                    }
                }
            }
        }
    }
    let mut f = F(name, what, false);
    f.visit_file(file);
    f.2
}

// ---------------------------------------------------------------- into_func capture

use proc_macro2::{Delimiter, TokenStream, TokenTree};

/// all brace bodies of `fn <name>(self) … { … }` inside a token stream (any depth)
fn macro_fn_bodies(ts: TokenStream, name: &str, out: &mut Vec<(String, TokenStream)>) {
    let toks: Vec<TokenTree> = ts.into_iter().collect();
    let mut i = 0;
    while i < toks.len() {
        if let TokenTree::Ident(id) = &toks[i] {
            if id == "fn" {
                if let Some(TokenTree::Ident(n)) = toks.get(i + 1) {
                    if n == name {
                        let params = match toks.get(i + 2) {
                            Some(TokenTree::Group(g)) if g.delimiter() == Delimiter::Parenthesis => {
                                g.stream().to_string().replace(' ', "")
                            }
                            _ => String::from("?"),
                        };
                        let mut j = i + 3;
                        while j < toks.len() {
                            if let TokenTree::Group(g) = &toks[j] {
                                if g.delimiter() == Delimiter::Brace {
                                    out.push((params.clone(), g.stream()));
                                    break;
                                }
                            }
                            j += 1;
                        }
                        i = j;
                    }
                }
            }
        }
        if let Some(TokenTree::Group(g)) = toks.get(i) {
            macro_fn_bodies(g.stream(), name, out);
        }
        i += 1;
    }
}

/// uses of `self` in a closure body: `None` = `self` used as a whole somewhere,
/// `Some(fields)` = only these fields are mentioned (`self.f` not followed by a call)
fn self_uses(ts: TokenStream, whole: &mut bool, fields: &mut Vec<String>) {
    let toks: Vec<TokenTree> = ts.into_iter().collect();
    for i in 0..toks.len() {
        match &toks[i] {
            TokenTree::Group(g) => self_uses(g.stream(), whole, fields),
            TokenTree::Ident(id) if id == "self" => {
                let dot = matches!(toks.get(i + 1), Some(TokenTree::Punct(p)) if p.as_char() == '.');
                let field = match toks.get(i + 2) {
                    Some(TokenTree::Ident(f)) if dot => Some(f.to_string()),
                    Some(TokenTree::Literal(l)) if dot => Some(l.to_string()),
                    _ => None,
                };
                let is_call = match toks.get(i + 3) {
                    Some(TokenTree::Group(g)) => g.delimiter() == Delimiter::Parenthesis,
                    Some(TokenTree::Punct(p)) => p.as_char() == ':',
                    _ => false,
                };
                match field {
                    Some(f) if !is_call => {
                        if !fields.contains(&f) {
                            fields.push(f)
                        }
                    }
                    _ => *whole = true,
                }
            }
            _ => {}
        }
    }
}

/// Does the closure returned by every `into_func` own the handle's `SharedModuleData`?
fn into_func_keeps_arc(
    repo: &Path,
    cg: &syn::File,
    arc_field: Option<&str>,
    handle_has_drop: bool,
    notes: &mut Vec<String>,
) -> Result<bool, String> {
    // edition: disjoint closure captures exist from 2021 on
    let cargo = std::fs::read_to_string(repo.join("Cargo.toml")).map_err(|e| format!("Cargo.toml: {e}"))?;
    let edition: u32 = cargo
        .lines()
        .filter_map(|l| {
            let l = l.trim();
            let rest = l.strip_prefix("edition")?.trim_start().strip_prefix('=')?.trim();
            rest.trim_matches('"').parse().ok()
        })
        .next()
        .ok_or("Cargo.toml: no `edition = \"…\"`")?;
    let mut bodies = vec![];
    for item in &cg.items {
        match item {
            syn::Item::Macro(m) if m.ident.as_ref().map(|i| i == "call_impl").unwrap_or(false) => {
                macro_fn_bodies(m.mac.tokens.clone(), "into_func", &mut bodies);
            }
            _ => {}
        }
    }
    // an `into_func` written outside the macro
    let mut all = ImplFns { cur: None, out: vec![], params: vec![] };
    all.visit_file(cg);
    for (imp, name, block) in &all.out {
        if name == "into_func" && imp.starts_with("TypedFunc") {
            let inner: TokenStream = block.stmts.iter().map(|s| s.to_token_stream()).collect();
            bodies.push(("self".into(), inner));
        }
    }
    if bodies.is_empty() {
        return Err("no `fn into_func` found (neither in `macro_rules! call_impl` nor in an impl of TypedFunc)".into());
    }
    let mut keeps_all = true;
    for (params, body) in bodies {
        if params != "self" {
            return Err(format!("into_func takes `{params}`, not `self`: conversion of a handle is not modelled"));
        }
        let toks: Vec<TokenTree> = body.into_iter().collect();
        // the body must be one closure expression: [move] |params| body
        let is_move = matches!(toks.first(), Some(TokenTree::Ident(i)) if i == "move");
        let bars: Vec<usize> = toks
            .iter()
            .enumerate()
            .filter(|(_, t)| matches!(t, TokenTree::Punct(p) if p.as_char() == '|'))
            .map(|(i, _)| i)
            .collect();
        if !is_move || bars.len() < 2 || bars[0] != 1 {
            return Err("into_func is not `move |args| <body>`: what the returned object owns is not modelled".into());
        }
        let rest: TokenStream = toks[bars[1] + 1..].iter().cloned().collect();
        let (mut whole, mut fields) = (false, vec![]);
        self_uses(rest, &mut whole, &mut fields);
        let captures_whole = whole || edition < 2021 || handle_has_drop;
        let keeps = captures_whole || arc_field.map(|f| fields.iter().any(|x| x == f)).unwrap_or(false);
        notes.push(format!(
            "into_func closure (edition {edition}): {} ↦ {}",
            if captures_whole { "captures the whole handle".to_string() } else { format!("captures only self.{{{}}}", fields.join(",")) },
            if keeps { "owns the Arc<ModuleData>" } else { "the SharedModuleData field is dropped when into_func returns" }
        ));
        keeps_all &= keeps;
    }
    Ok(keeps_all)
}

// ---------------------------------------------------------------- addresses baked into the code

/// `self.module.<f>` (in FuncGen) / `self.<f>` (in ModuleBuilder) mentions and
/// `self.module.<m>(…)` calls inside an expression
struct Mentions<'a> {
    base: &'a str,
    fields: Vec<String>,
    methods: Vec<String>,
    idents: Vec<String>,
    /// multi-segment paths (`crate::x::f`): items, never locals
    items: Vec<String>,
}
impl<'ast> Visit<'ast> for Mentions<'_> {
    fn visit_expr_field(&mut self, f: &'ast syn::ExprField) {
        if norm(&f.base) == self.base {
            let m = norm(&f.member);
            if !self.fields.contains(&m) {
                self.fields.push(m);
            }
        }
        syn::visit::visit_expr_field(self, f);
    }
    fn visit_expr_method_call(&mut self, m: &'ast syn::ExprMethodCall) {
        if norm(&m.receiver) == self.base {
            self.methods.push(m.method.to_string());
        }
        syn::visit::visit_expr_method_call(self, m);
    }
    fn visit_expr_path(&mut self, p: &'ast syn::ExprPath) {
        if let Some(i) = p.path.get_ident() {
            self.idents.push(i.to_string());
        } else {
            self.items.push(norm(&p.path));
        }
    }
}

struct PatIdents(Vec<String>);
impl<'ast> Visit<'ast> for PatIdents {
    fn visit_pat_ident(&mut self, p: &'ast syn::PatIdent) {
        self.0.push(p.ident.to_string());
        syn::visit::visit_pat_ident(self, p);
    }
    fn visit_field_pat(&mut self, f: &'ast syn::FieldPat) {
        // shorthand `Variant { to, name }`
        syn::visit::visit_field_pat(self, f);
    }
}

struct Locals(Vec<(Vec<String>, syn::Expr)>);
impl<'ast> Visit<'ast> for Locals {
    fn visit_local(&mut self, l: &'ast syn::Local) {
        if let Some(init) = &l.init {
            let mut p = PatIdents(vec![]);
            p.visit_pat(&l.pat);
            self.0.push((p.0, (*init.expr).clone()));
        }
        syn::visit::visit_local(self, l);
    }
}

/// value arguments of `iconst(ty, v)` whose text shows a host address
struct BakedConsts(Vec<syn::Expr>);
impl<'ast> Visit<'ast> for BakedConsts {
    fn visit_expr_method_call(&mut self, m: &'ast syn::ExprMethodCall) {
        if m.method == "iconst" && m.args.len() == 2 {
            let v = &m.args[1];
            let t = norm(v);
            if ["asusize", ".addr()", "as*const", "as*mut", ".as_ptr()", ".ptr()", ".as_mut_ptr()"].iter().any(|x| t.contains(x)) {
                self.0.push(v.clone());
            }
        }
        syn::visit::visit_expr_method_call(self, m);
    }
}

struct Arms(Vec<syn::Arm>);
impl<'ast> Visit<'ast> for Arms {
    fn visit_arm(&mut self, a: &'ast syn::Arm) {
        if let syn::Pat::Struct(_) | syn::Pat::TupleStruct(_) | syn::Pat::Path(_) = &a.pat {
            if norm(&a.pat).contains("Instruction::") {
                self.0.push(a.clone());
                return; // nested matches belong to this arm
            }
        }
        syn::visit::visit_arm(self, a);
    }
}

/// Every kind of out-of-line data the emitted code refers to by address → its holder
fn data_holders(cg: &syn::File, all: &ImplFns, notes: &mut Vec<String>) -> Result<Vec<&'static str>, String> {
    let builder_fields = find::struct_fields(cg, "ModuleBuilder")?;
    let finalize = all
        .out
        .iter()
        .find(|(i, n, _)| n == "finalize" && i == "ModuleBuilder")
        .ok_or("ModuleBuilder::finalize not found")?;
    let mut lit = StructLit("Module", vec![]);
    lit.visit_block(&finalize.2);
    if lit.1.len() != 1 {
        return Err(format!("ModuleBuilder::finalize: {} `Module {{…}}` literals", lit.1.len()));
    }
    // where does a builder field end up
    let route = |f: &str| -> Result<&'static str, String> {
        let want = format!("self.{f}");
        for fv in &lit.1[0].fields {
            let e = norm(&fv.expr);
            if e == want {
                return Ok("package");
            }
            if let syn::Expr::Call(c) = &fv.expr {
                if norm(&c.func) == "SharedModuleData::new" {
                    for (i, a) in c.args.iter().enumerate() {
                        if norm(a) == want {
                            return Ok(if i == 0 { "jit" } else { "moduleData" });
                        }
                    }
                    continue;
                }
            }
            if e.contains(&want) {
                return Err(format!("ModuleBuilder::finalize uses `{want}` inside `{e}`: where the data ends up is not modelled"));
            }
        }
        Ok("builder")
    };
    let codegen_txt = all
        .out
        .iter()
        .find(|(i, n, _)| i.is_empty() && n == "codegen")
        .map(|(_, _, b)| norm(b))
        .unwrap_or_default();
    let holder_of = |f: &str| -> Result<&'static str, String> {
        let Some((_, ty)) = builder_fields.iter().find(|(n, _)| n == f) else {
            return Err(format!("`{f}` is not a field of ModuleBuilder"));
        };
        if ty.contains("*const") || ty.contains("*mut") {
            // a table of raw pointers: who owns the pointees?
            if f == "runtime_functions"
                && codegen_txt.contains("letptr=&rawconst**arc_boxas*constu8;")
                // the Arc is handed to the builder's keep-alive collection (whether the collection then holds
                // EVERY Arc it is handed is the separate fact `fnsKeep`)
                && (codegen_txt.contains("module.registered_fns.push(arc_box);")
                    || codegen_txt.contains("module.registered_fns.entry(") && codegen_txt.contains(").or_insert(arc_box);")
                    || codegen_txt.contains("module.registered_fns.insert(") && codegen_txt.contains(",arc_box);"))
                && codegen_txt.contains("module.runtime_functions.insert(*func_ref,(ptr,func_id));")
            {
                return route("registered_fns");
            }
            return Err(format!("ModuleBuilder.{f} : {ty} holds raw pointers whose owner is not recognised"));
        }
        route(f)
    };
    let builder_method_fields = |m: &str| -> Option<Vec<String>> {
        let hit = all.out.iter().find(|(i, n, _)| n == m && i == "ModuleBuilder")?;
        let mut me = Mentions { base: "self", fields: vec![], methods: vec![], idents: vec![], items: vec![] };
        me.visit_block(&hit.2);
        Some(me.fields)
    };

    let mut out: Vec<&'static str> = vec![];
    let mut n_sites = 0;
    for (fn_idx, (imp, name, block)) in all.out.iter().enumerate() {
        if !imp.starts_with("FuncGen") {
            continue;
        }
        let fn_params = &all.params[fn_idx];
        let mut arms = Arms(vec![]);
        arms.visit_block(block);
        // scopes: each instruction arm; and the function as a whole for what is outside arms
        let mut scopes: Vec<(String, Vec<String>, syn::Expr)> = arms
            .0
            .iter()
            .map(|a| {
                let mut p = PatIdents(vec![]);
                p.visit_pat(&a.pat);
                // shorthand field patterns bind their member names
                if let syn::Pat::Struct(ps) = &a.pat {
                    for f in &ps.fields {
                        p.0.push(norm(&f.member));
                    }
                }
                let head = norm(&a.pat).split('{').next().unwrap_or("").split('(').next().unwrap_or("").to_string();
                (format!("{name}/{head}"), p.0, (*a.body).clone())
            })
            .collect();
        if arms.0.is_empty() {
            scopes.push((name.clone(), vec![], syn::Expr::Block(syn::ExprBlock { attrs: vec![], label: None, block: block.clone() })));
        }
        for (label, bound, body) in &scopes {
            // data objects defined in the JIT module
            let txt = norm(body);
            if txt.contains(".declare_anonymous_data(") || txt.contains(".declare_data(") {
                if !(txt.contains(".define_data(") && txt.contains(".declare_data_in_func(") && txt.contains(".global_value(")) {
                    return Err(format!("{label}: a data object is declared but not defined/used through a global value"));
                }
                notes.push(format!("{label}: data object defined in the JIT module ↦ Holder.jit"));
                out.push("jit");
                n_sites += 1;
            }
            let mut baked = BakedConsts(vec![]);
            baked.visit_expr(body);
            let mut locals = Locals(vec![]);
            locals.visit_expr(body);
            for v in baked.0 {
                n_sites += 1;
                // provenance: follow locals (≤ 4 levels) to builder fields
                let mut fields: Vec<String> = vec![];
                let mut from_ir = false;
                let mut from_item = false; // a function / static item named by path
                let mut unknown: Option<String> = None;
                // the locals visible at the site: those bound before the statement that contains it
                let vt = norm(&v);
                let site = locals
                    .0
                    .iter()
                    .position(|(_, init)| norm(init).contains(&vt))
                    .unwrap_or(locals.0.len());
                let mut work = vec![(v.clone(), site)];
                while let Some((e, limit)) = work.pop() {
                    let mut me = Mentions { base: "self.module", fields: vec![], methods: vec![], idents: vec![], items: vec![] };
                    me.visit_expr(&e);
                    for f in me.fields {
                        if !fields.contains(&f) {
                            fields.push(f);
                        }
                    }
                    for m in me.methods {
                        match builder_method_fields(&m) {
                            Some(fs) => {
                                for f in fs {
                                    if !fields.contains(&f) {
                                        fields.push(f);
                                    }
                                }
                            }
                            None => return Err(format!("{label}: address computed by unknown method `self.module.{m}`")),
                        }
                    }
                    for id in me.idents {
                        if let Some(j) = locals.0[..limit].iter().rposition(|(ids, _)| ids.contains(&id)) {
                            work.push((locals.0[j].1.clone(), j));
                        } else if bound.contains(&id) {
                            // named directly in the baked expression: an immediate of the instruction;
                            // reached through a local: bytes copied out of the instruction into host
                            // memory are host data of unknown owner
                            if limit == site {
                                from_ir = true;
                            } else {
                                unknown = Some(id.clone());
                            }
                        } else if fn_params.contains(&id) || id == "self" {
                            if id != "self" {
                                unknown = Some(id.clone());
                            }
                        } else if id.chars().next().map(|c| c.is_lowercase()).unwrap_or(false) && limit == site {
                            // not a local, not a parameter, not bound by the arm: an item (fn / static)
                            from_item = true;
                        }
                    }
                    if limit == site && !me.items.is_empty() {
                        from_item = true;
                    }
                }
                // fields that only describe the target, not data
                fields.retain(|f| f != "isa");
                if fields.is_empty() && unknown.is_none() {
                    if from_ir {
                        notes.push(format!("{label}: `{}` is an immediate of the IR instruction (a static function pointer)", norm(&v)));
                        continue;
                    }
                    if from_item {
                        notes.push(format!("{label}: `{}` is the address of an item (function / static)", norm(&v)));
                        continue;
                    }
                }
                if fields.is_empty() {
                    return Err(format!("{label}: the origin of the address `{}` baked into the code is not recognised", norm(&v)));
                }
                for f in fields {
                    let h = holder_of(&f)?;
                    notes.push(format!("{label}: address from ModuleBuilder.{f} baked into the code ↦ Holder.{h}"));
                    out.push(h);
                }
            }
        }
    }
    if n_sites < 4 {
        return Err(format!("only {n_sites} data/address sites found in FuncGen: the code generator changed shape"));
    }
    Ok(out)
}

// ---------------------------------------------------------------- Drop for RotoConstant

fn has_cfg_verif_hooks(attrs: &[syn::Attribute]) -> bool {
    attrs.iter().any(|a| a.path().is_ident("cfg") && norm(a).contains("verif-hooks"))
}

/// `self.size == 0`-like conditions → the size class for which they hold ("ifZst" / "ifSized")
fn size_guard(cond: &syn::Expr) -> Result<&'static str, String> {
    let c = norm(cond);
    let c = c.trim_start_matches('(').trim_end_matches(')');
    for subject in ["self.size", "layout.size()", "size"] {
        if let Some(rest) = c.strip_prefix(subject) {
            return match rest {
                "==0" | "<1" => Ok("ifZst"),
                "!=0" | ">0" | ">=1" => Ok("ifSized"),
                _ => Err(format!("Drop for RotoConstant: condition `{c}` is not a test of the constant's size against 0")),
            };
        }
    }
    Err(format!("Drop for RotoConstant: condition `{c}` is not a test of the constant's size against 0"))
}

fn negate_guard(g: &'static str) -> &'static str {
    match g {
        "ifZst" => "ifSized",
        "ifSized" => "ifZst",
        other => other,
    }
}

/// The statements of `RotoConstant::drop`, flattened: (guard, act) in order.
fn const_drop_stmts(stmts: &[syn::Stmt], guard: &'static str, out: &mut Vec<(&'static str, &'static str)>) -> Result<(), String> {
    for st in stmts {
        match st {
            syn::Stmt::Local(l) => {
                if has_cfg_verif_hooks(&l.attrs) {
                    continue;
                }
                let t = norm(l);
                if t.contains("drop_fn") || t.contains("dealloc") || t.contains("return") {
                    return Err(format!("Drop for RotoConstant: a `let` that drops, frees or returns: `{t}`"));
                }
            }
            syn::Stmt::Expr(e, _) => const_drop_expr(e, guard, out)?,
            syn::Stmt::Item(_) => {}
            syn::Stmt::Macro(m) => {
                if has_cfg_verif_hooks(&m.attrs) {
                    continue;
                }
                let name = norm(&m.mac.path);
                if !(name.starts_with("debug_assert") || name.starts_with("assert")) {
                    return Err(format!("Drop for RotoConstant: macro statement `{name}!` is not modelled"));
                }
            }
        }
    }
    Ok(())
}

fn const_drop_expr(e: &syn::Expr, guard: &'static str, out: &mut Vec<(&'static str, &'static str)>) -> Result<(), String> {
    match e {
        syn::Expr::Unsafe(u) => {
            if has_cfg_verif_hooks(&u.attrs) {
                return Ok(());
            }
            const_drop_stmts(&u.block.stmts, guard, out)
        }
        syn::Expr::Block(b) => {
            if has_cfg_verif_hooks(&b.attrs) {
                return Ok(());
            }
            const_drop_stmts(&b.block.stmts, guard, out)
        }
        syn::Expr::Paren(p) => const_drop_expr(&p.expr, guard, out),
        syn::Expr::Return(r) => {
            if r.expr.is_some() {
                return Err("Drop for RotoConstant: `return <value>`".into());
            }
            out.push((guard, "ret"));
            Ok(())
        }
        syn::Expr::If(i) => {
            if has_cfg_verif_hooks(&i.attrs) {
                return Ok(());
            }
            if guard != "always" {
                return Err("Drop for RotoConstant: nested conditions are not modelled".into());
            }
            if let syn::Expr::Let(_) = &*i.cond {
                // `if let <storage kind> = self.<field> { dealloc }`: giving memory back may depend on where the
                // value lives; the drop function must not
                let mut inner = vec![];
                const_drop_stmts(&i.then_branch.stmts, "always", &mut inner)?;
                if i.else_branch.is_some() || inner.iter().any(|(_, a)| *a != "dealloc") {
                    return Err(format!("Drop for RotoConstant: `if {}` guards more than a deallocation", norm(&i.cond)));
                }
                out.extend(inner);
                return Ok(());
            }
            let g = size_guard(&i.cond)?;
            const_drop_stmts(&i.then_branch.stmts, g, out)?;
            if let Some((_, els)) = &i.else_branch {
                const_drop_expr(els, negate_guard(g), out)?;
            }
            Ok(())
        }
        other => {
            let t = norm(other);
            if t == "(self.drop_fn)(self.ptr)" || t == "(self.drop_fn)(self.ptr())" {
                out.push((guard, "callDropFn"));
                Ok(())
            } else if (t.starts_with("std::alloc::dealloc(") || t.starts_with("alloc::dealloc(") || t.starts_with("dealloc("))
                && (t.contains("self.ptr") || t.starts_with("std::alloc::dealloc(ptr,") || t.starts_with("dealloc(ptr,"))
            {
                out.push((guard, "dealloc"));
                Ok(())
            } else {
                Err(format!("Drop for RotoConstant: statement `{t}` is not modelled"))
            }
        }
    }
}

// ---------------------------------------------------------------- where a script constant's value lives

/// What does the address that `ConstantAddress` bakes into the code for a script constant point into?
fn const_store(cg: &syn::File, all: &ImplFns, notes: &mut Vec<String>) -> Result<&'static str, String> {
    let rc_fields = find::struct_fields(cg, "RotoConstant")?;
    let builder_fields = find::struct_fields(cg, "ModuleBuilder")?;
    let map_ty = builder_fields
        .iter()
        .find(|(n, _)| n == "roto_constants")
        .map(|(_, t)| t.clone())
        .ok_or("ModuleBuilder has no field `roto_constants`")?;
    let by_value = match map_ty.as_str() {
        "HashMap<ResolvedName,RotoConstant>" => true,
        "HashMap<ResolvedName,Box<RotoConstant>>" | "HashMap<ResolvedName,Arc<RotoConstant>>" => false,
        other => return Err(format!("ModuleBuilder.roto_constants : {other}: not a recognised table of script constants")),
    };
    // the ConstantAddress arm: `… else if let Some(x) = self.module.roto_constants.get(name) { <address> } …`
    let mut arm_txt = None;
    for (imp, _, block) in &all.out {
        if !imp.starts_with("FuncGen") {
            continue;
        }
        let mut arms = Arms(vec![]);
        arms.visit_block(block);
        for a in &arms.0 {
            if norm(&a.pat).contains("ConstantAddress") {
                arm_txt = Some(norm(&a.body));
            }
        }
    }
    let arm_txt = arm_txt.ok_or("FuncGen has no `ConstantAddress` arm")?;
    let pat = "ifletSome(roto_constant)=self.module.roto_constants.get(name){";
    let at = arm_txt.find(pat).ok_or("ConstantAddress: the script-constant branch `if let Some(roto_constant) = self.module.roto_constants.get(name)` is not found")?;
    let rest = &arm_txt[at + pat.len()..];
    let addr = rest.split('}').next().unwrap_or("").to_string();
    let is_raw = |f: &str| rc_fields.iter().any(|(n, t)| n == f && (t.starts_with("*mut") || t.starts_with("*const")));
    // the pointer field of a RotoConstant is filled by `RotoConstant::new` from the allocator
    let stored_pointer = |f: &str| -> Result<bool, String> {
        let new = all.out.iter().find(|(i, n, _)| i == "RotoConstant" && n == "new").ok_or("RotoConstant::new not found")?;
        let t = norm(&new.2);
        let allocs = t.contains(&format!("let{f}=unsafe{{std::alloc::alloc(layout)}};")) || t.contains(&format!("let{f}=unsafe{{alloc(layout)}};"));
        let stores = t.contains(&format!("{f}:{f}as*mut()")) || t.contains(&format!("{f}:{f}as*mutu8")) || t.contains(&format!("Self{{{f},"));
        Ok(allocs && stores)
    };
    if let Some(f) = addr.strip_prefix("roto_constant.") {
        if !f.ends_with("()") {
            if is_raw(f) && stored_pointer(f)? {
                notes.push(format!("ConstantAddress bakes `{addr}`: a pointer stored in the RotoConstant, from `alloc` in RotoConstant::new ↦ ConstStore.ownAlloc"));
                return Ok("ownAlloc");
            }
            return Err(format!("ConstantAddress bakes `{addr}`: not a raw-pointer field of RotoConstant that `new` fills from the allocator"));
        }
        let m = f.trim_end_matches("()");
        let body = all
            .out
            .iter()
            .find(|(i, n, _)| i == "RotoConstant" && n == m)
            .map(|(_, _, b)| norm(b))
            .ok_or(format!("ConstantAddress bakes `{addr}`: RotoConstant::{m} not found"))?;
        // does the method hand out an address INSIDE `self` (a reference to / into one of its fields)?
        let into_self = [".get()", ".as_ptr()", ".as_mut_ptr()", "&rawconst", "&rawmut", "addr_of", "&self.", "&mutself.", "asconst_", "as*const_"]
            .iter()
            .any(|w| body.contains(w));
        if into_self {
            let r = if by_value { "inMapEntry" } else { "ownAlloc" };
            notes.push(format!("ConstantAddress bakes `{addr}`; RotoConstant::{m} hands out an address inside the RotoConstant itself; the table holds them {} ↦ ConstStore.{r}", if by_value { "by value" } else { "boxed" }));
            return Ok(r);
        }
        for (n, _) in &rc_fields {
            if body == format!("{{self.{n}}}") && is_raw(n) && stored_pointer(n)? {
                notes.push(format!("ConstantAddress bakes `{addr}` = the stored pointer `{n}` ↦ ConstStore.ownAlloc"));
                return Ok("ownAlloc");
            }
        }
        return Err(format!("ConstantAddress bakes `{addr}`: what RotoConstant::{m} returns is not recognised"));
    }
    Err(format!("ConstantAddress bakes `{addr}` for a script constant: not recognised"))
}

/// a type built only from std containers and scalars: dropping it runs no user or script code
fn is_plain_data(ty: &str) -> bool {
    const OK: &[&str] = &[
        "Vec", "VecDeque", "Box", "HashSet", "HashMap", "BTreeSet", "BTreeMap", "Option", "String", "str", "Arc", "u8", "u16",
        "u32", "u64", "u128", "usize", "i8", "i16", "i32", "i64", "i128", "isize", "bool", "char", "f32", "f64", "ResolvedName",
    ];
    let words: Vec<&str> = ty.split(|c: char| !(c.is_alphanumeric() || c == '_')).filter(|w| !w.is_empty()).collect();
    !words.is_empty()
        && words.iter().all(|w| OK.contains(w))
        && !ty.contains('*')
        && !ty.contains("dyn")
        && !ty.contains('&')
        && ty.chars().all(|c| c.is_alphanumeric() || "_<>,[]()".contains(c))
}

fn param_names(sig: &syn::Signature) -> Vec<String> {
    sig.inputs
        .iter()
        .filter_map(|a| match a {
            syn::FnArg::Typed(t) => Some(norm(&t.pat).trim_start_matches("mut").to_string()),
            _ => None,
        })
        .collect()
}

fn lifetime(repo: &Path) -> Result<String, String> {
    let cg = find::parse(repo, "src/codegen/mod.rs")?;
    let pl = find::parse(repo, "src/pipeline.rs")?;
    let rf = find::parse(repo, "src/runtime/func.rs")?;
    let mut notes: Vec<String> = vec![];

    // ---- 1. ModuleData: field order, classified by type
    let fields = find::struct_fields(&cg, "ModuleData")?;
    let mut lean_fields = vec![];
    for (name, ty) in &fields {
        let f = match ty.as_str() {
            "HashMap<ResolvedName,ConstantValue>" => "constants",
            "HashMap<ResolvedName,RotoConstant>" => "rotoConstants",
            "Vec<Arc<Box<dynAny>>>" => "registeredFns",
            // a map from the Rust type of the registered function to its `Arc`: drops like the Vec, but
            // holds at most one entry per key (see `fnsKeep` below)
            "HashMap<TypeId,Arc<Box<dynAny>>>" | "BTreeMap<TypeId,Arc<Box<dynAny>>>" => "registeredFns",
            "JITModuleWrapper" => "jit",
            other if is_plain_data(other) => "plain",
            other => {
                return Err(format!(
                    "ModuleData field `{name}` has an unrecognised type `{other}`: its drop behaviour is not modelled"
                ));
            }
        };
        if f != "plain" && lean_fields.contains(&f) {
            return Err(format!("ModuleData has two fields of kind {f}"));
        }
        lean_fields.push(f);
        notes.push(format!("ModuleData.{name} : {ty} ↦ Field.{f}"));
    }
    let field_named = |kind: &str| -> Option<String> {
        fields
            .iter()
            .zip(&lean_fields)
            .find(|(_, k)| **k == kind)
            .map(|((n, _), _)| n.clone())
    };
    // the wrapper really wraps the JIT module without an automatic drop
    let wrapper = find::struct_fields(&cg, "JITModuleWrapper")?;
    if wrapper.len() != 1 || wrapper[0].1 != "ManuallyDrop<JITModule>" {
        return Err(format!("JITModuleWrapper is not `(ManuallyDrop<JITModule>)`: {wrapper:?}"));
    }
    // RotoConstant::drop: which statements run for which size class of constant
    let rc_drop = find::func(&cg, "drop", Some("Drop for RotoConstant"))?;
    let mut const_drop: Vec<(&'static str, &'static str)> = vec![];
    const_drop_stmts(&rc_drop.block.stmts, "always", &mut const_drop)?;
    if !const_drop.iter().any(|(_, a)| *a == "callDropFn") {
        return Err("Drop for RotoConstant no longer calls `(self.drop_fn)(self.ptr)`".into());
    }
    notes.push(format!(
        "Drop for RotoConstant: {}",
        const_drop.iter().map(|(g, a)| format!("{a}[{g}]")).collect::<Vec<_>>().join("; ")
    ));
    let rc_fields = find::struct_fields(&cg, "RotoConstant")?;
    if !rc_fields.iter().any(|(n, t)| n == "size" && t == "usize") {
        return Err("RotoConstant has no `size: usize` field".into());
    }

    // ---- 2. the handle owns the Arc
    let shared = find::struct_fields(&cg, "SharedModuleData")?;
    let shared_is_arc = shared.len() == 1 && shared[0].1 == "Arc<ModuleData>";
    if !shared_is_arc {
        notes.push(format!("SharedModuleData is not a newtype of Arc<ModuleData>: {shared:?}"));
    }
    for s in ["TypedFunc", "SharedModuleData"] {
        if !derives(&cg, s, "Clone") {
            return Err(format!("{s} no longer derives Clone: cloning a handle is not modelled"));
        }
    }
    let tf = find::struct_fields(&cg, "TypedFunc")?;
    let tf_field = tf.iter().find(|(_, t)| t == "SharedModuleData").map(|(n, _)| n.clone());
    let module = find::struct_fields(&cg, "Module")?;
    let inner = module.iter().find(|(_, t)| t == "SharedModuleData").map(|(n, _)| n.clone());
    let Some(inner) = inner else {
        return Err("Module has no field of type SharedModuleData".into());
    };
    let package = find::struct_fields(&pl, "Package")?;
    let Some(pkg_field) = package.iter().find(|(_, t)| t == "Module<Ctx>").map(|(n, _)| n.clone()) else {
        return Err("Package has no field of type Module<Ctx>".into());
    };
    let pkg_get = find::func(&pl, "get_function", Some("Package"))?;
    if norm(find::tail_expr(&pkg_get.block)?) != format!("self.{pkg_field}.get_function(name)") {
        return Err("Package::get_function is not `self.module.get_function(name)`".into());
    }
    let get = find::func(&cg, "get_function", Some("Module"))?;
    let mut lit = StructLit("TypedFunc", vec![]);
    lit.visit_block(&get.block);
    if lit.1.len() != 1 {
        return Err(format!("Module::get_function: {} `TypedFunc {{…}}` literals", lit.1.len()));
    }
    let mut clones_arc = false;
    if let Some(f) = &tf_field {
        for fv in &lit.1[0].fields {
            if norm(&fv.member) == *f {
                let e = norm(&fv.expr);
                if e == format!("self.{inner}.clone()") {
                    clones_arc = true;
                } else {
                    notes.push(format!("TypedFunc.{f} is initialised with `{e}`, not `self.{inner}.clone()`"));
                }
            }
        }
    } else {
        notes.push("TypedFunc has no field of type SharedModuleData".into());
    }
    let handle_holds = shared_is_arc && tf_field.is_some() && clones_arc;

    // ---- 3. what is cloned into the module
    let mut all = ImplFns { cur: None, out: vec![], params: vec![] };
    all.visit_file(&cg);
    let body = |imp: &str, name: &str| -> Result<String, String> {
        let hits: Vec<_> = all
            .out
            .iter()
            .filter(|(i, n, _)| n == name && (i == imp || i.starts_with(&format!("{imp}<"))))
            .collect();
        match hits.len() {
            1 => Ok(norm(&hits[0].2)),
            n => Err(format!("{n} functions `{imp}::{name}`")),
        }
    };
    let codegen = body("", "codegen")?;
    let declare_constant = body("ModuleBuilder", "declare_constant")?;
    // construction plumbing: which builder field reaches which ModuleData field
    //   finalize: SharedModuleData::new(self.a, self.b, …)  →  Self(Arc::new(ModuleData::new(p1, p2, …)))
    //   →  Self { field: p, …, jit_field: JITModuleWrapper(ManuallyDrop::new(p)) }
    let smd = find::func(&cg, "new", Some("SharedModuleData"))?;
    let mdn = find::func(&cg, "new", Some("ModuleData"))?;
    let smd_params = param_names(&smd.sig);
    let md_params = param_names(&mdn.sig);
    let want = format!("Self(Arc::new(ModuleData::new({},)))", smd_params.join(","));
    let want2 = format!("Self(Arc::new(ModuleData::new({})))", smd_params.join(","));
    let smd_tail = norm(find::tail_expr(&smd.block)?);
    if (smd_tail != want && smd_tail != want2) || md_params.len() != smd_params.len() {
        return Err("SharedModuleData::new does not build `Arc::new(ModuleData::new(<its parameters, in order>))`".into());
    }
    let mut md_lit = StructLit("Self", vec![]);
    md_lit.visit_block(&mdn.block);
    if md_lit.1.len() != 1 {
        return Err(format!("ModuleData::new: {} `Self {{…}}` literals", md_lit.1.len()));
    }
    let mut field_param: Vec<(String, usize, bool)> = vec![]; // ModuleData field ← parameter index, wrapped in JITModuleWrapper
    // a local that wraps a parameter first: `let x = JITModuleWrapper(ManuallyDrop::new(<param>));` (x may shadow it)
    let mut wrapped_locals: Vec<(String, usize)> = vec![];
    for st in &mdn.block.stmts {
        if let syn::Stmt::Local(l) = st {
            if let Some(init) = &l.init {
                let (x, e) = (norm(&l.pat), norm(&init.expr));
                if let Some(i) = md_params.iter().position(|p| e == format!("JITModuleWrapper(ManuallyDrop::new({p}))")) {
                    wrapped_locals.push((x, i));
                }
            }
        }
    }
    for fv in &md_lit.1[0].fields {
        let (m, e) = (norm(&fv.member), norm(&fv.expr));
        if let Some((_, i)) = wrapped_locals.iter().find(|(x, _)| *x == e) {
            field_param.push((m, *i, true));
        } else if let Some(i) = md_params.iter().position(|p| *p == e) {
            field_param.push((m, i, false));
        } else if let Some(i) = md_params.iter().position(|p| e == format!("JITModuleWrapper(ManuallyDrop::new({p}))")) {
            field_param.push((m, i, true));
        } else {
            return Err(format!("ModuleData::new initialises `{m}` with `{e}`: not a parameter moved in"));
        }
    }
    let finalize_fn = find::func(&cg, "finalize", Some("ModuleBuilder"))?;
    let mut fin_lit = StructLit("Module", vec![]);
    fin_lit.visit_block(&finalize_fn.block);
    let mut fin_args: Vec<String> = vec![];
    if fin_lit.1.len() == 1 {
        for fv in &fin_lit.1[0].fields {
            if let syn::Expr::Call(c) = &fv.expr {
                if norm(&c.func) == "SharedModuleData::new" && norm(&fv.member) == inner {
                    fin_args = c.args.iter().map(|a| norm(a)).collect();
                }
            }
        }
    }
    if fin_args.len() != smd_params.len() || fin_args.iter().any(|a| !a.starts_with("self.")) {
        return Err(format!("ModuleBuilder::finalize does not pass {} builder fields to SharedModuleData::new: {fin_args:?}", smd_params.len()));
    }
    // ModuleData field of that kind is filled from that builder field
    let moved = |kind: &str, builder_field: &str| -> bool {
        match field_named(kind) {
            Some(f) => field_param
                .iter()
                .any(|(m, i, wrapped)| *m == f && fin_args[*i] == format!("self.{builder_field}") && *wrapped == (kind == "jit")),
            None => false,
        }
    };
    let consts_cloned = moved("constants", "runtime_constants")
        && declare_constant.contains("self.runtime_constants.insert(constant.name,constant.value.clone());")
        && codegen.contains("forconstantinruntime.constants().values(){module.declare_constant(constant);}");
    if !consts_cloned {
        notes.push("registered constants are not (all) cloned into ModuleData".into());
    }
    let pointer = find::func(&rf, "pointer", Some("FunctionDescription"))?;
    // how the keep-alive collection is filled: `push` on a Vec keeps every Arc; insert-if-absent / insert
    // into a map keyed by TypeId keeps one Arc per Rust type
    let fns_field_ty = fields
        .iter()
        .zip(&lean_fields)
        .find(|(_, k)| **k == "registeredFns")
        .map(|((_, t), _)| t.clone())
        .unwrap_or_default();
    let (fns_inserted, fns_keep) = if fns_field_ty.starts_with("Vec<") {
        (codegen.contains("module.registered_fns.push(arc_box);"), "perArc")
    } else {
        let keyed = codegen.contains("module.registered_fns.entry(") && codegen.contains(").or_insert(arc_box);")
            || codegen.contains("module.registered_fns.insert(") && codegen.contains(",arc_box);");
        (keyed, "perRustType")
    };
    notes.push(format!("ModuleData's registered-function collection `{fns_field_ty}` ↦ KeepKey.{fns_keep}"));
    let fns_cloned = moved("registeredFns", "registered_fns")
        && norm(find::tail_expr(&pointer.block)?) == "self.pointer.clone()"
        && codegen.contains("letarc_box=f.func.pointer();")
        && fns_inserted;
    if !fns_cloned {
        notes.push("referenced registered functions' Arcs are not cloned into ModuleData".into());
    }
    if !moved("rotoConstants", "roto_constants") || !codegen.contains("module.roto_constants.insert(*name,constant);") {
        return Err("script constants no longer reach ModuleData's RotoConstant map".into());
    }
    if !moved("jit", "inner") {
        return Err("ModuleData::new does not wrap the builder's JIT module in JITModuleWrapper(ManuallyDrop::new(..))".into());
    }
    for ((name, _), kind) in fields.iter().zip(&lean_fields) {
        if *kind == "plain" {
            let src = field_param.iter().find(|(m, _, _)| m == name).map(|(_, i, _)| fin_args[*i].clone());
            notes.push(format!("ModuleData.{name} (plain data) is filled from {}", src.unwrap_or("?".into())));
        }
    }

    // ---- 4. who frees the code
    let mut sites = vec![];
    let mut everything = ImplFns { cur: None, out: vec![], params: vec![] };
    everything.visit_file(&cg);
    everything.visit_file(&pl);
    for (imp, name, block) in &everything.out {
        let mut c = CallsMethod("free_memory", 0);
        c.visit_block(block);
        if c.1 == 0 {
            continue;
        }
        let base = imp.split('<').next().unwrap_or("").to_string();
        let site = match (base.as_str(), name.as_str()) {
            ("Drop for JITModuleWrapper", "drop") => "wrapperDrop",
            ("Drop for ModuleData", "drop") => "moduleDataDrop",
            ("Drop for Module", "drop") | ("Drop for Package", "drop") => "packageDrop",
            ("Drop for TypedFunc", "drop") => "handleDrop",
            _ => {
                return Err(format!("`free_memory` is called from `{imp}::{name}`: not a modelled free site"));
            }
        };
        notes.push(format!("free_memory called in {imp}::{name} ↦ FreeSite.{site}"));
        sites.push(site);
    }

    // ---- 5. what the closure made by into_func owns
    let handle_has_drop = everything.out.iter().any(|(imp, name, _)| name == "drop" && imp.split('<').next() == Some("Drop for TypedFunc"));
    let closure_keeps = shared_is_arc
        && into_func_keeps_arc(repo, &cg, tf_field.as_deref(), handle_has_drop, &mut notes)?;

    // ---- 6. out-of-line data the code refers to by address
    let holders = data_holders(&cg, &all, &mut notes)?;

    // ---- 6b. where the value of a script constant lives
    let store = const_store(&cg, &all, &mut notes)?;

    // ---- 7. a TestCase wraps the handle of its test function
    let tg = find::parse(repo, "src/codegen/testing.rs")?;
    let tc = find::struct_fields(&tg, "TestCase")?;
    let tc_field = tc.iter().find(|(_, t)| t.starts_with("TypedFunc<")).map(|(n, _)| n.clone());
    let test_holds = match &tc_field {
        None => {
            notes.push(format!("TestCase has no field of type TypedFunc<…>: {tc:?}"));
            false
        }
        Some(f) => {
            let new = find::func(&tg, "new", Some("TestCase"))?;
            let run = find::func(&tg, "run", Some("TestCase"))?;
            let get = find::func(&tg, "get_tests", None)?;
            let new_t = norm(&new.block);
            let stores = new_t.contains(&format!("{f},")) || new_t.contains(&format!("{f}}}")) || new_t.contains(&format!("{f}:{f}"));
            let runs = norm(&run.block).contains(&format!("self.{f}.call_tuple(ctx,())"));
            let get_t = norm(&get.block);
            let builds = get_t.contains("TestCase::new(") && get_t.contains("module.get_function::<fn()->Verdict<(),()>>(");
            let pkg_get = find::func(&pl, "get_tests", Some("Package"))?;
            let pkg_ok = norm(&pkg_get.block).contains(&format!("get_tests(&mutself.{pkg_field})"));
            if !(stores && runs && builds && pkg_ok) {
                notes.push(format!("TestCase: stores the handle {stores}, runs through it {runs}, built from get_function {builds}, Package::get_tests forwards {pkg_ok}"));
            }
            stores && runs && builds && pkg_ok
        }
    };

    let b = |x: bool| if x { "true" } else { "false" };
    let mut out = String::new();
    out.push_str("/- GENERATED by /verif/extract (target `lifetime`) from src/codegen/mod.rs, src/codegen/testing.rs, src/pipeline.rs, src/runtime/func.rs, Cargo.toml — do not edit.\n");
    for n in &notes {
        out.push_str(&format!("   {n}\n"));
    }
    out.push_str("-/\nimport RotoV.Model.Lifetime\nimport RotoV.Model.LifetimeAddr\nnamespace RotoV.Gen.Lifetime\nopen RotoV.Lifetime\n\n");
    out.push_str(&format!(
        "def facts : Facts :=\n  {{ moduleFields := [{}]\n    handleHoldsArc := {}\n    constsCloned := {}\n    fnsCloned := {}\n    freeSites := [{}]\n    closureKeepsArc := {}\n    testHoldsHandle := {}\n    dataHolders := [{}]\n    constDrop := [{}]\n    fnsKeep := .{} }}\n",
        lean_fields.iter().map(|f| format!(".{f}")).collect::<Vec<_>>().join(", "),
        b(handle_holds),
        b(consts_cloned),
        b(fns_cloned),
        sites.iter().map(|f| format!(".{f}")).collect::<Vec<_>>().join(", "),
        b(closure_keeps),
        b(test_holds),
        holders.iter().map(|f| format!(".{f}")).collect::<Vec<_>>().join(", "),
        const_drop.iter().map(|(g, a)| format!("(.{g}, .{a})")).collect::<Vec<_>>().join(", "),
        fns_keep,
    ));
    out.push_str(&format!("\n/-- what a baked script-constant address points into -/\ndef constStore : ConstStore := .{store}\n"));
    out.push_str("\nend RotoV.Gen.Lifetime\n");
    Ok(out)
}
