//! Translator targets owned by property C11.
//!
//! `lifetime` → `Generated/Lifetime.lean`: the declaration-level facts that are
//! the *mechanism* of C11 (DESIGN.md §4 C11):
//!  * field order of `ModuleData` (Rust drops fields in declaration order),
//!    each field classified by its type;
//!  * `TypedFunc` owns a `SharedModuleData` (= `Arc<ModuleData>`) that
//!    `Module::get_function` fills with `self.inner.clone()`;
//!  * `codegen` clones every registered constant (`declare_constant`) and the
//!    `Arc` of every referenced registered function into the module;
//!  * which `Drop` impls call `free_memory`.
//! Shapes that are not recognised are extraction failures, never defaults.
#[allow(unused_imports)]
use super::{Gen, Target};
use crate::find;
use quote::ToTokens;
use std::path::Path;
use syn::visit::Visit;

pub const TARGETS: &[Target] = &[("lifetime", "Lifetime", lifetime as Gen)];

fn norm<T: ToTokens>(t: &T) -> String {
    t.to_token_stream().to_string().replace(' ', "")
}

/// every `fn` inside an `impl`, with the impl's label (`Trait for Type` / `Type`)
struct ImplFns {
    cur: Option<String>,
    out: Vec<(String, String, syn::Block)>,
}
impl<'ast> Visit<'ast> for ImplFns {
    fn visit_item_impl(&mut self, i: &'ast syn::ItemImpl) {
        let ty = norm(&i.self_ty);
        let label = match &i.trait_ {
            Some((_, p, _)) => format!("{} for {}", norm(p), ty),
            None => ty,
        };
        let old = self.cur.replace(label);
        syn::visit::visit_item_impl(self, i);
        self.cur = old;
    }
    fn visit_impl_item_fn(&mut self, f: &'ast syn::ImplItemFn) {
        self.out.push((
            self.cur.clone().unwrap_or_default(),
            f.sig.ident.to_string(),
            f.block.clone(),
        ));
        syn::visit::visit_impl_item_fn(self, f);
    }
    fn visit_item_fn(&mut self, f: &'ast syn::ItemFn) {
        self.out
            .push((String::new(), f.sig.ident.to_string(), (*f.block).clone()));
        syn::visit::visit_item_fn(self, f);
    }
}

struct CallsMethod<'a>(&'a str, usize);
impl<'ast> Visit<'ast> for CallsMethod<'_> {
    fn visit_expr_method_call(&mut self, m: &'ast syn::ExprMethodCall) {
        if m.method == self.0 {
            self.1 += 1;
        }
        syn::visit::visit_expr_method_call(self, m);
    }
}

/// the (unique) struct literal `Name { … }` inside a block
struct StructLit<'a>(&'a str, Vec<syn::ExprStruct>);
impl<'ast> Visit<'ast> for StructLit<'_> {
    fn visit_expr_struct(&mut self, s: &'ast syn::ExprStruct) {
        if s.path.segments.last().map(|x| x.ident == self.0).unwrap_or(false) {
            self.1.push(s.clone());
        }
        syn::visit::visit_expr_struct(self, s);
    }
}

fn derives(file: &syn::File, name: &str, what: &str) -> bool {
    struct F<'a>(&'a str, &'a str, bool);
    impl<'ast> Visit<'ast> for F<'_> {
        fn visit_item_struct(&mut self, s: &'ast syn::ItemStruct) {
            if s.ident == self.0 {
                for a in &s.attrs {
                    if a.path().is_ident("derive") {
                        let t = norm(&a.meta);
                        if t
                            .trim_start_matches("derive(")
                            .trim_end_matches(')')
                            .split(',')
                            .any(|d| d == self.1)
                        {
                            self.2 = true;
                        }
                    }
                }
            }
        }
    }
    let mut f = F(name, what, false);
    f.visit_file(file);
    f.2
}

fn lifetime(repo: &Path) -> Result<String, String> {
    let cg = find::parse(repo, "src/codegen/mod.rs")?;
    let pl = find::parse(repo, "src/pipeline.rs")?;
    let rf = find::parse(repo, "src/runtime/func.rs")?;
    let mut notes: Vec<String> = vec![];

    // ---- 1. ModuleData: field order, classified by type
    let fields = find::struct_fields(&cg, "ModuleData")?;
    let mut lean_fields = vec![];
    for (name, ty) in &fields {
        let f = match ty.as_str() {
            "HashMap<ResolvedName,ConstantValue>" => "constants",
            "HashMap<ResolvedName,RotoConstant>" => "rotoConstants",
            "Vec<Arc<Box<dynAny>>>" => "registeredFns",
            "JITModuleWrapper" => "jit",
            other => {
                return Err(format!(
                    "ModuleData field `{name}` has an unrecognised type `{other}`: its drop behaviour is not modelled"
                ));
            }
        };
        if lean_fields.contains(&f) {
            return Err(format!("ModuleData has two fields of kind {f}"));
        }
        lean_fields.push(f);
        notes.push(format!("ModuleData.{name} : {ty} ↦ Field.{f}"));
    }
    let field_named = |kind: &str| -> Option<String> {
        fields
            .iter()
            .zip(&lean_fields)
            .find(|(_, k)| **k == kind)
            .map(|((n, _), _)| n.clone())
    };
    // the wrapper really wraps the JIT module without an automatic drop
    let wrapper = find::struct_fields(&cg, "JITModuleWrapper")?;
    if wrapper.len() != 1 || wrapper[0].1 != "ManuallyDrop<JITModule>" {
        return Err(format!("JITModuleWrapper is not `(ManuallyDrop<JITModule>)`: {wrapper:?}"));
    }
    // RotoConstant::drop calls the JIT-compiled drop function
    let rc_drop = find::func(&cg, "drop", Some("Drop for RotoConstant"))?;
    if !norm(&rc_drop.block).contains("(self.drop_fn)(self.ptr)") {
        return Err("Drop for RotoConstant no longer calls `(self.drop_fn)(self.ptr)`".into());
    }

    // ---- 2. the handle owns the Arc
    let shared = find::struct_fields(&cg, "SharedModuleData")?;
    let shared_is_arc = shared.len() == 1 && shared[0].1 == "Arc<ModuleData>";
    if !shared_is_arc {
        notes.push(format!("SharedModuleData is not a newtype of Arc<ModuleData>: {shared:?}"));
    }
    for s in ["TypedFunc", "SharedModuleData"] {
        if !derives(&cg, s, "Clone") {
            return Err(format!("{s} no longer derives Clone: cloning a handle is not modelled"));
        }
    }
    let tf = find::struct_fields(&cg, "TypedFunc")?;
    let tf_field = tf.iter().find(|(_, t)| t == "SharedModuleData").map(|(n, _)| n.clone());
    let module = find::struct_fields(&cg, "Module")?;
    let inner = module.iter().find(|(_, t)| t == "SharedModuleData").map(|(n, _)| n.clone());
    let Some(inner) = inner else {
        return Err("Module has no field of type SharedModuleData".into());
    };
    let package = find::struct_fields(&pl, "Package")?;
    let Some(pkg_field) = package.iter().find(|(_, t)| t == "Module<Ctx>").map(|(n, _)| n.clone()) else {
        return Err("Package has no field of type Module<Ctx>".into());
    };
    let pkg_get = find::func(&pl, "get_function", Some("Package"))?;
    if norm(find::tail_expr(&pkg_get.block)?) != format!("self.{pkg_field}.get_function(name)") {
        return Err("Package::get_function is not `self.module.get_function(name)`".into());
    }
    let get = find::func(&cg, "get_function", Some("Module"))?;
    let mut lit = StructLit("TypedFunc", vec![]);
    lit.visit_block(&get.block);
    if lit.1.len() != 1 {
        return Err(format!("Module::get_function: {} `TypedFunc {{…}}` literals", lit.1.len()));
    }
    let mut clones_arc = false;
    if let Some(f) = &tf_field {
        for fv in &lit.1[0].fields {
            if norm(&fv.member) == *f {
                let e = norm(&fv.expr);
                if e == format!("self.{inner}.clone()") {
                    clones_arc = true;
                } else {
                    notes.push(format!("TypedFunc.{f} is initialised with `{e}`, not `self.{inner}.clone()`"));
                }
            }
        }
    } else {
        notes.push("TypedFunc has no field of type SharedModuleData".into());
    }
    let handle_holds = shared_is_arc && tf_field.is_some() && clones_arc;

    // ---- 3. what is cloned into the module
    let mut all = ImplFns { cur: None, out: vec![] };
    all.visit_file(&cg);
    let body = |imp: &str, name: &str| -> Result<String, String> {
        let hits: Vec<_> = all
            .out
            .iter()
            .filter(|(i, n, _)| n == name && (i == imp || i.starts_with(&format!("{imp}<"))))
            .collect();
        match hits.len() {
            1 => Ok(norm(&hits[0].2)),
            n => Err(format!("{n} functions `{imp}::{name}`")),
        }
    };
    let codegen = body("", "codegen")?;
    let finalize = body("ModuleBuilder", "finalize")?;
    let md_new = body("ModuleData", "new")?;
    let smd_new = body("SharedModuleData", "new")?;
    let declare_constant = body("ModuleBuilder", "declare_constant")?;
    // construction plumbing: builder fields reach the ModuleData fields unchanged
    if !smd_new.contains("Self(Arc::new(ModuleData::new(cranelift_jit,constants,roto_constants,registered_fns,)))") {
        return Err("SharedModuleData::new does not build `Arc::new(ModuleData::new(cranelift_jit, constants, roto_constants, registered_fns))`".into());
    }
    if !finalize.contains("SharedModuleData::new(self.inner,self.runtime_constants,self.roto_constants,self.registered_fns,)") {
        return Err("ModuleBuilder::finalize does not pass (inner, runtime_constants, roto_constants, registered_fns) to SharedModuleData::new".into());
    }
    let moved = |kind: &str, param: &str| -> bool {
        match field_named(kind) {
            Some(f) => md_new.contains(&format!("{f}:{param},")),
            None => false,
        }
    };
    let consts_cloned = moved("constants", "constants")
        && declare_constant.contains("self.runtime_constants.insert(constant.name,constant.value.clone());")
        && codegen.contains("forconstantinruntime.constants().values(){module.declare_constant(constant);}");
    if !consts_cloned {
        notes.push("registered constants are not (all) cloned into ModuleData".into());
    }
    let pointer = find::func(&rf, "pointer", Some("FunctionDescription"))?;
    let fns_cloned = moved("registeredFns", "registered_fns")
        && norm(find::tail_expr(&pointer.block)?) == "self.pointer.clone()"
        && codegen.contains("letarc_box=f.func.pointer();")
        && codegen.contains("module.registered_fns.push(arc_box);");
    if !fns_cloned {
        notes.push("referenced registered functions' Arcs are not cloned into ModuleData".into());
    }
    if !moved("rotoConstants", "roto_constants") || !codegen.contains("module.roto_constants.insert(*name,constant);") {
        return Err("script constants no longer reach ModuleData's RotoConstant map".into());
    }
    if !md_new.contains("JITModuleWrapper(ManuallyDrop::new(cranelift_jit))") {
        return Err("ModuleData::new does not wrap the JIT module in JITModuleWrapper(ManuallyDrop::new(..))".into());
    }

    // ---- 4. who frees the code
    let mut sites = vec![];
    let mut everything = ImplFns { cur: None, out: vec![] };
    everything.visit_file(&cg);
    everything.visit_file(&pl);
    for (imp, name, block) in &everything.out {
        let mut c = CallsMethod("free_memory", 0);
        c.visit_block(block);
        if c.1 == 0 {
            continue;
        }
        let base = imp.split('<').next().unwrap_or("").to_string();
        let site = match (base.as_str(), name.as_str()) {
            ("Drop for JITModuleWrapper", "drop") => "wrapperDrop",
            ("Drop for ModuleData", "drop") => "moduleDataDrop",
            ("Drop for Module", "drop") | ("Drop for Package", "drop") => "packageDrop",
            ("Drop for TypedFunc", "drop") => "handleDrop",
            _ => {
                return Err(format!("`free_memory` is called from `{imp}::{name}`: not a modelled free site"));
            }
        };
        notes.push(format!("free_memory called in {imp}::{name} ↦ FreeSite.{site}"));
        sites.push(site);
    }

    let b = |x: bool| if x { "true" } else { "false" };
    let mut out = String::new();
    out.push_str("/- GENERATED by /verif/extract (target `lifetime`) from src/codegen/mod.rs, src/pipeline.rs, src/runtime/func.rs — do not edit.\n");
    for n in &notes {
        out.push_str(&format!("   {n}\n"));
    }
    out.push_str("-/\nimport RotoV.Model.Lifetime\nnamespace RotoV.Gen.Lifetime\nopen RotoV.Lifetime\n\n");
    out.push_str(&format!(
        "def facts : Facts :=\n  {{ moduleFields := [{}]\n    handleHoldsArc := {}\n    constsCloned := {}\n    fnsCloned := {}\n    freeSites := [{}] }}\n",
        lean_fields.iter().map(|f| format!(".{f}")).collect::<Vec<_>>().join(", "),
        b(handle_holds),
        b(consts_cloned),
        b(fns_cloned),
        sites.iter().map(|f| format!(".{f}")).collect::<Vec<_>>().join(", "),
    ));
    out.push_str("\nend RotoV.Gen.Lifetime\n");
    Ok(out)
}
