//! `c10vtable` → `Generated/C10VTable.lean` (property C10).
//!
//! The vtable a generic built-in (`List.new`, list literals) receives for a type
//! parameter is a `#[repr(C)] struct VTable` on the Rust side, but for lists
//! created by compiled code it is *written word by word by the LIR lowerer*.
//! Three declaration-level facts decide whether a list operation can jump to
//! address 0:
//!  * `vtableFields` — the fields of `struct VTable` (`src/value/vtable.rs`) in
//!    declaration order with their kind (`usize` / `Option<fn>` / bare `fn`),
//!    and whether the struct is `#[repr(C)]`;
//!  * `lowerWrites` — inside `Lowerer::call_runtime` (`src/lir/lower.rs`), in the
//!    loop over the requested vtables: every `self.emit_write(dst, SRC)` in order
//!    with the width the `LayoutBuilder` was given, and for every callback source
//!    (`let X = if COND { … FunctionAddress { name: format!("::generated::K_{type_id}") } …
//!    self.ctx.Q.push_back(ty_ref) … } else { …Pointer(0) }`, or an unconditional
//!    block) the family K, the condition and the queue;
//!  * `listUses` — every mention of `….vtable.{clone_fn,drop_fn,eq_fn}` in
//!    `src/value/list.rs` (outside tests / verif-hooks items), classified as a
//!    direct call or a use under a `Some(f)` pattern.
//! Anything else touching these (another condition shape is `Fill.other`; another
//! statement that mentions `FunctionAddress`/`emit_write` in the loop, a callback
//! field used in another way, a new fn-typed field) is an extraction failure.

use crate::find;
use crate::{footer, header};
use quote::ToTokens;
use syn::visit::Visit;
use syn::{Expr, Pat, Stmt};

fn strip(e: &impl ToTokens) -> String {
    e.to_token_stream().to_string().replace(' ', "")
}

fn hook_attrs(attrs: &[syn::Attribute]) -> bool {
    attrs.iter().any(|a| strip(a) == "#[cfg(feature=\"verif-hooks\")]")
}

fn cb_of_field(name: &str) -> Option<&'static str> {
    match name {
        "clone_fn" => Some("clone"),
        "drop_fn" => Some("drop"),
        "eq_fn" => Some("eq"),
        _ => None,
    }
}

// ------------------------------------------------------------------ vtable.rs

/// (field name, kind) in declaration order; repr(C)?
fn vtable_fields(file: &syn::File) -> Result<(Vec<(String, &'static str)>, bool), String> {
    // type aliases that are bare `unsafe extern "C" fn` pointers
    let mut fn_aliases = vec![];
    for it in &file.items {
        if let syn::Item::Type(t) = it {
            if let syn::Type::BareFn(_) = &*t.ty {
                fn_aliases.push(t.ident.to_string());
            }
        }
    }
    for it in &file.items {
        if let syn::Item::Struct(s) = it {
            if s.ident != "VTable" {
                continue;
            }
            let repr_c = s.attrs.iter().any(|a| strip(a) == "#[repr(C)]");
            let mut out = vec![];
            for f in &s.fields {
                let name = f.ident.as_ref().map(|i| i.to_string()).ok_or("struct VTable: unnamed field")?;
                let ty = strip(&f.ty);
                let kind = if ty == "usize" {
                    "data"
                } else if fn_aliases.iter().any(|a| *a == ty) || ty.contains("fn(") && !ty.starts_with("Option<") {
                    "bareFn"
                } else if let Some(inner) = ty.strip_prefix("Option<").and_then(|t| t.strip_suffix('>')) {
                    if fn_aliases.iter().any(|a| a == inner) || inner.contains("fn(") {
                        "optFn"
                    } else {
                        return Err(format!("struct VTable: field {name}: Option of something that is not a function pointer: {ty}"));
                    }
                } else {
                    return Err(format!("struct VTable: field {name} has a type outside the model: {ty}"));
                };
                if kind != "data" && cb_of_field(&name).is_none() {
                    return Err(format!("struct VTable: callback field {name} is not one of clone_fn/drop_fn/eq_fn (the model must grow)"));
                }
                if kind == "data" && name != "size" && name != "align" {
                    return Err(format!("struct VTable: data field {name} is not size/align (the model must grow)"));
                }
                out.push((name, kind));
            }
            return Ok((out, repr_c));
        }
    }
    Err("struct VTable not found in src/value/vtable.rs".into())
}

// -------------------------------------------------------------------- lower.rs

struct CbSource {
    var: String,
    gen: &'static str,
    fill: &'static str,
    cond_text: String,
    queued: Option<&'static str>,
}

fn mentions(e: &impl ToTokens, needle: &str) -> bool {
    // token-level (also inside macros)
    e.to_token_stream().to_string().split(|c: char| !(c.is_alphanumeric() || c == '_')).any(|w| w == needle)
}

/// the block that produces a function address: family from the format string, queue pushed
fn addr_block(b: &syn::Block, who: &str) -> Result<(&'static str, Option<&'static str>), String> {
    let txt = strip(b);
    let mut gen = None;
    for (pat, g) in [("\"::generated::clone_{type_id}\"", "clone"), ("\"::generated::drop_{type_id}\"", "drop"), ("\"::generated::eq_{type_id}\"", "eq")] {
        if txt.contains(pat) {
            if gen.is_some() {
                return Err(format!("{who}: two generated-function names in one branch"));
            }
            gen = Some(g);
        }
    }
    let gen = gen.ok_or(format!("{who}: no `::generated::<family>_{{type_id}}` name next to FunctionAddress"))?;
    if !txt.contains("Instruction::FunctionAddress{") {
        return Err(format!("{who}: no Instruction::FunctionAddress"));
    }
    let mut queued = None;
    for (pat, q) in [("self.ctx.clones_to_generate.push_back(ty_ref)", "clone"), ("self.ctx.drops_to_generate.push_back(ty_ref)", "drop"), ("self.ctx.eq_to_generate.push_back(ty_ref)", "eq")] {
        if txt.contains(pat) {
            if queued.is_some() {
                return Err(format!("{who}: two to-generate queues pushed in one branch"));
            }
            queued = Some(q);
        }
    }
    // the block's value must be the temporary that received the address
    match b.stmts.last() {
        Some(Stmt::Expr(e, None)) if strip(e) == "tmp.into()" => {}
        _ => return Err(format!("{who}: the branch does not end in `tmp.into()`")),
    }
    Ok((gen, queued))
}

fn is_null_operand(b: &syn::Block) -> bool {
    let t = strip(b);
    t == "{Operand::Value(crate::lir::IrValue::Pointer(0))}" || t == "{Operand::Value(IrValue::Pointer(0))}" || t == "{Operand::Value(lir::IrValue::Pointer(0))}"
}

fn fill_of(cond: &Expr) -> &'static str {
    match strip(cond).as_str() {
        "self.needs_clone(ty_ref)" => "needsClone",
        "self.needs_drop(ty_ref)" => "needsDrop",
        "self.lower_type(ty_ref).is_some()" | "self.lower_type(ty_ref)!=None" | "!self.lower_type(ty_ref).is_none()" => "sized",
        "self.layout_of(ty_ref).is_some()" | "!self.layout_of(ty_ref).is_none()" => "sized",
        "true" => "always",
        _ => "other",
    }
}

fn lower_writes(file: &syn::File) -> Result<(Vec<CbSource>, Vec<(&'static str, String)>), String> {
    let f = find::func(file, "call_runtime", Some("Lowerer"))?;
    // the loop over the requested vtables
    struct Loops(Vec<syn::ExprForLoop>);
    impl<'ast> Visit<'ast> for Loops {
        fn visit_expr_for_loop(&mut self, l: &'ast syn::ExprForLoop) {
            if mentions(&l.expr, "vtables") {
                self.0.push(l.clone());
            }
            syn::visit::visit_expr_for_loop(self, l);
        }
    }
    let mut ls = Loops(vec![]);
    ls.visit_block(&f.block);
    if ls.0.len() != 1 {
        return Err(format!("call_runtime: expected one loop over `vtables`, found {}", ls.0.len()));
    }
    let lp = &ls.0[0];
    if !strip(&lp.pat).contains("ty_ref") {
        return Err("call_runtime: the vtable loop does not bind `ty_ref`".into());
    }
    // FunctionAddress / emit_write outside the loop would be outside what is read here: only the
    // loop may build vtables
    let mut sources: Vec<CbSource> = vec![];
    let mut writes: Vec<(&'static str, String)> = vec![];
    let mut pending_width: Option<&'static str> = None;
    for st in &lp.body.stmts {
        match st {
            Stmt::Local(l) if l.attrs.iter().all(|a| !hook_attrs(std::slice::from_ref(a))) => {
                let Some(init) = &l.init else { continue };
                let name = match &l.pat {
                    Pat::Ident(i) => i.ident.to_string(),
                    Pat::Type(t) => strip(&t.pat),
                    p => strip(p),
                };
                if mentions(&init.expr, "FunctionAddress") {
                    let who = format!("call_runtime: `let {name}`");
                    match &*init.expr {
                        Expr::If(i) => {
                            let Some((_, els)) = &i.else_branch else { return Err(format!("{who}: `if` without else")) };
                            let Expr::Block(eb) = &**els else { return Err(format!("{who}: else-if chain")) };
                            let (then_b, else_b, negated) = if mentions(&i.then_branch, "FunctionAddress") && !mentions(&eb.block, "FunctionAddress") {
                                (&i.then_branch, &eb.block, false)
                            } else if mentions(&eb.block, "FunctionAddress") && !mentions(&i.then_branch, "FunctionAddress") {
                                (&eb.block, &i.then_branch, true)
                            } else {
                                return Err(format!("{who}: both branches take a function address"));
                            };
                            if !is_null_operand(else_b) {
                                return Err(format!("{who}: the branch without a function address is not `Operand::Value(IrValue::Pointer(0))`: {}", strip(else_b)));
                            }
                            let (gen, queued) = addr_block(then_b, &who)?;
                            let fill = if negated { "other" } else { fill_of(&i.cond) };
                            sources.push(CbSource { var: name, gen, fill, cond_text: i.cond.to_token_stream().to_string(), queued });
                        }
                        Expr::Block(b) => {
                            let (gen, queued) = addr_block(&b.block, &who)?;
                            sources.push(CbSource { var: name, gen, fill: "always", cond_text: "(unconditional)".into(), queued });
                        }
                        other => return Err(format!("{who}: initialiser shape outside the subset: {}", strip(other).chars().take(80).collect::<String>())),
                    }
                    continue;
                }
                let it = strip(&init.expr);
                if it.starts_with("builder.add(") {
                    if pending_width.is_some() {
                        return Err("call_runtime: two `builder.add` without an `emit_write` between them".into());
                    }
                    pending_width = Some(match it.as_str() {
                        "builder.add(&Layout::of::<usize>())" => "usize",
                        "builder.add(&Layout::of::<*mut()>())" | "builder.add(&Layout::of::<*const()>())" => "ptr",
                        _ => return Err(format!("call_runtime: vtable slot of an unknown layout: {it}")),
                    });
                    continue;
                }
                if mentions(&init.expr, "emit_write") {
                    return Err(format!("call_runtime: emit_write inside a `let` in the vtable loop: {it}"));
                }
            }
            Stmt::Expr(e, _) => {
                let t = strip(e);
                if let Expr::MethodCall(m) = e {
                    if m.method == "emit_write" && strip(&m.receiver) == "self" && m.args.len() == 2 {
                        let Some(w) = pending_width.take() else {
                            return Err(format!("call_runtime: emit_write without a preceding `builder.add`: {t}"));
                        };
                        if strip(&m.args[0]) != "dst" {
                            return Err(format!("call_runtime: emit_write to something other than the slot just added: {t}"));
                        }
                        let src = strip(&m.args[1]);
                        let s = if src.contains("ty_layout.size()") && !src.contains("align") {
                            "tySize".to_string()
                        } else if src.contains("ty_layout.align()") && !src.contains("size") {
                            "tyAlign".to_string()
                        } else if sources.iter().any(|c| c.var == src) {
                            format!("var:{src}")
                        } else {
                            return Err(format!("call_runtime: a vtable word of unknown origin is written: {src}"));
                        };
                        writes.push((w, s));
                        continue;
                    }
                }
                if mentions(e, "FunctionAddress") || mentions(e, "emit_write") {
                    return Err(format!("call_runtime: statement outside the subset in the vtable loop: {}", t.chars().take(100).collect::<String>()));
                }
            }
            Stmt::Local(_) => {}
            other => {
                if mentions(other, "FunctionAddress") || mentions(other, "emit_write") {
                    return Err("call_runtime: item/macro touching the vtable in the loop".into());
                }
            }
        }
    }
    if pending_width.is_some() {
        return Err("call_runtime: a vtable slot is added but never written".into());
    }
    // nothing outside the loop builds a vtable word
    let whole = strip(&f.block);
    let in_loop = strip(&lp.body);
    if whole.matches("FunctionAddress").count() != in_loop.matches("FunctionAddress").count() {
        return Err("call_runtime: FunctionAddress outside the vtable loop".into());
    }
    Ok((sources, writes))
}

// --------------------------------------------------------------------- list.rs

struct Uses {
    path: Vec<String>,
    cur_impl: Option<String>,
    cur_fn: Option<String>,
    out: Vec<(String, &'static str, &'static str)>, // (function, callback, kind)
    errs: Vec<String>,
}

/// `<anything>.vtable.<cb field>` (or `vtable.<cb field>`)
fn vt_field(e: &Expr) -> Option<&'static str> {
    let e = match e {
        Expr::Paren(p) => &*p.expr,
        e => e,
    };
    if let Expr::Field(f) = e {
        if let syn::Member::Named(n) = &f.member {
            if let Some(cb) = cb_of_field(&n.to_string()) {
                let base = strip(&f.base);
                if base == "vtable" || base.ends_with(".vtable") {
                    return Some(cb);
                }
            }
        }
    }
    None
}

fn some_ident(p: &Pat) -> bool {
    if let Pat::TupleStruct(t) = p {
        return strip(&t.path) == "Some" && t.elems.len() == 1 && matches!(&t.elems[0], Pat::Ident(_));
    }
    false
}

impl Uses {
    fn here(&self) -> String {
        let mut parts = self.path.clone();
        if let Some(i) = &self.cur_impl {
            parts.push(i.clone());
        }
        parts.push(self.cur_fn.clone().unwrap_or_else(|| "?".into()));
        parts.join("_").chars().map(|c| if c.is_alphanumeric() { c } else { '_' }).collect()
    }
    fn add(&mut self, cb: &'static str, kind: &'static str) {
        let h = self.here();
        self.out.push((h, cb, kind));
    }
}

impl<'ast> Visit<'ast> for Uses {
    fn visit_item_mod(&mut self, m: &'ast syn::ItemMod) {
        if m.ident == "tests" || hook_attrs(&m.attrs) {
            return;
        }
        self.path.push(m.ident.to_string());
        syn::visit::visit_item_mod(self, m);
        self.path.pop();
    }
    fn visit_item_impl(&mut self, i: &'ast syn::ItemImpl) {
        if hook_attrs(&i.attrs) {
            return;
        }
        let ty: String = strip(&i.self_ty).split('<').next().unwrap_or("").to_string();
        let label = match &i.trait_ {
            Some((_, p, _)) => format!("{}_for_{}", p.segments.last().map(|s| s.ident.to_string()).unwrap_or_default(), ty),
            None => ty,
        };
        let old = self.cur_impl.replace(label);
        syn::visit::visit_item_impl(self, i);
        self.cur_impl = old;
    }
    fn visit_impl_item_fn(&mut self, f: &'ast syn::ImplItemFn) {
        if hook_attrs(&f.attrs) {
            return;
        }
        let old = self.cur_fn.replace(f.sig.ident.to_string());
        syn::visit::visit_impl_item_fn(self, f);
        self.cur_fn = old;
    }
    fn visit_item_fn(&mut self, f: &'ast syn::ItemFn) {
        if hook_attrs(&f.attrs) {
            return;
        }
        let old = self.cur_fn.replace(f.sig.ident.to_string());
        syn::visit::visit_item_fn(self, f);
        self.cur_fn = old;
    }
    fn visit_expr_call(&mut self, c: &'ast syn::ExprCall) {
        if let Some(cb) = vt_field(&c.func) {
            self.add(cb, "direct");
            for a in &c.args {
                self.visit_expr(a);
            }
            return;
        }
        syn::visit::visit_expr_call(self, c);
    }
    fn visit_expr_match(&mut self, m: &'ast syn::ExprMatch) {
        if let Some(cb) = vt_field(&m.expr) {
            let some_arms = m.arms.iter().filter(|a| some_ident(&a.pat)).count();
            let none_arms = m.arms.iter().filter(|a| matches!(strip(&a.pat).as_str(), "None" | "_")).count();
            if some_arms == 1 && none_arms == 1 && m.arms.len() == 2 {
                self.add(cb, "guarded");
            } else {
                let h = self.here();
                self.errs.push(format!("{h}: match on vtable.{cb}_fn with arms outside `Some(f)` / `None`"));
            }
            for a in &m.arms {
                self.visit_arm(a);
            }
            return;
        }
        syn::visit::visit_expr_match(self, m);
    }
    fn visit_expr_let(&mut self, l: &'ast syn::ExprLet) {
        if let Some(cb) = vt_field(&l.expr) {
            if some_ident(&l.pat) {
                self.add(cb, "guarded");
            } else {
                let h = self.here();
                self.errs.push(format!("{h}: `let {} = vtable.{cb}_fn` in a condition: pattern outside `Some(f)`", strip(&l.pat)));
            }
            return;
        }
        syn::visit::visit_expr_let(self, l);
    }
    fn visit_local(&mut self, l: &'ast syn::Local) {
        if let Some(init) = &l.init {
            if let Some(cb) = vt_field(&init.expr) {
                if some_ident(&l.pat) && init.diverge.is_some() {
                    self.add(cb, "guarded");
                    if let Some((_, d)) = &init.diverge {
                        self.visit_expr(d);
                    }
                } else if matches!(&l.pat, Pat::Ident(_)) || matches!(&l.pat, Pat::Type(t) if matches!(&*t.pat, Pat::Ident(_)) && !strip(&t.ty).starts_with("Option<")) {
                    // a copy of the word in a local: counted as a direct use (what is done with an
                    // `Option` copy cannot be followed: rejected below)
                    if cb == "eq" {
                        self.add(cb, "direct");
                    } else {
                        let h = self.here();
                        self.errs.push(format!("{h}: vtable.{cb}_fn copied into a local (its later use is not followed)"));
                    }
                } else {
                    let h = self.here();
                    self.errs.push(format!("{h}: `let {} = vtable.{cb}_fn`: shape outside the subset", strip(&l.pat)));
                }
                return;
            }
        }
        syn::visit::visit_local(self, l);
    }
    fn visit_expr_field(&mut self, f: &'ast syn::ExprField) {
        let e = Expr::Field(f.clone());
        if let Some(cb) = vt_field(&e) {
            let h = self.here();
            self.errs.push(format!("{h}: vtable.{cb}_fn used in a way the translator does not read (not a direct call, not under a `Some(f)` pattern)"));
            return;
        }
        syn::visit::visit_expr_field(self, f);
    }
}

// ------------------------------------------------------------------ the target

fn cap(s: &str) -> String {
    format!(".{s}")
}

pub fn c10vtable(repo: &std::path::Path) -> Result<String, String> {
    let vt = find::parse(repo, "src/value/vtable.rs")?;
    let lower = find::parse(repo, "src/lir/lower.rs")?;
    let list = find::parse(repo, "src/value/list.rs")?;

    let (fields, repr_c) = vtable_fields(&vt)?;
    let (sources, writes) = lower_writes(&lower)?;
    let mut u = Uses { path: vec![], cur_impl: None, cur_fn: None, out: vec![], errs: vec![] };
    u.visit_file(&list);
    if let Some(e) = u.errs.first() {
        return Err(format!("src/value/list.rs: {e}"));
    }
    if u.out.is_empty() {
        return Err("src/value/list.rs: no use of a vtable callback found (restructured?)".into());
    }
    // every callback source must be written exactly once
    for s in &sources {
        let n = writes.iter().filter(|(_, w)| *w == format!("var:{}", s.var)).count();
        if n != 1 {
            return Err(format!("call_runtime: `{}` is written {n} times into the vtable", s.var));
        }
    }

    let mut out = header("C10VTable", &["src/value/vtable.rs", "src/lir/lower.rs (Lowerer::call_runtime)", "src/value/list.rs"])
        .replace("import RotoV.Model.Clif\n", "import RotoV.Model.Clif\nimport RotoV.Model.VTableFill\n");
    out.push_str("open RotoV.VTableFill\n\n");
    out.push_str(&format!("/-- `struct VTable` carries `#[repr(C)]` -/\ndef vtableReprC : Bool := {repr_c}\n\n"));
    out.push_str("/-- fields of `struct VTable`, declaration order -/\ndef vtableFields : List (FieldId × FieldKind) := [\n");
    let fl: Vec<String> = fields.iter().map(|(n, k)| {
        let id = match cb_of_field(n) {
            Some(cb) => format!(".cb .{cb}"),
            None => format!(".{n}"),
        };
        format!("  ({id}, .{k})  -- {n}")
    }).collect();
    // Lean list syntax: commas between, comments at line ends
    for (i, l) in fl.iter().enumerate() {
        let (a, b) = l.split_once("  -- ").unwrap();
        out.push_str(&format!("{a}{}  -- {b}\n", if i + 1 < fl.len() { "," } else { "" }));
    }
    out.push_str("]\n\n");
    out.push_str("/-- the words `Lowerer::call_runtime` writes for one requested vtable, in order -/\ndef lowerWrites : List (Width × Src) := [\n");
    for (i, (w, s)) in writes.iter().enumerate() {
        let (src, note) = match s.strip_prefix("var:") {
            Some(v) => {
                let c = sources.iter().find(|c| c.var == v).unwrap();
                let q = match c.queued {
                    Some(q) => format!("(some .{q})"),
                    None => "none".to_string(),
                };
                (format!(".fn .{} .{} {q}", c.gen, c.fill), format!("{v}: {}", c.cond_text.replace('\n', " ")))
            }
            None => (cap(s), String::new()),
        };
        out.push_str(&format!("  (.{w}, {src}){}  -- {note}\n", if i + 1 < writes.len() { "," } else { "" }));
    }
    out.push_str("]\n\n");
    out.push_str("/-- every use of a callback field of the vtable in src/value/list.rs -/\ninductive UseSite where\n");
    let mut names = vec![];
    for (k, (f, cb, _)) in u.out.iter().enumerate() {
        let n = format!("{f}_{cb}_{k}");
        out.push_str(&format!("  | {n}\n"));
        names.push(n);
    }
    out.push_str("  deriving DecidableEq, Repr\n\n");
    out.push_str(&format!("def UseSite.all : List UseSite := [{}]\n\n", names.iter().map(|n| format!(".{n}")).collect::<Vec<_>>().join(", ")));
    out.push_str("def UseSite.use : UseSite → Callback × UseKind\n");
    for (n, (_, cb, kind)) in names.iter().zip(&u.out) {
        out.push_str(&format!("  | .{n} => (.{cb}, .{kind})\n"));
    }
    out.push_str("\ndef listUses : List (Callback × UseKind) := UseSite.all.map UseSite.use\n");
    out.push_str(&footer("C10VTable"));
    Ok(out)
}
