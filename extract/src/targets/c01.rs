//! Translator targets owned by property C01.
#[allow(unused_imports)]
use super::{Gen, Target};

pub const TARGETS: &[Target] = &[];
