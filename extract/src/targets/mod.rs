//! One module per property (`cXX.rs`, owned by that property) plus `scalar.rs`
//! (operator tables shared by C01 / C10 / C20). Each module lists its targets:
//! `(target name, generated file stem, generator)`.
use std::path::Path;

pub mod scalar;
pub mod c01;
pub mod c02;
pub mod c03;
pub mod c04;
pub mod c05;
pub mod c06;
pub mod c07;
pub mod c08;
pub mod c09;
pub mod c10;
pub mod c11;
pub mod c12;
pub mod c13;
pub mod c14;
pub mod c15;
pub mod c16;
pub mod c17;
pub mod c18;
pub mod c19;
pub mod c20;

pub type Gen = fn(&Path) -> Result<String, String>;
pub type Target = (&'static str, &'static str, Gen);

const SHARED: &[Target] = &[
    ("optables", "OpTables", scalar::optables as Gen),
    ("evalarms", "EvalArms", scalar::evalarms as Gen),
];

fn tables() -> Vec<&'static [Target]> {
    vec![SHARED, c01::TARGETS, c02::TARGETS, c03::TARGETS, c04::TARGETS, c05::TARGETS, c06::TARGETS, c07::TARGETS, c08::TARGETS, c09::TARGETS, c10::TARGETS, c11::TARGETS, c12::TARGETS, c13::TARGETS, c14::TARGETS, c15::TARGETS, c16::TARGETS, c17::TARGETS, c18::TARGETS, c19::TARGETS, c20::TARGETS]
}

pub fn all() -> Vec<&'static str> {
    tables().into_iter().flatten().map(|t| t.0).collect()
}

pub fn lookup(t: &str) -> Option<(&'static str, Gen)> {
    tables()
        .into_iter()
        .flatten()
        .find(|x| x.0 == t)
        .map(|x| (x.1, x.2))
}
