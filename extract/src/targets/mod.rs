//! One module per generated Lean file.
use std::path::Path;

pub mod scalar;

/// every target name (used by setup to regenerate everything)
pub const ALL: &[&str] = &["optables", "evalarms"];

type Gen = fn(&Path) -> Result<String, String>;

pub fn lookup(t: &str) -> Option<(&'static str, Gen)> {
    Some(match t {
        "optables" => ("OpTables", scalar::optables as Gen),
        "evalarms" => ("EvalArms", scalar::evalarms as Gen),
        _ => return None,
    })
}
