//! Target `parsefacts` → `Generated/ParseFacts.lean` (property C06), from
//! `src/parser/{mod,expr,filter_map,signature,lexer,meta,token}.rs`.
//!
//! Section A: the decision tables of the recursive-descent parser (which token
//! selects which alternative), in source order with or-patterns flattened.
//! Section B: a call skeleton (c08order style) of every method of `impl Parser`,
//! of the three `unescape_*` functions, of `Lexer::next/peek/peek_many` and of
//! `Spans::add/get/merge`, `Span::merge`.
//!
//! Locals are renamed `v<i>` (parameters first, then order of first occurrence in
//! the body) on the syntax tree before anything is printed, so a consistent
//! renaming of a local changes nothing; the names `parser` and `p` are kept (they
//! are receivers of parser calls). Items and statements under
//! `#[cfg(feature = "verif-hooks")]` (and test modules) are dropped first.
//! Anything outside the understood shapes is an extraction failure.
use crate::find;
use quote::ToTokens;
use std::collections::BTreeSet;
use std::path::Path;
use syn::visit::Visit;
use syn::visit_mut::VisitMut;

/// token text without blanks and without trailing commas (rustfmt adds / removes them)
fn sq(t: &impl ToTokens) -> String {
    t.to_token_stream().to_string().replace(' ', "").replace(",)", ")").replace(",}", "}").replace(",]", "]")
}

fn cut(s: String) -> String {
    if s.chars().count() > 90 {
        format!("{}…", s.chars().take(90).collect::<String>())
    } else {
        s
    }
}

fn lean_str(s: &str) -> String {
    let mut o = String::from("\"");
    for c in s.chars() {
        match c {
            '"' => o.push_str("\\\""),
            '\\' => o.push_str("\\\\"),
            '\n' => o.push_str("\\n"),
            '\t' => o.push_str("\\t"),
            '\r' => o.push_str("\\r"),
            c => o.push(c),
        }
    }
    o.push('"');
    o
}

fn lean_list(xs: &[String]) -> String {
    format!("[{}]", xs.iter().map(|s| lean_str(s)).collect::<Vec<_>>().join(", "))
}

fn lean_pairs(xs: &[(String, String)]) -> String {
    format!("[{}]", xs.iter().map(|(a, b)| format!("({}, {})", lean_str(a), lean_str(b))).collect::<Vec<_>>().join(", "))
}

// ------------------------------------------------------------ attributes

fn is_cfg(a: &syn::Attribute) -> bool {
    a.path().is_ident("cfg")
}

/// `#[cfg(feature = "verif-hooks")]` (also inside `all(…)`): not compiled into the product
fn hook_only(attrs: &[syn::Attribute]) -> bool {
    attrs.iter().any(|a| {
        let t = sq(a);
        is_cfg(a) && t.contains("feature=\"verif-hooks\"") && !t.contains("not(feature=\"verif-hooks\")")
    })
}

fn test_only(attrs: &[syn::Attribute]) -> bool {
    attrs.iter().any(|a| {
        let t = sq(a);
        is_cfg(a) && (t == "#[cfg(test)]" || t.contains("(test,") || t.contains(",test)") || t.contains(",test,")) && !t.contains("not(test")
    })
}

fn skip(attrs: &[syn::Attribute]) -> bool {
    hook_only(attrs) || test_only(attrs)
}

fn expr_attrs(e: &syn::Expr) -> &[syn::Attribute] {
    use syn::Expr::*;
    match e {
        Array(x) => &x.attrs, Assign(x) => &x.attrs, Binary(x) => &x.attrs, Block(x) => &x.attrs, Break(x) => &x.attrs,
        Call(x) => &x.attrs, Cast(x) => &x.attrs, Closure(x) => &x.attrs, Continue(x) => &x.attrs, Field(x) => &x.attrs,
        ForLoop(x) => &x.attrs, If(x) => &x.attrs, Index(x) => &x.attrs, Let(x) => &x.attrs, Lit(x) => &x.attrs,
        Loop(x) => &x.attrs, Macro(x) => &x.attrs, Match(x) => &x.attrs, MethodCall(x) => &x.attrs, Paren(x) => &x.attrs,
        Path(x) => &x.attrs, Reference(x) => &x.attrs, Return(x) => &x.attrs, Struct(x) => &x.attrs, Try(x) => &x.attrs,
        Tuple(x) => &x.attrs, Unary(x) => &x.attrs, Unsafe(x) => &x.attrs, While(x) => &x.attrs, _ => &[],
    }
}

fn item_attrs(i: &syn::Item) -> &[syn::Attribute] {
    use syn::Item::*;
    match i {
        Const(x) => &x.attrs, Enum(x) => &x.attrs, Fn(x) => &x.attrs, Impl(x) => &x.attrs, Macro(x) => &x.attrs,
        Mod(x) => &x.attrs, Static(x) => &x.attrs, Struct(x) => &x.attrs, Trait(x) => &x.attrs, Type(x) => &x.attrs,
        Use(x) => &x.attrs, _ => &[],
    }
}

fn stmt_hooked(s: &syn::Stmt) -> bool {
    match s {
        syn::Stmt::Local(l) => hook_only(&l.attrs),
        syn::Stmt::Item(i) => hook_only(item_attrs(i)),
        syn::Stmt::Expr(e, _) => hook_only(expr_attrs(e)),
        syn::Stmt::Macro(m) => hook_only(&m.attrs),
    }
}

struct Strip;
impl VisitMut for Strip {
    fn visit_block_mut(&mut self, b: &mut syn::Block) {
        b.stmts.retain(|s| !stmt_hooked(s));
        syn::visit_mut::visit_block_mut(self, b);
    }
    fn visit_expr_match_mut(&mut self, m: &mut syn::ExprMatch) {
        m.arms.retain(|a| !hook_only(&a.attrs));
        syn::visit_mut::visit_expr_match_mut(self, m);
    }
}

// ------------------------------------------------------------ functions

pub(super) struct FnInfo {
    file: &'static str,
    owner: Option<String>,
    name: String,
    sig: syn::Signature,
    /// body without hook statements, locals NOT renamed (section A works on this)
    block: syn::Block,
}

fn collect_fns(file: &'static str, items: &[syn::Item], out: &mut Vec<FnInfo>) {
    let mk = |owner: Option<String>, sig: &syn::Signature, block: &syn::Block| {
        let mut b = block.clone();
        Strip.visit_block_mut(&mut b);
        FnInfo { file, owner, name: sig.ident.to_string(), sig: sig.clone(), block: b }
    };
    for it in items {
        match it {
            syn::Item::Fn(f) if !skip(&f.attrs) => out.push(mk(None, &f.sig, &f.block)),
            syn::Item::Impl(i) if !skip(&i.attrs) && i.trait_.is_none() => {
                let owner = match &*i.self_ty {
                    syn::Type::Path(tp) => tp.path.segments.last().map(|s| s.ident.to_string()),
                    _ => None,
                };
                let Some(owner) = owner else { continue };
                for ii in &i.items {
                    if let syn::ImplItem::Fn(f) = ii {
                        if !skip(&f.attrs) {
                            out.push(mk(Some(owner.clone()), &f.sig, &f.block));
                        }
                    }
                }
            }
            syn::Item::Mod(m) if !skip(&m.attrs) => {
                if let Some((_, items)) = &m.content {
                    collect_fns(file, items, out);
                }
            }
            _ => {}
        }
    }
}

fn get<'a>(fns: &'a [FnInfo], file: &str, owner: Option<&str>, name: &str) -> Result<&'a FnInfo, String> {
    let v: Vec<&FnInfo> = fns.iter().filter(|f| f.file == file && f.owner.as_deref() == owner && f.name == name).collect();
    match v.len() {
        1 => Ok(v[0]),
        n => Err(format!("{file}: function {}{name}: {n} definitions found", owner.map(|o| format!("{o}::")).unwrap_or_default())),
    }
}

// ------------------------------------------------------------ macros

struct MatchesArgs {
    expr: syn::Expr,
    pat: syn::Pat,
    guard: Option<syn::Expr>,
}

impl syn::parse::Parse for MatchesArgs {
    fn parse(input: syn::parse::ParseStream) -> syn::Result<Self> {
        let expr: syn::Expr = input.parse()?;
        input.parse::<syn::Token![,]>()?;
        let pat = syn::Pat::parse_multi_with_leading_vert(input)?;
        let guard = if input.peek(syn::Token![if]) {
            input.parse::<syn::Token![if]>()?;
            Some(input.parse::<syn::Expr>()?)
        } else {
            None
        };
        let _ = input.parse::<Option<syn::Token![,]>>()?;
        if !input.is_empty() {
            return Err(input.error("trailing tokens in matches!"));
        }
        Ok(MatchesArgs { expr, pat, guard })
    }
}

fn macro_name(m: &syn::Macro) -> String {
    m.path.segments.last().map(|s| s.ident.to_string()).unwrap_or_default()
}

fn expr_list(m: &syn::Macro) -> Option<Vec<syn::Expr>> {
    m.parse_body_with(syn::punctuated::Punctuated::<syn::Expr, syn::Token![,]>::parse_terminated)
        .ok()
        .map(|p| p.into_iter().collect())
}

const PANIC_MACROS: &[&str] = &[
    "unreachable", "todo", "panic", "unimplemented", "assert", "assert_eq", "assert_ne", "debug_assert", "debug_assert_eq",
    "debug_assert_ne",
];
const EXPR_MACROS: &[&str] = &["format", "write", "writeln", "print", "println", "eprint", "eprintln", "vec", "dbg", "format_args"];

// ------------------------------------------------------------ renaming of locals

const KEPT_NAMES: &[&str] = &["parser", "p"];

fn local_shaped(n: &str) -> bool {
    n != "self"
        && !KEPT_NAMES.contains(&n)
        && n.chars().next().map(|c| c.is_ascii_lowercase() || c == '_').unwrap_or(false)
}

/// pass 1 (`collect`): the names bound by patterns; pass 2: rename them `v<i>`
struct Ren {
    collect: bool,
    locals: BTreeSet<String>,
    order: Vec<String>,
}

impl Ren {
    fn new_name(&mut self, n: &str) -> String {
        let i = match self.order.iter().position(|x| x == n) {
            Some(i) => i,
            None => {
                self.order.push(n.to_string());
                self.order.len() - 1
            }
        };
        format!("v{i}")
    }
}

impl VisitMut for Ren {
    fn visit_pat_ident_mut(&mut self, p: &mut syn::PatIdent) {
        let n = p.ident.to_string();
        if local_shaped(&n) {
            if self.collect {
                self.locals.insert(n);
            } else {
                p.ident = syn::Ident::new(&self.new_name(&n), p.ident.span());
            }
        }
        if let Some((_, sub)) = &mut p.subpat {
            self.visit_pat_mut(sub);
        }
    }
    fn visit_expr_path_mut(&mut self, e: &mut syn::ExprPath) {
        if !self.collect && e.qself.is_none() && e.path.leading_colon.is_none() && e.path.segments.len() == 1 {
            let seg = &mut e.path.segments[0];
            let n = seg.ident.to_string();
            if seg.arguments.is_none() && self.locals.contains(&n) {
                seg.ident = syn::Ident::new(&self.new_name(&n), seg.ident.span());
            }
        }
    }
    fn visit_field_value_mut(&mut self, f: &mut syn::FieldValue) {
        if !self.collect && f.colon_token.is_none() {
            f.colon_token = Some(Default::default());
        }
        self.visit_expr_mut(&mut f.expr);
    }
    fn visit_field_pat_mut(&mut self, f: &mut syn::FieldPat) {
        if !self.collect && f.colon_token.is_none() {
            f.colon_token = Some(Default::default());
        }
        self.visit_pat_mut(&mut f.pat);
    }
    fn visit_macro_mut(&mut self, m: &mut syn::Macro) {
        let name = macro_name(m);
        if name == "matches" {
            if let Ok(mut a) = m.parse_body::<MatchesArgs>() {
                self.visit_expr_mut(&mut a.expr);
                self.visit_pat_mut(&mut a.pat);
                if let Some(g) = &mut a.guard {
                    self.visit_expr_mut(g);
                }
                if !self.collect {
                    let (e, p) = (&a.expr, &a.pat);
                    m.tokens = match &a.guard {
                        Some(g) => quote::quote!(#e, #p if #g),
                        None => quote::quote!(#e, #p),
                    };
                }
            }
        } else if PANIC_MACROS.contains(&name.as_str()) || EXPR_MACROS.contains(&name.as_str()) {
            if let Some(mut args) = expr_list(m) {
                for a in &mut args {
                    self.visit_expr_mut(a);
                }
                if !self.collect {
                    m.tokens = quote::quote!(#(#args),*);
                }
            }
        }
    }
}

/// the body with locals renamed (parameters first)
fn renamed(f: &FnInfo) -> syn::Block {
    let mut sig = f.sig.clone();
    let mut block = f.block.clone();
    let mut r = Ren { collect: true, locals: BTreeSet::new(), order: vec![] };
    for a in &mut sig.inputs {
        if let syn::FnArg::Typed(t) = a {
            r.visit_pat_mut(&mut t.pat);
        }
    }
    r.visit_block_mut(&mut block);
    r.collect = false;
    let mut sig = f.sig.clone();
    let mut block = f.block.clone();
    for a in &mut sig.inputs {
        if let syn::FnArg::Typed(t) = a {
            r.visit_pat_mut(&mut t.pat);
        }
    }
    r.visit_block_mut(&mut block);
    block
}

// ------------------------------------------------------------ skeleton (section B)

#[derive(Default)]
struct Skel {
    out: Vec<String>,
    err: Option<String>,
}

fn strip_paren(e: &syn::Expr) -> &syn::Expr {
    match e {
        syn::Expr::Paren(p) => strip_paren(&p.expr),
        syn::Expr::Group(g) => strip_paren(&g.expr),
        _ => e,
    }
}

/// `self` / `parser` / `p`, or one field of them (`self.lexer`, `self.spans`, `self.peeked`, `self.0`, `p.lexer`)
fn root_recv(e: &syn::Expr) -> bool {
    fn root(e: &syn::Expr) -> bool {
        matches!(strip_paren(e), syn::Expr::Path(p) if p.path.segments.len() == 1
            && ["self", "parser", "p"].contains(&p.path.segments[0].ident.to_string().as_str()))
    }
    match strip_paren(e) {
        syn::Expr::Field(f) => root(&f.base),
        other => root(other),
    }
}

fn path_segs(p: &syn::Path) -> Vec<String> {
    p.segments.iter().map(|s| s.ident.to_string()).collect()
}

fn lower_start(s: &str) -> bool {
    s.chars().next().map(|c| c.is_ascii_lowercase() || c == '_').unwrap_or(false)
}

/// an argument: `&x`, `&mut x`, `x.clone()`, `&x.y` are written like `x` / `x.y` (x a local)
fn arg_str(a: &syn::Expr) -> String {
    fn local_place(e: &syn::Expr) -> bool {
        match strip_paren(e) {
            syn::Expr::Path(p) => p.path.segments.len() == 1 && lower_start(&p.path.segments[0].ident.to_string()) && p.path.segments[0].ident != "self",
            syn::Expr::Field(f) => local_place(&f.base),
            _ => false,
        }
    }
    let mut e = strip_paren(a);
    loop {
        match e {
            syn::Expr::Reference(r) => e = strip_paren(&r.expr),
            syn::Expr::MethodCall(m) if m.method == "clone" && m.args.is_empty() => e = strip_paren(&m.receiver),
            _ => break,
        }
    }
    if local_place(e) { sq(e) } else { sq(a) }
}

impl Skel {
    fn push(&mut self, s: impl Into<String>) {
        self.out.push(cut(s.into()));
    }
    fn fail(&mut self, s: String) {
        if self.err.is_none() {
            self.err = Some(s);
        }
    }
    /// a controlling expression that is one recorded call (or `matches!`) is already
    /// in the skeleton with its arguments; anything else is written out
    fn transparent(e: &syn::Expr) -> bool {
        match strip_paren(e) {
            syn::Expr::Try(t) => Self::transparent(&t.expr),
            syn::Expr::MethodCall(m) => root_recv(&m.receiver),
            syn::Expr::Macro(m) => macro_name(&m.mac) == "matches",
            _ => false,
        }
    }
    fn cond(&mut self, e: &syn::Expr) {
        if !Self::transparent(e) {
            self.push(format!("cond:{}", sq(e)));
        }
    }
    fn do_macro(&mut self, m: &syn::Macro) {
        let name = macro_name(m);
        if name == "matches" {
            match m.parse_body::<MatchesArgs>() {
                Ok(a) => {
                    self.visit_expr(&a.expr);
                    self.cond(&a.expr);
                    match &a.guard {
                        None => self.push(format!("matches({})", sq(&a.pat))),
                        Some(g) => {
                            self.push(format!("matches({}if{})", sq(&a.pat), sq(g)));
                            self.visit_expr(g);
                        }
                    }
                }
                Err(_) => self.push(format!("matches({})", sq(&m.tokens))),
            }
        } else if PANIC_MACROS.contains(&name.as_str()) || EXPR_MACROS.contains(&name.as_str()) {
            match expr_list(m) {
                Some(args) => {
                    for a in &args {
                        self.visit_expr(a);
                    }
                }
                None => self.fail(format!("macro `{name}!` with arguments outside the subset: {}", sq(&m.tokens))),
            }
            if PANIC_MACROS.contains(&name.as_str()) {
                self.push(format!("{name}!"));
            }
        } else {
            self.fail(format!("unknown macro `{}!`", sq(&m.path)));
        }
    }
}

impl<'ast> Visit<'ast> for Skel {
    fn visit_expr(&mut self, e: &'ast syn::Expr) {
        use syn::Expr::*;
        match e {
            Unsafe(_) | Async(_) | Await(_) | TryBlock(_) | Yield(_) | Verbatim(_) => {
                self.fail(format!("expression outside the subset: {}", cut(sq(e))));
            }
            _ => syn::visit::visit_expr(self, e),
        }
    }
    fn visit_item(&mut self, i: &'ast syn::Item) {
        match i {
            syn::Item::Use(_) | syn::Item::Const(_) => {}
            other => self.fail(format!("item inside a function body: {}", cut(sq(other)))),
        }
    }
    fn visit_macro(&mut self, m: &'ast syn::Macro) {
        self.do_macro(m);
    }
    fn visit_local(&mut self, l: &'ast syn::Local) {
        if let Some(init) = &l.init {
            self.visit_expr(&init.expr);
            if let Some((_, d)) = &init.diverge {
                self.cond(&init.expr);
                self.push(format!("letelse({})", sq(&l.pat)));
                self.visit_expr(d);
                self.push("endletelse");
            }
        }
    }
    fn visit_expr_method_call(&mut self, m: &'ast syn::ExprMethodCall) {
        self.visit_expr(&m.receiver);
        for a in &m.args {
            self.visit_expr(a);
        }
        let name = m.method.to_string();
        if root_recv(&m.receiver) {
            let tf = m.turbofish.as_ref().map(|t| sq(t)).unwrap_or_default();
            let args: Vec<String> = m.args.iter().map(arg_str).collect();
            self.push(format!("{}.{name}{tf}({})", sq(&m.receiver), args.join(",")));
        } else {
            match name.as_str() {
                "unwrap" => self.push(".unwrap()"),
                "expect" => self.push(".expect"),
                "first" => self.push(".first()"),
                "last" => self.push(".last()"),
                "merge" => self.push(".merge"),
                _ => {}
            }
        }
    }
    fn visit_expr_call(&mut self, c: &'ast syn::ExprCall) {
        self.visit_expr(&c.func);
        for a in &c.args {
            self.visit_expr(a);
        }
        let args = || c.args.iter().map(arg_str).collect::<Vec<_>>().join(",");
        match strip_paren(&c.func) {
            syn::Expr::Path(p) => {
                let segs = path_segs(&p.path);
                let n = segs.len();
                let last = segs[n - 1].clone();
                if n >= 2 && segs[n - 2] == "ParseError" {
                    self.push(format!("error:{last}"));
                } else if n >= 2 && segs[n - 2] == "Span" && last == "new" {
                    self.push("Span::new");
                } else if (segs[0] == "Self" && n >= 2 && lower_start(&last)) || (n == 1 && lower_start(&last)) || (n >= 2 && lower_start(&segs[0]) && lower_start(&last)) {
                    self.push(format!("call:{}({})", sq(&p.path), args()));
                }
            }
            other => self.push(format!("call:{}({})", sq(other), args())),
        }
    }
    fn visit_expr_struct(&mut self, s: &'ast syn::ExprStruct) {
        syn::visit::visit_expr_struct(self, s);
        if s.path.segments.last().map(|x| x.ident == "ParseError").unwrap_or(false) {
            let kind = s.fields.iter().find(|f| sq(&f.member) == "kind").map(|f| sq(&f.expr));
            match kind.as_deref().and_then(|k| k.strip_prefix("ParseErrorKind::")) {
                Some(k) if k.chars().all(|c| c.is_ascii_alphanumeric()) => self.push(format!("error:{k}")),
                _ => self.fail(format!("ParseError literal whose kind is not `ParseErrorKind::X`: {}", cut(sq(s)))),
            }
        }
    }
    fn visit_expr_try(&mut self, t: &'ast syn::ExprTry) {
        self.visit_expr(&t.expr);
        self.push("?");
    }
    fn visit_expr_index(&mut self, i: &'ast syn::ExprIndex) {
        self.visit_expr(&i.expr);
        self.visit_expr(&i.index);
        self.push(format!("index:{}", sq(i)));
    }
    fn visit_expr_binary(&mut self, b: &'ast syn::ExprBinary) {
        self.visit_expr(&b.left);
        self.visit_expr(&b.right);
        if matches!(b.op, syn::BinOp::Sub(_) | syn::BinOp::SubAssign(_)) {
            self.push(format!("sub:{}", sq(b)));
        }
    }
    fn visit_expr_if(&mut self, i: &'ast syn::ExprIf) {
        match &*i.cond {
            syn::Expr::Let(l) => {
                self.visit_expr(&l.expr);
                self.cond(&l.expr);
                self.push(format!("iflet({})", sq(&l.pat)));
            }
            c => {
                self.visit_expr(c);
                self.cond(c);
                self.push("if");
            }
        }
        self.visit_block(&i.then_branch);
        if let Some((_, e)) = &i.else_branch {
            self.push("else");
            self.visit_expr(e);
        }
        self.push("endif");
    }
    fn visit_expr_let(&mut self, l: &'ast syn::ExprLet) {
        // a `let` inside a chain (`a && let P = e`): the whole condition is written by `cond`
        self.visit_expr(&l.expr);
    }
    fn visit_expr_while(&mut self, w: &'ast syn::ExprWhile) {
        match &*w.cond {
            syn::Expr::Let(l) => {
                self.visit_expr(&l.expr);
                self.cond(&l.expr);
                self.push(format!("whilelet({})", sq(&l.pat)));
            }
            c => {
                self.visit_expr(c);
                self.cond(c);
                self.push("while");
            }
        }
        self.visit_block(&w.body);
        self.push("endwhile");
    }
    fn visit_expr_loop(&mut self, l: &'ast syn::ExprLoop) {
        self.push("loop");
        self.visit_block(&l.body);
        self.push("endloop");
    }
    fn visit_expr_for_loop(&mut self, f: &'ast syn::ExprForLoop) {
        self.visit_expr(&f.expr);
        self.cond(&f.expr);
        self.push("for");
        self.visit_block(&f.body);
        self.push("endfor");
    }
    fn visit_expr_match(&mut self, m: &'ast syn::ExprMatch) {
        self.visit_expr(&m.expr);
        self.cond(&m.expr);
        self.push("match");
        for a in &m.arms {
            match &a.guard {
                None => self.push(format!("arm({})", sq(&a.pat))),
                Some((_, g)) => {
                    self.push(format!("arm({}if{})", sq(&a.pat), sq(g)));
                    self.visit_expr(g);
                }
            }
            self.visit_expr(&a.body);
        }
        self.push("endmatch");
    }
    fn visit_expr_closure(&mut self, c: &'ast syn::ExprClosure) {
        self.push("closure");
        self.visit_expr(&c.body);
        self.push("endclosure");
    }
    fn visit_expr_return(&mut self, r: &'ast syn::ExprReturn) {
        syn::visit::visit_expr_return(self, r);
        self.push("return");
    }
    fn visit_expr_break(&mut self, b: &'ast syn::ExprBreak) {
        syn::visit::visit_expr_break(self, b);
        self.push("break");
    }
    fn visit_expr_continue(&mut self, _c: &'ast syn::ExprContinue) {
        self.push("continue");
    }
}

fn skel_block(b: &syn::Block) -> Result<Vec<String>, String> {
    let mut s = Skel::default();
    s.visit_block(b);
    match s.err {
        Some(e) => Err(e),
        None => Ok(s.out),
    }
}

fn skel_expr(e: &syn::Expr) -> Result<Vec<String>, String> {
    let mut s = Skel::default();
    s.visit_expr(e);
    match s.err {
        Some(e) => Err(e),
        None => Ok(s.out),
    }
}

// ------------------------------------------------------------ token names (section A)

struct Vocab {
    /// `Token` variants with the number of payload fields (0 = unit)
    tokens: Vec<(String, usize)>,
    keywords: Vec<String>,
}

impl Vocab {
    fn load(repo: &Path) -> Result<Vocab, String> {
        let file = find::parse(repo, "src/parser/token.rs")?;
        let mut tokens = vec![];
        let mut n = 0;
        for it in &file.items {
            if let syn::Item::Enum(e) = it {
                if e.ident == "Token" {
                    n += 1;
                    for v in &e.variants {
                        let arity = match &v.fields {
                            syn::Fields::Unit => 0,
                            syn::Fields::Unnamed(u) => u.unnamed.len(),
                            syn::Fields::Named(_) => return Err(format!("Token::{} has named fields", v.ident)),
                        };
                        tokens.push((v.ident.to_string(), arity));
                    }
                }
            }
        }
        if n != 1 {
            return Err(format!("src/parser/token.rs: {n} definitions of enum Token"));
        }
        let keywords = find::enum_variants(&file, "Keyword")?;
        if tokens.iter().find(|t| t.0 == "Keyword").map(|t| t.1) != Some(1) {
            return Err("Token::Keyword is not a one-field variant".into());
        }
        Ok(Vocab { tokens, keywords })
    }
    fn arity(&self, v: &str) -> Result<usize, String> {
        self.tokens.iter().find(|t| t.0 == v).map(|t| t.1).ok_or_else(|| format!("`{v}` is not a variant of Token"))
    }
    fn kw(&self, k: &str) -> Result<String, String> {
        if self.keywords.iter().any(|x| x == k) {
            Ok(format!("Keyword({k})"))
        } else {
            Err(format!("`{k}` is not a variant of Keyword"))
        }
    }
    fn variant_of(p: &syn::Path, ty: &str) -> Result<String, String> {
        let segs = path_segs(p);
        match segs.as_slice() {
            [t, v] if t == ty => Ok(v.clone()),
            _ => Err(format!("expected `{ty}::<Variant>`, found `{}`", sq(p))),
        }
    }
    fn kw_pat(&self, p: &syn::Pat, out: &mut Vec<String>) -> Result<(), String> {
        match p {
            syn::Pat::Or(o) => o.cases.iter().try_for_each(|c| self.kw_pat(c, out)),
            syn::Pat::Paren(p) => self.kw_pat(&p.pat, out),
            syn::Pat::Path(pp) => {
                out.push(self.kw(&Self::variant_of(&pp.path, "Keyword")?)?);
                Ok(())
            }
            syn::Pat::Wild(_) => {
                out.push("Keyword".into());
                Ok(())
            }
            syn::Pat::Ident(i) if i.subpat.is_none() && lower_start(&i.ident.to_string()) => {
                out.push("Keyword".into());
                Ok(())
            }
            other => Err(format!("keyword pattern outside the subset: {}", sq(other))),
        }
    }
    /// token names of a pattern over `Token`, or-patterns flattened in source order
    fn pat(&self, p: &syn::Pat, out: &mut Vec<String>) -> Result<(), String> {
        match p {
            syn::Pat::Or(o) => o.cases.iter().try_for_each(|c| self.pat(c, out)),
            syn::Pat::Paren(p) => self.pat(&p.pat, out),
            syn::Pat::Reference(r) => self.pat(&r.pat, out),
            syn::Pat::Path(pp) => {
                let v = Self::variant_of(&pp.path, "Token")?;
                if self.arity(&v)? != 0 {
                    return Err(format!("Token::{v} has a payload but the pattern has none"));
                }
                out.push(v);
                Ok(())
            }
            syn::Pat::TupleStruct(ts) => {
                let v = Self::variant_of(&ts.path, "Token")?;
                let ar = self.arity(&v)?;
                if ar == 0 {
                    return Err(format!("Token::{v} is a unit variant but the pattern has a payload"));
                }
                if v == "Keyword" {
                    if ts.elems.len() != 1 {
                        return Err(format!("pattern outside the subset: {}", sq(ts)));
                    }
                    return self.kw_pat(&ts.elems[0], out);
                }
                let mut rest = false;
                for e in &ts.elems {
                    match e {
                        syn::Pat::Wild(_) => {}
                        syn::Pat::Rest(_) => rest = true,
                        syn::Pat::Ident(i) if i.subpat.is_none() && lower_start(&i.ident.to_string()) => {}
                        other => return Err(format!("pattern `{}` looks at the token's text (`{}`)", sq(ts), sq(other))),
                    }
                }
                if !rest && ts.elems.len() != ar {
                    return Err(format!("pattern `{}`: Token::{v} has {ar} fields", sq(ts)));
                }
                out.push(v);
                Ok(())
            }
            other => Err(format!("token pattern outside the subset: {}", sq(other))),
        }
    }
    fn pat_names(&self, p: &syn::Pat) -> Result<Vec<String>, String> {
        let mut v = vec![];
        self.pat(p, &mut v)?;
        Ok(v)
    }
    fn pat_one(&self, p: &syn::Pat) -> Result<String, String> {
        let v = self.pat_names(p)?;
        match v.len() {
            1 => Ok(v.into_iter().next().unwrap()),
            _ => Err(format!("expected a pattern for one token, found {}", sq(p))),
        }
    }
    /// token name of an expression `Token::X` / `Token::Keyword(Keyword::K)`
    fn expr(&self, e: &syn::Expr) -> Result<String, String> {
        match strip_paren(e) {
            syn::Expr::Reference(r) => self.expr(&r.expr),
            syn::Expr::Path(p) => {
                let v = Self::variant_of(&p.path, "Token")?;
                if self.arity(&v)? != 0 {
                    return Err(format!("Token::{v} has a payload"));
                }
                Ok(v)
            }
            syn::Expr::Call(c) => {
                let syn::Expr::Path(f) = strip_paren(&c.func) else {
                    return Err(format!("token expression outside the subset: {}", sq(e)));
                };
                if Self::variant_of(&f.path, "Token")? != "Keyword" || c.args.len() != 1 {
                    return Err(format!("token expression outside the subset (a token with a payload is compared by value): {}", sq(e)));
                }
                match strip_paren(&c.args[0]) {
                    syn::Expr::Path(k) => self.kw(&Self::variant_of(&k.path, "Keyword")?),
                    other => Err(format!("keyword expression outside the subset: {}", sq(other))),
                }
            }
            other => Err(format!("token expression outside the subset: {}", sq(other))),
        }
    }
    /// `self.<method>(<token>)` → token name
    fn self_tok_call(&self, e: &syn::Expr, method: &str) -> Result<String, String> {
        match strip_paren(e) {
            syn::Expr::MethodCall(m) if sq(&m.receiver) == "self" && m.method == method && m.args.len() == 1 => self.expr(&m.args[0]),
            other => Err(format!("expected `self.{method}(Token::…)`, found `{}`", cut(sq(other)))),
        }
    }
}

/// `Some(P)` → `P`
fn some_inner(p: &syn::Pat) -> Result<&syn::Pat, String> {
    match p {
        syn::Pat::TupleStruct(ts) if sq(&ts.path) == "Some" && ts.elems.len() == 1 => Ok(&ts.elems[0]),
        syn::Pat::Paren(p) => some_inner(&p.pat),
        other => Err(format!("expected `Some(…)`, found {}", sq(other))),
    }
}

struct Collect {
    matches: Vec<syn::ExprMatch>,
    macros: Vec<syn::Macro>,
}
impl<'ast> Visit<'ast> for Collect {
    fn visit_expr_match(&mut self, m: &'ast syn::ExprMatch) {
        self.matches.push(m.clone());
        syn::visit::visit_expr_match(self, m);
    }
    fn visit_macro(&mut self, m: &'ast syn::Macro) {
        self.macros.push(m.clone());
    }
}

fn all_matches(b: &syn::Block) -> Vec<syn::ExprMatch> {
    let mut c = Collect { matches: vec![], macros: vec![] };
    c.visit_block(b);
    c.matches
}

fn all_macros(b: &syn::Block) -> Vec<syn::Macro> {
    let mut c = Collect { matches: vec![], macros: vec![] };
    c.visit_block(b);
    c.macros
}

fn only_match(f: &FnInfo) -> Result<syn::ExprMatch, String> {
    let ms = all_matches(&f.block);
    match ms.len() {
        1 => Ok(ms.into_iter().next().unwrap()),
        n => Err(format!("{}: expected one `match`, found {n}", f.name)),
    }
}

fn no_guards(m: &syn::ExprMatch, what: &str) -> Result<(), String> {
    for a in &m.arms {
        if a.guard.is_some() {
            return Err(format!("{what}: guarded arm `{}`", sq(&a.pat)));
        }
    }
    Ok(())
}

fn is_catch_all(p: &syn::Pat) -> bool {
    match p {
        syn::Pat::Wild(_) => true,
        syn::Pat::Ident(i) => i.subpat.is_none() && lower_start(&i.ident.to_string()),
        _ => false,
    }
}

/// the arm reports `expected …` and leaves the function
fn is_expected_error(body: &syn::Expr, what: &str) -> Result<(), String> {
    let sk = skel_expr(body)?;
    if sk.iter().any(|s| s == "error:expected") && sk.last().map(|s| s == "return").unwrap_or(false) {
        Ok(())
    } else {
        Err(format!("{what}: the catch-all arm is not `return Err(ParseError::expected(…))`: {sk:?}"))
    }
}

/// `(conditions with their blocks, final else block)` of `if … else if … else …`
fn if_chain(i: &syn::ExprIf) -> Result<(Vec<(&syn::Expr, &syn::Block)>, Option<&syn::Block>), String> {
    let mut v = vec![];
    let mut cur = i;
    loop {
        v.push((&*cur.cond, &cur.then_branch));
        match &cur.else_branch {
            None => return Ok((v, None)),
            Some((_, e)) => match &**e {
                syn::Expr::If(n) => cur = n,
                syn::Expr::Block(b) => return Ok((v, Some(&b.block))),
                other => return Err(format!("else branch outside the subset: {}", cut(sq(other)))),
            },
        }
    }
}

fn top_ifs(b: &syn::Block) -> Vec<&syn::ExprIf> {
    b.stmts
        .iter()
        .filter_map(|s| match s {
            syn::Stmt::Expr(syn::Expr::If(i), _) => Some(i),
            _ => None,
        })
        .collect()
}

fn only_top_if<'a>(f: &'a FnInfo) -> Result<&'a syn::ExprIf, String> {
    let v = top_ifs(&f.block);
    match v.len() {
        1 => Ok(v[0]),
        n => Err(format!("{}: expected one top-level `if`, found {n}", f.name)),
    }
}

/// `matches!(self.peek(), Some(P))` → token names of P
fn matches_peek(v: &Vocab, e: &syn::Expr, what: &str) -> Result<Vec<String>, String> {
    let syn::Expr::Macro(m) = strip_paren(e) else {
        return Err(format!("{what}: expected `matches!(self.peek(), Some(…))`, found {}", cut(sq(e))));
    };
    if macro_name(&m.mac) != "matches" {
        return Err(format!("{what}: expected `matches!`, found `{}!`", macro_name(&m.mac)));
    }
    let a = m.mac.parse_body::<MatchesArgs>().map_err(|e| format!("{what}: matches!: {e}"))?;
    if sq(&a.expr) != "self.peek()" || a.guard.is_some() {
        return Err(format!("{what}: `matches!` is not over `self.peek()` / has a guard"));
    }
    v.pat_names(some_inner(&a.pat)?)
}

// ------------------------------------------------------------ the target

const MOD: &str = "src/parser/mod.rs";
const EXPR: &str = "src/parser/expr.rs";
const FILTER_MAP: &str = "src/parser/filter_map.rs";
const SIGNATURE: &str = "src/parser/signature.rs";
const LEXER: &str = "src/parser/lexer.rs";
const META: &str = "src/parser/meta.rs";

const PARSER_FILES: &[&str] = &[MOD, EXPR, FILTER_MAP, SIGNATURE];

/// every method of `impl Parser` (a method that is not listed here is an extraction failure)
const PARSER_METHODS: &[(&str, &str)] = &[
    (MOD, "next"), (MOD, "next_is"), (MOD, "peek"), (MOD, "peek_many"), (MOD, "peek_is"), (MOD, "take"), (MOD, "separated"),
    (MOD, "parse"), (MOD, "run_parser"), (MOD, "tree"), (MOD, "root"), (MOD, "constant"), (MOD, "function"), (MOD, "test"),
    (MOD, "import"), (MOD, "identifier"), (MOD, "add_span"), (MOD, "get_span"), (MOD, "merge_spans"),
    (EXPR, "block"), (EXPR, "expr"), (EXPR, "expr_no_records"), (EXPR, "expr_inner"), (EXPR, "assign_expr"),
    (EXPR, "compound_assign_expr"), (EXPR, "binop_expr"), (EXPR, "peek_binop"), (EXPR, "negation"), (EXPR, "access"),
    (EXPR, "atom"), (EXPR, "can_start_expression"), (EXPR, "if_else"), (EXPR, "while_expr"), (EXPR, "for_expr"),
    (EXPR, "match_expr"), (EXPR, "literal"), (EXPR, "ip_address"), (EXPR, "simple_literal"), (EXPR, "record"), (EXPR, "args"),
    (EXPR, "type_expr"), (EXPR, "type_expr_atom"), (EXPR, "record_type"), (EXPR, "record_field"), (EXPR, "path"),
    (EXPR, "path_expr"), (EXPR, "path_list"), (EXPR, "path_item"), (EXPR, "f_string"),
    (FILTER_MAP, "filter_map"), (FILTER_MAP, "params"), (FILTER_MAP, "type_ident_field"), (FILTER_MAP, "type_parameters"),
    (FILTER_MAP, "record_type_assignment"), (FILTER_MAP, "enum_declaration"), (FILTER_MAP, "enum_variant"),
    (SIGNATURE, "parse_signature"), (SIGNATURE, "signature"),
];

/// (file, owner, function, Lean name) of the other skeletons
const OTHER_FNS: &[(&str, Option<&str>, &str, &str)] = &[
    (EXPR, None, "unescape_char", "skel_unescape_char"),
    (EXPR, None, "unescape_f_string_part", "skel_unescape_f_string_part"),
    (EXPR, None, "unescape_str", "skel_unescape_str"),
    (LEXER, Some("Lexer"), "next", "skel_Lexer_next"),
    (LEXER, Some("Lexer"), "peek", "skel_Lexer_peek"),
    (LEXER, Some("Lexer"), "peek_many", "skel_Lexer_peek_many"),
    (META, Some("Spans"), "add", "skel_Spans_add"),
    (META, Some("Spans"), "get", "skel_Spans_get"),
    (META, Some("Spans"), "merge", "skel_Spans_merge"),
    (META, Some("Span"), "merge", "skel_Span_merge"),
];

fn variant_expr(e: &syn::Expr, ty: &str, what: &str) -> Result<String, String> {
    match strip_paren(e) {
        syn::Expr::Path(p) => Vocab::variant_of(&p.path, ty).map_err(|e| format!("{what}: {e}")),
        syn::Expr::Block(b) if b.block.stmts.len() == 1 => match &b.block.stmts[0] {
            syn::Stmt::Expr(inner, None) => variant_expr(inner, ty, what),
            _ => Err(format!("{what}: expected `{ty}::<Variant>`, found {}", cut(sq(e)))),
        },
        other => Err(format!("{what}: expected `{ty}::<Variant>`, found {}", cut(sq(other)))),
    }
}

/// arms `Token::… => <Ty>::V`, catch-all checked by `wild`
fn token_table(v: &Vocab, m: &syn::ExprMatch, ty: &str, what: &str, wild: &dyn Fn(&syn::Expr) -> Result<(), String>) -> Result<Vec<(String, String)>, String> {
    no_guards(m, what)?;
    let mut out = vec![];
    let mut seen_wild = false;
    for (i, a) in m.arms.iter().enumerate() {
        if is_catch_all(&a.pat) {
            if i != m.arms.len() - 1 {
                return Err(format!("{what}: catch-all arm is not the last one"));
            }
            wild(&a.body)?;
            seen_wild = true;
            continue;
        }
        let var = variant_expr(&a.body, ty, what)?;
        for n in v.pat_names(&a.pat).map_err(|e| format!("{what}: {e}"))? {
            out.push((n, var.clone()));
        }
    }
    if !seen_wild {
        return Err(format!("{what}: no catch-all arm"));
    }
    Ok(out)
}

/// accepting arms `Token::… => …` followed by a catch-all that reports `expected`
fn accepting_arms(v: &Vocab, m: &syn::ExprMatch, what: &str) -> Result<Vec<String>, String> {
    no_guards(m, what)?;
    let mut out = vec![];
    let n = m.arms.len();
    for (i, a) in m.arms.iter().enumerate() {
        if is_catch_all(&a.pat) {
            if i != n - 1 {
                return Err(format!("{what}: catch-all arm is not the last one"));
            }
            is_expected_error(&a.body, what)?;
            return Ok(out);
        }
        out.extend(v.pat_names(&a.pat).map_err(|e| format!("{what}: {e}"))?);
    }
    Err(format!("{what}: no catch-all arm"))
}

struct Def {
    doc: String,
    name: String,
    ty: &'static str,
    val: String,
}

fn section_a(v: &Vocab, fns: &[FnInfo]) -> Result<Vec<Def>, String> {
    let mut defs: Vec<Def> = vec![];
    let mut def = |name: &str, ty: &'static str, doc: &str, val: String| {
        defs.push(Def { doc: doc.to_string(), name: name.to_string(), ty, val });
    };
    let p = Some("Parser");

    // ---- can_start_expression
    {
        let f = get(fns, EXPR, p, "can_start_expression")?;
        let [syn::Stmt::Expr(syn::Expr::Macro(m), None)] = &f.block.stmts[..] else {
            return Err("can_start_expression: body is not one `matches!(…)`".into());
        };
        if macro_name(&m.mac) != "matches" {
            return Err("can_start_expression: body is not one `matches!(…)`".into());
        }
        let a = m.mac.parse_body::<MatchesArgs>().map_err(|e| format!("can_start_expression: {e}"))?;
        let param = f.sig.inputs.iter().map(|a| sq(a)).collect::<Vec<_>>();
        let [param] = &param[..] else {
            return Err("can_start_expression: expected one parameter".into());
        };
        let Some(pname) = param.strip_suffix(":&Token") else {
            return Err(format!("can_start_expression: parameter `{param}` is not `<name>: &Token`"));
        };
        if sq(&a.expr) != pname || a.guard.is_some() {
            return Err("can_start_expression: `matches!` is not over the parameter / has a guard".into());
        }
        def("canStartExpression", "List String", "`Parser::can_start_expression` (src/parser/expr.rs): the alternatives of its `matches!`", lean_list(&v.pat_names(&a.pat).map_err(|e| format!("can_start_expression: {e}"))?));
    }

    // ---- root
    {
        let f = get(fns, MOD, p, "root")?;
        let m = only_match(f)?;
        if !sq(&m.expr).starts_with("self.peek()") {
            return Err(format!("root: the match is over `{}`, expected `self.peek()…`", sq(&m.expr)));
        }
        no_guards(&m, "root")?;
        let mut rows = vec![];
        let mut wild = false;
        for (i, a) in m.arms.iter().enumerate() {
            if matches!(&a.pat, syn::Pat::Wild(_)) {
                if i != m.arms.len() - 1 {
                    return Err("root: `_` arm is not the last one".into());
                }
                let sk = skel_expr(&a.body)?;
                if sk != ["self.next()", "?", "error:expected", "return"] {
                    return Err(format!("root: the `_` arm is not `self.next()?` + `return Err(ParseError::expected(…))`: {sk:?}"));
                }
                wild = true;
                continue;
            }
            let sk = skel_expr(&a.body)?;
            let meth = match &sk[..] {
                [c, q] if q == "?" => c.strip_prefix("self.").and_then(|c| c.strip_suffix("()")).map(|s| s.to_string()),
                _ => None,
            };
            let Some(meth) = meth.filter(|m| m.chars().all(|c| c.is_ascii_alphanumeric() || c == '_')) else {
                return Err(format!("root: arm `{}` is not one `self.<method>()?`: {sk:?}", sq(&a.pat)));
            };
            for n in v.pat_names(&a.pat).map_err(|e| format!("root: {e}"))? {
                rows.push((n, meth.clone()));
            }
        }
        if !wild {
            return Err("root: no `_` arm".into());
        }
        def("rootItems", "List (String × String)", "`Parser::root` (src/parser/mod.rs): (token, method called on self in that arm); the `_` arm is `self.next()?` + `return Err(ParseError::expected(…))`", lean_pairs(&rows));
    }

    // ---- block
    {
        let f = get(fns, EXPR, p, "block")?;
        let loops: Vec<&syn::ExprLoop> = f
            .block
            .stmts
            .iter()
            .filter_map(|s| match s {
                syn::Stmt::Expr(syn::Expr::Loop(l), _) => Some(l),
                _ => None,
            })
            .collect();
        let [lp] = &loops[..] else {
            return Err(format!("block: expected one top-level `loop`, found {}", loops.len()));
        };
        for s in &lp.body.stmts {
            if !matches!(s, syn::Stmt::Expr(syn::Expr::If(_), _)) {
                return Err(format!("block: statement in the loop outside the subset: {}", cut(sq(s))));
            }
        }
        let ifs = top_ifs(&lp.body);
        let [first, second] = &ifs[..] else {
            return Err(format!("block: expected two `if` statements in the loop, found {}", ifs.len()));
        };
        let (c1, e1) = if_chain(first)?;
        if c1.len() != 1 || e1.is_some() || v.self_tok_call(c1[0].0, "peek_is")? != "CurlyRight" {
            return Err("block: the loop does not start with `if self.peek_is(Token::CurlyRight) { … }`".into());
        }
        let (c2, e2) = if_chain(second)?;
        if e2.is_none() {
            return Err("block: the statement chain has no final `else` (expression statement)".into());
        }
        let mut kws = vec![];
        for (c, _) in c2 {
            let t = v.self_tok_call(c, "peek_is").map_err(|e| format!("block: {e}"))?;
            match t.strip_prefix("Keyword(").and_then(|t| t.strip_suffix(')')) {
                Some(k) => kws.push(k.to_string()),
                None => return Err(format!("block: the statement chain tests `{t}`, not a keyword")),
            }
        }
        def("blockStmtKeywords", "List String", "`Parser::block` (src/parser/expr.rs): the keywords tested by the `if self.peek_is(Token::Keyword(Keyword::K))` chain inside the `loop`", lean_list(&kws));
    }

    // ---- atom
    {
        let f = get(fns, EXPR, p, "atom")?;
        let mut checks = vec![];
        let mut path_starts: Option<Vec<String>> = None;
        let mut curly: Option<&syn::ExprIf> = None;
        for i in top_ifs(&f.block) {
            if i.else_branch.is_some() {
                return Err("atom: a top-level `if` has an `else`".into());
            }
            match strip_paren(&i.cond) {
                syn::Expr::Let(l) => {
                    if sq(&l.expr) != "self.peek()" {
                        return Err(format!("atom: `if let` over `{}`", sq(&l.expr)));
                    }
                    let names = v.pat_names(some_inner(&l.pat)?).map_err(|e| format!("atom: {e}"))?;
                    checks.push(format!("peek:{}", names.join("|")));
                }
                syn::Expr::Macro(_) => {
                    let names = matches_peek(v, &i.cond, "atom")?;
                    checks.push(format!("matches:{}", names.join("|")));
                    if path_starts.replace(names).is_some() {
                        return Err("atom: two `if matches!(self.peek(), …)`".into());
                    }
                }
                c => {
                    let t = v.self_tok_call(c, "peek_is").map_err(|e| format!("atom: {e}"))?;
                    if t == "CurlyLeft" && curly.replace(i).is_some() {
                        return Err("atom: two `if self.peek_is(Token::CurlyLeft)`".into());
                    }
                    checks.push(t);
                }
            }
        }
        def("atomChecks", "List String", "`Parser::atom` (src/parser/expr.rs): what each top-level `if` tests, in order", lean_list(&checks));
        let path_starts = path_starts.ok_or("atom: no `if matches!(self.peek(), …)`")?;
        def("atomPathStarts", "List String", "`Parser::atom` (src/parser/expr.rs): the alternatives of `matches!(self.peek(), Some(…))` in front of `self.path()`", lean_list(&path_starts));

        // return kinds
        let ms: Vec<syn::ExprMatch> = all_matches(&f.block)
            .into_iter()
            .filter(|m| m.arms.first().map(|a| sq(&a.body).starts_with("ReturnKind::")).unwrap_or(false))
            .collect();
        let [m] = &ms[..] else {
            return Err(format!("atom: expected one match that yields a ReturnKind, found {}", ms.len()));
        };
        let rows = token_table(v, m, "ReturnKind", "atom (return kinds)", &|b| match strip_paren(b) {
            syn::Expr::Macro(mm) if macro_name(&mm.mac) == "unreachable" => Ok(()),
            other => Err(format!("atom (return kinds): the `_` arm is `{}`, not `unreachable!()`", cut(sq(other)))),
        })?;
        def("returnKinds", "List (String × String)", "`Parser::atom` (src/parser/expr.rs): the arms `Token::Keyword(Keyword::K) => ReturnKind::V`; the `_` arm is `unreachable!()`", lean_pairs(&rows));

        // record windows
        let curly = curly.ok_or("atom: no `if self.peek_is(Token::CurlyLeft)`")?;
        let mut windows: Vec<String> = vec![];
        for mac in all_macros(&curly.then_branch) {
            if macro_name(&mac) != "matches" {
                continue;
            }
            let a = mac.parse_body::<MatchesArgs>().map_err(|e| format!("atom: matches!: {e}"))?;
            let syn::Expr::MethodCall(call) = strip_paren(&a.expr) else { continue };
            if call.method != "peek_many" {
                continue;
            }
            let n: usize = match (&call.turbofish, sq(&call.receiver).as_str()) {
                (Some(t), "self") if t.args.len() == 1 => sq(&t.args[0]).parse().map_err(|_| format!("atom: window size `{}`", sq(t)))?,
                _ => return Err(format!("atom: `peek_many` call outside the subset: {}", sq(call))),
            };
            if a.guard.is_some() {
                return Err("atom: guarded `matches!(self.peek_many…)`".into());
            }
            let syn::Pat::Slice(sl) = some_inner(&a.pat)? else {
                return Err(format!("atom: window pattern is not `Some([…])`: {}", sq(&a.pat)));
            };
            let w = sl.elems.iter().map(|e| v.pat_one(e)).collect::<Result<Vec<_>, _>>().map_err(|e| format!("atom: {e}"))?;
            if w.len() != n {
                return Err(format!("atom: peek_many::<{n}> matched against {} patterns", w.len()));
            }
            windows.push(lean_list(&w));
        }
        let mentions = sq(&f.block).matches("peek_many").count();
        if windows.is_empty() || mentions != windows.len() {
            return Err(format!("atom: {mentions} mentions of `peek_many`, {} understood as windows of the `{{` branch", windows.len()));
        }
        def("recordWindows", "List (List String)", "`Parser::atom` (src/parser/expr.rs) on `{`: the `peek_many::<N>()` windows, in order", format!("[{}]", windows.join(", ")));
    }

    // ---- Lexer::peek_many
    {
        let f = get(fns, LEXER, Some("Lexer"), "peek_many")?;
        let Some(syn::Stmt::Expr(syn::Expr::ForLoop(fl), _)) = f.block.stmts.first() else {
            return Err("Lexer::peek_many does not start with the fill loop".into());
        };
        let mut stops = vec![];
        let mut phase = 0;
        for st in &fl.body.stmts {
            let t = sq(st);
            match (phase, st) {
                (0, syn::Stmt::Expr(syn::Expr::If(i), _)) => {
                    if i.else_branch.is_some() || sq(&i.then_branch) != "{returnNone;}" {
                        return Err(format!("Lexer::peek_many: unsupported guard in the fill loop: {t}"));
                    }
                    let pat = match strip_paren(&i.cond) {
                        syn::Expr::Let(l) if sq(&l.expr) == "self.peeked.back()" => (*l.pat).clone(),
                        syn::Expr::Macro(m) if macro_name(&m.mac) == "matches" => {
                            let a = m.mac.parse_body::<MatchesArgs>().map_err(|e| format!("Lexer::peek_many: {e}"))?;
                            if sq(&a.expr) != "self.peeked.back()" || a.guard.is_some() {
                                return Err(format!("Lexer::peek_many: guard of unknown shape: {t}"));
                            }
                            a.pat
                        }
                        _ => return Err(format!("Lexer::peek_many: guard of unknown shape: {t}")),
                    };
                    // Some((Ok(P), _))
                    let inner = some_inner(&pat)?;
                    let tok_pat = match inner {
                        syn::Pat::Tuple(tu) if tu.elems.len() == 2 && matches!(tu.elems[1], syn::Pat::Wild(_)) => match &tu.elems[0] {
                            syn::Pat::TupleStruct(ok) if sq(&ok.path) == "Ok" && ok.elems.len() == 1 => &ok.elems[0],
                            _ => return Err(format!("Lexer::peek_many: guard of unknown shape: {t}")),
                        },
                        _ => return Err(format!("Lexer::peek_many: guard of unknown shape: {t}")),
                    };
                    stops.extend(v.pat_names(tok_pat).map_err(|e| format!("Lexer::peek_many: {e}"))?);
                }
                (0, _) if t == "lett=self.next_inner()?;" => phase = 1,
                (1, _) if t == "self.peeked.push_back(t);" => phase = 2,
                _ => return Err(format!("Lexer::peek_many: unsupported statement in the fill loop: {t}")),
            }
        }
        if phase != 2 {
            return Err("Lexer::peek_many: the fill loop does not lex and queue one token per round".into());
        }
        def("peekManyStops", "List String", "`Lexer::peek_many` (src/parser/lexer.rs): the fill loop returns `None` when the last queued token is one of these", lean_list(&stops));
    }

    // ---- path_item, literal, ip_address, simple_literal, identifier
    {
        let f = get(fns, EXPR, p, "path_item")?;
        def("pathItemArms", "List String", "`Parser::path_item` (src/parser/expr.rs): the accepting arms; the catch-all reports `expected`", lean_list(&accepting_arms(v, &only_match(f)?, "path_item")?));

        let f = get(fns, EXPR, p, "literal")?;
        let i = only_top_if(f)?;
        if i.else_branch.is_some() {
            return Err("literal: the `if` has an `else`".into());
        }
        def("literalIpStarts", "List String", "`Parser::literal` (src/parser/expr.rs): the alternatives of `matches!(self.peek(), Some(…))` in front of `self.ip_address()`", lean_list(&matches_peek(v, &i.cond, "literal")?));

        let f = get(fns, EXPR, p, "ip_address")?;
        def("ipAddressArms", "List String", "`Parser::ip_address` (src/parser/expr.rs): the accepting arms; the catch-all reports `expected`", lean_list(&accepting_arms(v, &only_match(f)?, "ip_address")?));

        let f = get(fns, EXPR, p, "simple_literal")?;
        let ms = all_matches(&f.block);
        let Some(m) = ms.first() else {
            return Err("simple_literal: no `match`".into());
        };
        def("simpleLiteralArms", "List String", "`Parser::simple_literal` (src/parser/expr.rs): the accepting arms of the outer `match` over the token; the catch-all reports `expected`", lean_list(&accepting_arms(v, m, "simple_literal")?));

        let f = get(fns, MOD, p, "identifier")?;
        let m = only_match(f)?;
        no_guards(&m, "identifier")?;
        let mut arms = vec![];
        for a in &m.arms {
            if matches!(&a.pat, syn::Pat::Wild(_)) {
                arms.push("_".to_string());
            } else {
                arms.extend(v.pat_names(&a.pat).map_err(|e| format!("identifier: {e}"))?);
            }
        }
        def("identifierArms", "List String", "`Parser::identifier` (src/parser/mod.rs): the arms in order (`Token::Keyword(_)` is \"Keyword\", the wildcard \"_\")", lean_list(&arms));
    }

    // ---- peek_binop
    {
        let f = get(fns, EXPR, p, "peek_binop")?;
        let rows = token_table(v, &only_match(f)?, "BinOp", "peek_binop", &|b| {
            if sq(b) == "returnNone" { Ok(()) } else { Err(format!("peek_binop: the `_` arm is `{}`, not `return None`", cut(sq(b)))) }
        })?;
        def("peekBinopTokens", "List (String × String)", "`Parser::peek_binop` (src/parser/expr.rs): (token, BinOp variant); the `_` arm is `return None`", lean_pairs(&rows));
    }

    // ---- assign_expr
    {
        let f = get(fns, EXPR, p, "assign_expr")?;
        let (chain, last) = if_chain(only_top_if(f)?)?;
        if last.is_none() {
            return Err("assign_expr: the chain has no final `else`".into());
        }
        let assign = v.self_tok_call(chain[0].0, "next_is").map_err(|e| format!("assign_expr: {e}"))?;
        let mut rows = vec![];
        for (c, b) in &chain[1..] {
            let t = v.self_tok_call(c, "next_is").map_err(|e| format!("assign_expr: {e}"))?;
            let [syn::Stmt::Expr(syn::Expr::MethodCall(call), None)] = &b.stmts[..] else {
                return Err(format!("assign_expr: branch of `{t}` is not one call of `self.compound_assign_expr`"));
            };
            if sq(&call.receiver) != "self" || call.method != "compound_assign_expr" || call.args.len() != 3 {
                return Err(format!("assign_expr: branch of `{t}` is not `self.compound_assign_expr(left, op, r)`"));
            }
            rows.push((t, variant_expr(&call.args[1], "CompoundAssignOp", "assign_expr")?));
        }
        def("compoundAssignTokens", "List (String × String)", "`Parser::assign_expr` (src/parser/expr.rs): the `else if self.next_is(Token::X) { self.compound_assign_expr(left, CompoundAssignOp::Y, r) }` chain", lean_pairs(&rows));
        def("assignToken", "String", "`Parser::assign_expr` (src/parser/expr.rs): the token of the first `if self.next_is(…)`", lean_str(&assign));
    }

    // ---- filter_map
    {
        let f = get(fns, FILTER_MAP, p, "filter_map")?;
        let rows = token_table(v, &only_match(f)?, "FilterType", "filter_map", &|b| is_expected_error(b, "filter_map"))?;
        def("filterMapArms", "List (String × String)", "`Parser::filter_map` (src/parser/filter_map.rs): (token, FilterType variant); the catch-all reports `expected`", lean_pairs(&rows));
    }

    // ---- record_almost_keyword
    {
        let f = get(fns, LEXER, Some("Lexer"), "record_almost_keyword")?;
        let m = only_match(f)?;
        no_guards(&m, "record_almost_keyword")?;
        fn lits(p: &syn::Pat, out: &mut Vec<String>) -> Result<(), String> {
            match p {
                syn::Pat::Or(o) => o.cases.iter().try_for_each(|c| lits(c, out)),
                syn::Pat::Lit(l) => match &l.lit {
                    syn::Lit::Str(s) => {
                        out.push(s.value());
                        Ok(())
                    }
                    other => Err(format!("record_almost_keyword: non-string pattern {}", sq(other))),
                },
                other => Err(format!("record_almost_keyword: pattern outside the subset: {}", sq(other))),
            }
        }
        let mut words = vec![];
        let mut wild = false;
        for a in &m.arms {
            if matches!(&a.pat, syn::Pat::Wild(_)) {
                if sq(&a.body) != "return" {
                    return Err(format!("record_almost_keyword: the `_` arm is `{}`, not `return`", cut(sq(&a.body))));
                }
                wild = true;
            } else if wild {
                return Err("record_almost_keyword: arm after `_`".into());
            } else {
                lits(&a.pat, &mut words)?;
            }
        }
        if !wild {
            return Err("record_almost_keyword: no `_` arm".into());
        }
        def("almostKeywords", "List String", "`Lexer::record_almost_keyword` (src/parser/lexer.rs): the string patterns of the match; the `_` arm is `return`", lean_list(&words));
    }

    // ---- negation
    {
        let f = get(fns, EXPR, p, "negation")?;
        let (chain, last) = if_chain(only_top_if(f)?)?;
        if last.is_none() {
            return Err("negation: the chain has no final `else`".into());
        }
        struct Ctors(Vec<String>);
        impl<'ast> Visit<'ast> for Ctors {
            fn visit_expr_call(&mut self, c: &'ast syn::ExprCall) {
                if let syn::Expr::Path(p) = &*c.func {
                    if let Ok(v) = Vocab::variant_of(&p.path, "Expr") {
                        self.0.push(v);
                    }
                }
                syn::visit::visit_expr_call(self, c);
            }
        }
        let mut rows = vec![];
        for (c, b) in chain {
            let t = v.self_tok_call(c, "peek_is").map_err(|e| format!("negation: {e}"))?;
            let mut cs = Ctors(vec![]);
            cs.visit_block(b);
            let [ctor] = &cs.0[..] else {
                return Err(format!("negation: the branch of `{t}` builds {} `Expr::…` values", cs.0.len()));
            };
            rows.push((t, ctor.clone()));
        }
        def("prefixOps", "List (String × String)", "`Parser::negation` (src/parser/expr.rs): (token of `peek_is`, `Expr` variant built in that branch)", lean_pairs(&rows));
    }

    Ok(defs)
}


// ------------------------------------------------------------ section C: arithmetic on byte positions

/// Every piece of arithmetic on byte positions in a decoder function, in source order (locals renamed):
/// `+` / `-` / `*` expressions (outermost), assignments and compound assignments, `let x = <integer literal>`.
#[derive(Default)]
struct Arith(Vec<String>);

impl<'ast> Visit<'ast> for Arith {
    fn visit_expr(&mut self, e: &'ast syn::Expr) {
        match e {
            syn::Expr::Binary(b)
                if matches!(
                    b.op,
                    syn::BinOp::Add(_) | syn::BinOp::Sub(_) | syn::BinOp::Mul(_) | syn::BinOp::AddAssign(_) | syn::BinOp::SubAssign(_) | syn::BinOp::MulAssign(_)
                ) =>
            {
                self.0.push(sq(e));
            }
            syn::Expr::Assign(_) => self.0.push(sq(e)),
            _ => syn::visit::visit_expr(self, e),
        }
    }
    fn visit_local(&mut self, l: &'ast syn::Local) {
        if let Some(init) = &l.init {
            if let syn::Expr::Lit(syn::ExprLit { lit: syn::Lit::Int(i), .. }) = &*init.expr {
                self.0.push(format!("let {}={}", sq(&l.pat).replace("mut", ""), i.base10_digits()));
                return;
            }
            if is_arith(&init.expr) {
                self.0.push(format!("let {}={}", sq(&l.pat).replace("mut", ""), sq(&init.expr)));
                return;
            }
        }
        syn::visit::visit_local(self, l);
    }
    fn visit_field_value(&mut self, f: &'ast syn::FieldValue) {
        if is_arith(&f.expr) {
            self.0.push(format!("{}:{}", sq(&f.member), sq(&f.expr)));
            return;
        }
        syn::visit::visit_field_value(self, f);
    }
}

fn is_arith(e: &syn::Expr) -> bool {
    matches!(strip_paren(e), syn::Expr::Binary(b) if matches!(b.op, syn::BinOp::Add(_) | syn::BinOp::Sub(_) | syn::BinOp::Mul(_)))
}

fn arith_of(f: &FnInfo) -> Vec<String> {
    let mut a = Arith::default();
    a.visit_block(&renamed(f));
    a.0
}

/// `unescape_f_string_part`: the variable that holds the start of the current piece is the ONE local initialised
/// with an integer literal (`let mut piece_start = 0;`) and assigned ONCE, `piece_start = <index> + <literal>`, where
/// `<index>` is a plain local: → (initial value, step). Anything else is an extraction failure.
fn piece_start_facts(f: &FnInfo) -> Result<(u64, u64), String> {
    struct V {
        lets: Vec<(String, u64)>,
        assigns: Vec<(String, syn::Expr)>,
        compound: Vec<String>,
    }
    impl<'ast> Visit<'ast> for V {
        fn visit_local(&mut self, l: &'ast syn::Local) {
            if let (syn::Pat::Ident(p), Some(init)) = (&l.pat, &l.init) {
                if let syn::Expr::Lit(syn::ExprLit { lit: syn::Lit::Int(i), .. }) = &*init.expr {
                    if let Ok(n) = i.base10_parse::<u64>() {
                        self.lets.push((p.ident.to_string(), n));
                    }
                }
            }
            syn::visit::visit_local(self, l);
        }
        fn visit_expr_assign(&mut self, a: &'ast syn::ExprAssign) {
            self.assigns.push((sq(&a.left), (*a.right).clone()));
            syn::visit::visit_expr_assign(self, a);
        }
        fn visit_expr_binary(&mut self, b: &'ast syn::ExprBinary) {
            if matches!(b.op, syn::BinOp::AddAssign(_) | syn::BinOp::SubAssign(_) | syn::BinOp::MulAssign(_)) {
                self.compound.push(sq(b));
            }
            syn::visit::visit_expr_binary(self, b);
        }
    }
    let mut v = V { lets: vec![], assigns: vec![], compound: vec![] };
    v.visit_block(&f.block);
    let what = "unescape_f_string_part";
    let [(var, init)] = &v.lets[..] else {
        return Err(format!("{what}: expected one local initialised with an integer literal (piece_start), found {}", v.lets.len()));
    };
    if !v.compound.is_empty() {
        return Err(format!("{what}: compound assignment `{}` — the offset arithmetic is outside the understood shape", cut(v.compound[0].clone())));
    }
    let [(lhs, rhs)] = &v.assigns[..] else {
        return Err(format!("{what}: expected one assignment (`{var} = <index> + <literal>`), found {}", v.assigns.len()));
    };
    if lhs != var {
        return Err(format!("{what}: the assignment is to `{lhs}`, not to `{var}`"));
    }
    match rhs {
        syn::Expr::Binary(b) if matches!(b.op, syn::BinOp::Add(_)) => match (strip_paren(&b.left), strip_paren(&b.right)) {
            (syn::Expr::Path(p), syn::Expr::Lit(syn::ExprLit { lit: syn::Lit::Int(i), .. })) if p.path.get_ident().is_some() => {
                Ok((*init, i.base10_parse::<u64>().map_err(|e| format!("{what}: {e}"))?))
            }
            _ => Err(format!("{what}: `{var} = {}` is not `<index> + <literal>`", cut(sq(rhs)))),
        },
        _ => Err(format!("{what}: `{var} = {}` is not `<index> + <literal>`", cut(sq(rhs)))),
    }
}

/// Target `fspanfacts` → `Generated/FSpanFacts.lean`: the arithmetic on byte positions in the literal decoders
/// (`unescape_f_string_part`, `unescape_str`, `unescape_char`, src/parser/expr.rs). A target of its own: a decoder
/// whose arithmetic is outside the understood shape fails THIS extraction (and the theorems of Props/C06FSpans),
/// while the parser model, its driver and the differential run keep working.
pub fn fspanfacts(repo: &Path) -> Result<String, String> {
    let mut fns: Vec<FnInfo> = vec![];
    let parsed = find::parse(repo, EXPR)?;
    collect_fns(EXPR, &parsed.items, &mut fns);
    let mut out = String::from(
        "/- GENERATED by /verif/extract (target `fspanfacts`) from src/parser/expr.rs — do not edit.\n   Arithmetic on byte positions in the literal decoders (see extract/src/targets/c06_parse.rs, section C). -/\nnamespace RotoV.Gen.FSpanFacts\n\n",
    );
    out.push_str(&section_c(&fns)?);
    out.push_str("end RotoV.Gen.FSpanFacts\n");
    Ok(out)
}

fn section_c(fns: &[FnInfo]) -> Result<String, String> {
    let mut out = String::from("/-! ## arithmetic on byte positions in the literal decoders -/\n\n");
    let f = get(fns, EXPR, None, "unescape_f_string_part")?;
    let (init, step) = piece_start_facts(f)?;
    out.push_str(&format!(
        "/-- `unescape_f_string_part` (src/parser/expr.rs): `let mut piece_start = <this>;` -/\ndef fPieceInit : Nat := {init}\n\n\
         /-- `unescape_f_string_part`: after a brace escape found at byte `i`, `piece_start = i + <this>` -/\ndef fPieceStep : Nat := {step}\n\n"
    ));
    for (owner, name, lean) in [
        (None, "unescape_f_string_part", "arith_unescape_f_string_part"),
        (None, "unescape_str", "arith_unescape_str"),
        (None, "unescape_char", "arith_unescape_char"),
        (Some("Parser"), "simple_literal", "arith_simple_literal"),
    ] {
        let f = get(fns, EXPR, owner, name)?;
        out.push_str(&format!(
            "/-- `{name}` (src/parser/expr.rs): every `+` / `-` / `*` expression (outermost), assignment and `let x = <integer>` in source order, locals renamed -/\ndef {lean} : List String := {}\n\n",
            lean_list(&arith_of(f))
        ));
    }
    Ok(out)
}

pub fn parsefacts(repo: &Path) -> Result<String, String> {
    let vocab = Vocab::load(repo)?;
    let mut fns: Vec<FnInfo> = vec![];
    for file in [MOD, EXPR, FILTER_MAP, SIGNATURE, LEXER, META] {
        let parsed = find::parse(repo, file)?;
        collect_fns(file, &parsed.items, &mut fns);
    }

    // ---- census: the methods of `impl Parser` are exactly the table
    let found: Vec<(&str, String)> = fns
        .iter()
        .filter(|f| PARSER_FILES.contains(&f.file) && f.owner.as_deref() == Some("Parser"))
        .map(|f| (f.file, f.name.clone()))
        .collect();
    for (file, name) in &found {
        if !PARSER_METHODS.iter().any(|(f, n)| f == file && n == name) {
            return Err(format!("{file}: `Parser::{name}` is a parser method the model does not know"));
        }
        if found.iter().filter(|(_, n)| n == name).count() != 1 {
            return Err(format!("`Parser::{name}` is defined more than once"));
        }
    }
    for (file, name) in PARSER_METHODS {
        if !found.iter().any(|(f, n)| f == file && n == name) {
            return Err(format!("{file}: `Parser::{name}` not found"));
        }
    }

    let mut out = String::from(
        "/- GENERATED by /verif/extract (target `parsefacts`) from src/parser/{mod,expr,filter_map,signature,lexer,meta,token}.rs — do not edit.\n   Decision tables and call skeletons of the parser (see extract/src/targets/c06_parse.rs). -/\nnamespace RotoV.Gen.ParseFacts\n\n/-! ## A. decision tables -/\n\n",
    );
    for d in section_a(&vocab, &fns)? {
        out.push_str(&format!("/-- {} -/\ndef {} : {} := {}\n\n", d.doc, d.name, d.ty, d.val));
    }

    out.push_str("/-! ## B. call skeletons -/\n\n");
    let mut names: Vec<String> = found.iter().map(|(_, n)| n.clone()).collect();
    names.sort();
    out.push_str(&format!(
        "/-- the methods of `impl Parser` in src/parser/{{mod,expr,filter_map,signature}}.rs (without verification hooks), sorted -/\ndef parserMethods : List String := {}\n\n",
        lean_list(&names)
    ));
    let mut todo: Vec<(&str, Option<&str>, &str, String)> =
        PARSER_METHODS.iter().map(|(f, n)| (*f, Some("Parser"), *n, format!("skel_{n}"))).collect();
    todo.extend(OTHER_FNS.iter().map(|(f, o, n, l)| (*f, *o, *n, l.to_string())));
    for (file, owner, name, lean) in todo {
        let f = get(&fns, file, owner, name)?;
        let sk = skel_block(&renamed(f)).map_err(|e| format!("{file}: {name}: {e}"))?;
        let label = match owner {
            Some(o) => format!("{o}::{name}"),
            None => name.to_string(),
        };
        out.push_str(&format!("/-- `{label}` ({file}) -/\ndef {lean} : List String := [\n"));
        out.push_str(&sk.iter().map(|s| format!("  {}", lean_str(s))).collect::<Vec<_>>().join(",\n"));
        out.push_str("\n]\n\n");
    }
    out.push_str("end RotoV.Gen.ParseFacts\n");
    Ok(out)
}
