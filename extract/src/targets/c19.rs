//! Translator targets owned by property C19.
#[allow(unused_imports)]
use super::{Gen, Target};

pub const TARGETS: &[Target] = &[];
