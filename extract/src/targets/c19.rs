//! Translator targets owned by property C19 — `Generated/TestRunner.lean`.
//!
//! From the working tree:
//!  * src/codegen/testing.rs: `TestCase::run` (whole function), `get_tests`
//!    (filter predicate, key pipeline, sort, display name / look-up key),
//!    `run_tests` (counter state, loop source, loop body, final decision);
//!  * src/pipeline.rs: `Package<NoCtx>::run_tests`, `Package<Ctx<C>>::run_tests`, `Package::get_tests`,
//!    `Package::get_function`;
//!  * src/codegen/mod.rs: `Module::get_function`, statement by statement — the key it looks a
//!    name up under (`format!("pkg.{name}")` ↦ concatenation), the one look-up, every exit
//!    with its error, the order of the parameter / return-type checks;
//!  * private helper functions (free `fn`s of the same file called by plain name) of
//!    `get_tests` and `cli_inner`, each as a generated `@[simp]` definition;
//!  * src/cli.rs: `enum Command`, every arm of `cli_inner`, `cli`;
//!  * src/typechecker/function.rs `test` and src/mir/lower.rs `test`: the
//!    `format!("test#…")` name and the signature a test gets.
//!
//! Conventions on top of `r2l` (all local to this file):
//!  * `print!/println!/eprintln!` only write to the terminal: removed; a `let`
//!    whose variable is afterwards unused and whose initialiser only calls
//!    `len/to_string/name` is display-only and removed with them;
//!  * (type ascriptions on other `let`s are dropped; an integer-literal `let` WITH a type is
//!    refused: its width decides when a count wraps)
//!  * an un-annotated `let mut c = <int>` that is only `+=`-ed, compared and
//!    printed is an `i32` (Rust's integer fallback); the counters become the
//!    fields of a state record threaded through the loop;
//!  * `for PAT in ITER { BODY }` ↦ `List.foldlM` of the translated body over
//!    the translated iterator chain (`into_iter/enumerate/skip/take/rev`);
//!  * `e?` ↦ `(← try_ e)`, `return Err(x)` ↦ `throw x` (in the CLI monad);
//!  * string literals ↦ lists of characters; `rsplit_once("<c>")` ↦
//!    `rsplit_once_char _ '<c>'`;
//!  * `get_function::<T>(n)` ↦ `get_function sigOf(T) n`;
//!  * `.cloned()`/`.copied()` on an iterator ↦ the iterator, `sort_unstable()` on strings ↦ `sort`,
//!    `is_ok()/is_err()`; `match` / `if let` over the counter updates of the loop body.
//! Anything else is an extraction failure.

#[allow(unused_imports)]
use super::{Gen, Target};
use crate::find;
use crate::r2l::{Cx, Meth};
use proc_macro2::{TokenStream, TokenTree};
use quote::ToTokens;
use std::path::Path;
use syn::visit::Visit;
use syn::visit_mut::VisitMut;
use syn::{Expr, Pat, Stmt};

pub const TARGETS: &[Target] = &[("testrunner", "TestRunner", testrunner as Gen)];

type R = Result<String, String>;

const PRINTS: [&str; 4] = ["print", "println", "eprint", "eprintln"];

fn mac_name(m: &syn::Macro) -> String {
    m.path
        .segments
        .last()
        .map(|s| s.ident.to_string())
        .unwrap_or_default()
}

fn is_print_stmt(s: &Stmt) -> bool {
    match s {
        Stmt::Macro(m) => PRINTS.contains(&mac_name(&m.mac).as_str()),
        Stmt::Expr(Expr::Macro(m), _) => PRINTS.contains(&mac_name(&m.mac).as_str()),
        _ => false,
    }
}

/// Remove terminal output and type ascriptions on `let`.
struct Clean;
impl VisitMut for Clean {
    fn visit_block_mut(&mut self, b: &mut syn::Block) {
        b.stmts.retain(|s| !is_print_stmt(s));
        for s in b.stmts.iter_mut() {
            if let Stmt::Local(l) = s {
                // a type ascription on an integer-literal `let` (a counter) decides its width
                // and overflow behaviour: it is kept, and `run_tests` refuses it below
                let int_init = matches!(
                    l.init.as_ref().map(|i| &*i.expr),
                    Some(Expr::Lit(syn::ExprLit { lit: syn::Lit::Int(_), .. }))
                );
                if let Pat::Type(pt) = &l.pat {
                    if !int_init {
                        l.pat = (*pt.pat).clone();
                    }
                }
            }
        }
        syn::visit_mut::visit_block_mut(self, b);
    }
}

struct PathUses<'a>(&'a str, usize);
impl<'ast> Visit<'ast> for PathUses<'_> {
    fn visit_expr_path(&mut self, p: &'ast syn::ExprPath) {
        if p.path.is_ident(self.0) {
            self.1 += 1;
        }
    }
    fn visit_macro(&mut self, m: &'ast syn::Macro) {
        // identifiers inside remaining macros count as uses
        fn walk(ts: TokenStream, name: &str, n: &mut usize) {
            for t in ts {
                match t {
                    TokenTree::Ident(i) if i == name => *n += 1,
                    TokenTree::Group(g) => walk(g.stream(), name, n),
                    TokenTree::Literal(l) if l.to_string().contains(name) => *n += 1,
                    _ => {}
                }
            }
        }
        walk(m.tokens.clone(), self.0, &mut self.1);
    }
}

struct OnlyPureMethods(bool);
impl<'ast> Visit<'ast> for OnlyPureMethods {
    fn visit_expr_method_call(&mut self, m: &'ast syn::ExprMethodCall) {
        if !["len", "to_string", "name"].contains(&m.method.to_string().as_str()) {
            self.0 = false;
        }
        syn::visit::visit_expr_method_call(self, m);
    }
    fn visit_expr_call(&mut self, _c: &'ast syn::ExprCall) {
        self.0 = false;
    }
    fn visit_expr_try(&mut self, _c: &'ast syn::ExprTry) {
        self.0 = false;
    }
    fn visit_expr_macro(&mut self, _c: &'ast syn::ExprMacro) {
        self.0 = false;
    }
}

/// Drop display-only `let`s (see the module comment), to a fixpoint.
fn drop_display_lets(stmts: &mut Vec<Stmt>) {
    loop {
        let mut victim = None;
        for (i, s) in stmts.iter().enumerate() {
            let Stmt::Local(l) = s else { continue };
            let Pat::Ident(pi) = &l.pat else { continue };
            if pi.mutability.is_some() {
                continue;
            }
            let Some(init) = &l.init else { continue };
            if init.diverge.is_some() {
                continue;
            }
            let mut pure_ = OnlyPureMethods(true);
            pure_.visit_expr(&init.expr);
            if !pure_.0 {
                continue;
            }
            let name = pi.ident.to_string();
            let mut u = PathUses(&name, 0);
            for later in &stmts[i + 1..] {
                u.visit_stmt(later);
            }
            if u.1 == 0 {
                victim = Some(i);
                break;
            }
        }
        match victim {
            Some(i) => {
                stmts.remove(i);
            }
            None => break,
        }
    }
    for s in stmts.iter_mut() {
        if let Stmt::Expr(Expr::ForLoop(f), _) = s {
            drop_display_lets(&mut f.body.stmts);
        }
    }
}

/// String literals ↦ arrays of chars; `rsplit_once("c")` ↦ `rsplit_once_char('c')`;
/// `get_function::<T>(n)` ↦ `get_function(sig, n)`; `e?` ↦ `try_(e)`;
/// `return Err(x)` ↦ `throw_(x)`; `RotoReport { errors: vec![RotoError::X(..)], .. }` ↦ `CliErr::X`.
struct Rewrite {
    errs: Vec<String>,
}
impl VisitMut for Rewrite {
    fn visit_expr_mut(&mut self, e: &mut Expr) {
        // outer rewrites that must see the original children
        if let Expr::Struct(s) = e {
            if s.path.segments.last().is_some_and(|x| x.ident == "RotoReport") {
                fn walk(ts: TokenStream, out: &mut Vec<String>) {
                    let v: Vec<TokenTree> = ts.into_iter().collect();
                    for (i, t) in v.iter().enumerate() {
                        match t {
                            TokenTree::Group(g) => walk(g.stream(), out),
                            TokenTree::Ident(id) if id == "RotoError" => {
                                if let Some(TokenTree::Ident(x)) = v.get(i + 3) {
                                    out.push(x.to_string());
                                }
                            }
                            _ => {}
                        }
                    }
                }
                let mut found = vec![];
                walk(s.to_token_stream(), &mut found);
                if found.len() == 1 {
                    *e = syn::parse_str(&format!("CliErr::{}", found[0])).unwrap();
                } else {
                    self.errs.push(format!(
                        "RotoReport literal with {} RotoError constructors",
                        found.len()
                    ));
                }
                return;
            }
        }
        if let Expr::MethodCall(mc) = e {
            if mc.method == "rsplit_once" {
                let one = match mc.args.first() {
                    Some(Expr::Lit(syn::ExprLit { lit: syn::Lit::Str(s), .. }))
                        if mc.args.len() == 1 && s.value().chars().count() == 1 =>
                    {
                        Some(s.value().chars().next().unwrap())
                    }
                    _ => None,
                };
                match one {
                    Some(c) => {
                        mc.method = syn::Ident::new("rsplit_once_char", mc.method.span());
                        mc.args = std::iter::once::<Expr>(
                            syn::parse_str(&format!("{c:?}")).unwrap(),
                        )
                        .collect();
                    }
                    None => self
                        .errs
                        .push("rsplit_once with a pattern that is not a one-character literal".into()),
                }
            }
            if let Some(tf) = &mc.turbofish {
                let t = tf.args.to_token_stream().to_string().replace(' ', "");
                let sig = match t.as_str() {
                    "fn()->Verdict<(),()>" => Some("testSig"),
                    "fn()" => Some("entrySig"),
                    _ => None,
                };
                match sig {
                    Some(sg) if mc.method == "get_function" => {
                        let old: Vec<Expr> = mc.args.iter().cloned().collect();
                        let mut args: Vec<Expr> = vec![syn::parse_str(sg).unwrap()];
                        args.extend(old);
                        mc.args = args.into_iter().collect();
                        mc.turbofish = None;
                    }
                    _ => self.errs.push(format!(
                        "unsupported turbofish: {}::<{t}>",
                        mc.method
                    )),
                }
            }
        }
        syn::visit_mut::visit_expr_mut(self, e);
        match e {
            Expr::Lit(syn::ExprLit { lit: syn::Lit::Str(s), .. }) => {
                let cs: Vec<String> = s.value().chars().map(|c| format!("{c:?}")).collect();
                // `[]` alone would be an untyped empty list; name it
                let txt = if cs.is_empty() {
                    "empty_str".to_string()
                } else {
                    format!("[{}]", cs.join(", "))
                };
                *e = syn::parse_str(&txt).unwrap();
            }
            Expr::Try(t) => {
                let inner = t.expr.to_token_stream();
                *e = syn::parse_str(&format!("try_({inner})")).unwrap();
            }
            Expr::Return(r) => {
                if let Some(x) = &r.expr {
                    if let Expr::Call(c) = &**x {
                        if c.func.to_token_stream().to_string() == "Err" && c.args.len() == 1 {
                            let a = c.args[0].to_token_stream();
                            *e = syn::parse_str(&format!("throw_({a})")).unwrap();
                        }
                    }
                }
            }
            _ => {}
        }
    }
}

fn rewrite(block: &mut syn::Block) -> Result<(), String> {
    Clean.visit_block_mut(block);
    let mut rw = Rewrite { errs: vec![] };
    rw.visit_block_mut(block);
    if rw.errs.is_empty() {
        Ok(())
    } else {
        Err(rw.errs.join("; "))
    }
}

fn base_cx() -> Cx {
    let mut cx = Cx::default();
    for (r, l) in [
        ("Ok", "RResult.Ok"),
        ("Err", "RResult.Err"),
        ("Result::Ok", "RResult.Ok"),
        ("Result::Err", "RResult.Err"),
        ("Clone::clone", "id"),
        ("NoCtx", "()"),
        ("ExitCode::from", "ExitCode.ofStatus"),
        ("empty_str", "([] : Name)"),
    ] {
        cx.paths.insert(r.into(), l.into());
    }
    for (m, f) in [
        ("into_iter", "RIter.into_iter"),
        ("enumerate", "RIter.enumerate"),
        ("skip", "RIter.skip"),
        ("take", "RIter.take"),
        ("rev", "RIter.rev"),
        ("filter", "RIter.filter"),
        ("map", "RIter.map"),
        ("collect", "RIter.collect"),
        ("keys", "Table.keys"),
        ("rsplit_once_char", "RStr.rsplit_once_char"),
        ("map_or", "ROpt_map_or"),
        ("starts_with", "RStr.starts_with"),
        ("replace", "RStr.replace"),
        ("strip_prefix", "RStr.strip_prefix"),
        ("get_function", "Module_get_function"),
        ("map_err", "RResult_map_err"),
    ] {
        cx.methods.insert(m.into(), Meth::Pure(f.into()));
    }
    cx.methods.insert("iter".into(), Meth::Pure("RIter.into_iter".into()));
    // `.cloned()` / `.copied()` on an iterator over references: the same elements
    // (`.map(Clone::clone)` is `RIter.map _ id`)
    cx.methods.insert("cloned".into(), Meth::Identity);
    cx.methods.insert("copied".into(), Meth::Identity);
    cx.methods.insert("is_ok".into(), Meth::Pure("RResult_is_ok".into()));
    cx.methods.insert("is_err".into(), Meth::Pure("RResult_is_err".into()));
    cx.methods.insert("get_context".into(), Meth::Identity);
    cx.methods
        .insert("unwrap".into(), Meth::Fallible("RUnwrap.unwrap".into()));
    cx.methods
        .insert("call_tuple".into(), Meth::Fallible("TypedFunc.call_tuple".into()));
    cx.methods
        .insert("run".into(), Meth::FallibleDbg("TestCase_run".into()));
    cx.fallible_fns
        .insert("get_tests".into(), ("get_tests".into(), true));
    cx.fallible_fns
        .insert("run_tests".into(), ("run_tests".into(), true));
    cx
}

// ------------------------------------------------------- private helper functions

/// Plain-name calls `h(…)` inside an expression / block.
struct PlainCalls(Vec<String>);
impl<'ast> Visit<'ast> for PlainCalls {
    fn visit_expr_call(&mut self, c: &'ast syn::ExprCall) {
        if let Expr::Path(p) = &*c.func {
            if let Some(id) = p.path.get_ident() {
                let n = id.to_string();
                if !self.0.contains(&n) {
                    self.0.push(n);
                }
            }
        }
        syn::visit::visit_expr_call(self, c);
    }
}

fn helper_ty(t: &syn::Type) -> R {
    let s = t.to_token_stream().to_string().replace(' ', "");
    Ok(match s.as_str() {
        "&str" | "&String" | "String" | "&'staticstr" => "Name".into(),
        "bool" => "Bool".into(),
        "RotoReport" => "CliErr".into(),
        other => return Err(format!("helper function: type {other} is not in the vocabulary")),
    })
}

/// Private helper functions.  A call `h(a, …)` by plain name to a free `fn h` of the SAME
/// file, which the vocabulary does not know, gets its meaning from the definition of `h`
/// itself: `h` is translated (same conventions as its caller) into a pure Lean definition,
/// emitted before the caller and marked `@[simp]` so that the proofs see through it.  The
/// parameter and return types must be in the small vocabulary of `helper_ty`, the body in the
/// r2l subset and pure (it is elaborated in `Id`: a fallible operation does not type-check,
/// which breaks the build — never a silent default).  Helpers of helpers are not followed
/// (an unknown identifier breaks the Lean build).
fn helper_defs(file: &syn::File, rel: &str, root: &syn::Block, cx: &Cx, done: &mut Vec<String>) -> R {
    let mut pc = PlainCalls(vec![]);
    pc.visit_block(root);
    let mut out = String::new();
    for name in pc.0 {
        if done.contains(&name)
            || cx.paths.contains_key(&name)
            || cx.fallible_fns.contains_key(&name)
            || cx.call_rewrites.contains_key(&name)
        {
            continue;
        }
        let fns: Vec<&syn::ItemFn> = file
            .items
            .iter()
            .filter_map(|i| match i {
                syn::Item::Fn(f) if f.sig.ident == name => Some(f),
                _ => None,
            })
            .collect();
        let [f] = fns.as_slice() else { continue };
        if !f.sig.generics.params.is_empty() || f.sig.asyncness.is_some() || f.sig.unsafety.is_some() {
            return Err(format!("helper function {name}: generic / async / unsafe"));
        }
        let mut params = String::new();
        for a in &f.sig.inputs {
            let syn::FnArg::Typed(t) = a else {
                return Err(format!("helper function {name}: receiver"));
            };
            let Pat::Ident(pi) = &*t.pat else {
                return Err(format!("helper function {name}: parameter pattern"));
            };
            if pi.mutability.is_some() {
                return Err(format!("helper function {name}: `mut` parameter"));
            }
            params.push_str(&format!(" ({} : {})", crate::r2l::lean_ident(&pi.ident.to_string()), helper_ty(&t.ty)?));
        }
        let ret = match &f.sig.output {
            syn::ReturnType::Type(_, t) => helper_ty(t)?,
            syn::ReturnType::Default => return Err(format!("helper function {name}: no return type")),
        };
        let mut block = (*f.block).clone();
        rewrite(&mut block)?;
        let body = cx.m(&Expr::Block(syn::ExprBlock { attrs: vec![], label: None, block }))?;
        out.push_str(&format!(
            "/-- private helper `{name}` ({rel}), called by the code below -/\n@[simp] def {}{params} : {ret} := Id.run\n {body}\n\n",
            crate::r2l::lean_ident(&name)
        ));
        done.push(name);
    }
    Ok(out)
}

// ------------------------------------------------------------ TestCase::run

fn testcase_run(testing: &syn::File) -> R {
    let mut f = find::func(testing, "run", Some("TestCase"))?;
    rewrite(&mut f.block)?;
    let cx = base_cx();
    let body = cx.block(&f.block.stmts)?;
    Ok(format!(
        "/-- `TestCase::run` (src/codegen/testing.rs) -/\ndef TestCase_run {{ε : Type}} (dbg : Bool) (self : TestCase) (ctx : Unit) : Run ε (RResult Unit Unit) :=\n {body}\n\n"
    ))
}

// ---------------------------------------------------------------- get_tests

fn get_tests(testing: &syn::File) -> R {
    let mut f = find::func(testing, "get_tests", None)?;
    rewrite(&mut f.block)?;
    let mut out = String::new();
    let mut cx = base_cx();
    out.push_str(&helper_defs(testing, "src/codegen/testing.rs", &f.block, &cx, &mut vec![])?);

    // the `.filter(|x| …)` closure becomes a named predicate
    struct FilterFinder(Vec<syn::ExprClosure>);
    impl VisitMut for FilterFinder {
        fn visit_expr_method_call_mut(&mut self, mc: &mut syn::ExprMethodCall) {
            syn::visit_mut::visit_expr_method_call_mut(self, mc);
            if mc.method == "filter" && mc.args.len() == 1 {
                if let Expr::Closure(c) = &mc.args[0] {
                    self.0.push(c.clone());
                    mc.args = std::iter::once::<Expr>(
                        syn::parse_str("get_tests_filter").unwrap(),
                    )
                    .collect();
                }
            }
        }
    }
    let mut ff = FilterFinder(vec![]);
    ff.visit_block_mut(&mut f.block);
    if ff.0.len() != 1 {
        return Err(format!(
            "get_tests: expected exactly one `.filter(|x| …)`, found {}",
            ff.0.len()
        ));
    }
    let clo = &ff.0[0];
    let param = match clo.inputs.first() {
        Some(Pat::Ident(p)) if clo.inputs.len() == 1 => p.ident.to_string(),
        _ => return Err("get_tests: filter closure must take one plain parameter".into()),
    };
    let mut body: &Expr = &clo.body;
    while let Expr::Block(b) = body {
        match b.block.stmts.as_slice() {
            [Stmt::Expr(e, None)] => body = e,
            _ => break,
        }
    }
    let pred = cx.v(body)?;
    if pred.contains("(←") {
        return Err("get_tests: filter predicate is not pure".into());
    }
    out.push_str(&format!(
        "/-- the `.filter(|{param}| …)` predicate of `get_tests` on a key of `Module.functions` -/\ndef get_tests_filter ({param} : Name) : Bool :=\n {pred}\n\n"
    ));

    // statements: `let mut tests = CHAIN;` `tests.sort();` tail `.map(|name| …)`
    let stmts = &f.block.stmts;
    let mut lines = vec![];
    let mut tail = None;
    for (i, s) in stmts.iter().enumerate() {
        match s {
            Stmt::Local(l) => {
                let Pat::Ident(pi) = &l.pat else {
                    return Err("get_tests: unsupported let pattern".into());
                };
                let init = l.init.as_ref().ok_or("get_tests: let without init")?;
                let v = cx.v(&init.expr)?;
                lines.push(format!(" let {} := {v}", pi.ident));
            }
            Stmt::Expr(Expr::MethodCall(mc), Some(_))
                // `sort_unstable` on strings: the order is total and equal keys are equal strings,
                // so stability cannot be observed
                if (mc.method == "sort" || mc.method == "sort_unstable") && mc.args.is_empty() =>
            {
                let Expr::Path(p) = &*mc.receiver else {
                    return Err("get_tests: sort on a non-variable".into());
                };
                let x = p.path.to_token_stream().to_string();
                lines.push(format!(" let {x} := (RStr.sort {x})"));
            }
            Stmt::Expr(e, None) if i + 1 == stmts.len() => tail = Some(e.clone()),
            other => {
                return Err(format!(
                    "get_tests: unsupported statement: {}",
                    other.to_token_stream()
                ));
            }
        }
    }
    let tail = tail.ok_or("get_tests: no tail expression")?;
    let Expr::MethodCall(mc) = &tail else {
        return Err("get_tests: tail is not a method call".into());
    };
    if mc.method != "map" || mc.args.len() != 1 {
        return Err("get_tests: tail is not `.map(|name| …)`".into());
    }
    let Expr::Closure(c) = &mc.args[0] else {
        return Err("get_tests: tail map takes no closure".into());
    };
    let p = match c.inputs.first() {
        Some(Pat::Ident(p)) if c.inputs.len() == 1 => p.ident.to_string(),
        _ => return Err("get_tests: map closure must take one plain parameter".into()),
    };
    let mut cbody: &Expr = &c.body;
    while let Expr::Block(b) = cbody {
        match b.block.stmts.as_slice() {
            [Stmt::Expr(e, None)] => cbody = e,
            _ => break,
        }
    }
    cx.paths.insert("TestCase::new".into(), "TestCase.new".into());
    let b = cx.v(cbody)?;
    let recv = cx.v(&mc.receiver)?;
    out.push_str(&format!(
        "/-- one element of the iterator `get_tests` returns -/\ndef get_tests_case (dbg : Bool) (module : Module) ({p} : Name) : Res TestCase :=\n (do pure {b})\n\n"
    ));
    out.push_str(&format!(
        "/-- `get_tests` (src/codegen/testing.rs); the lazy iterator is forced (its only consumer is `.collect()`) -/\ndef get_tests (dbg : Bool) (module : Module) : Res (List TestCase) := (do\n{}\n List.mapM (get_tests_case dbg module) {recv})\n\n",
        lines.join("\n")
    ));
    // the keys before the final map, for `discovery_exact`
    out.push_str(&format!(
        "/-- the sorted key list `get_tests` maps over -/\ndef get_tests_keys (module : Module) : List Name := Id.run (do\n{}\n pure {recv})\n\n",
        lines.join("\n")
    ));
    Ok(out)
}

// ---------------------------------------------------------------- run_tests

/// counters ↦ fields of `st__`; integer literals next to them ↦ `i32lit(k)`
struct Counters<'a>(&'a [String]);
impl Counters<'_> {
    /// an expression of the counters' type: a counter, or arithmetic over counters and
    /// (already converted) literals — `failures % 256`, `(successes + failures)`, …
    fn is_counter_field(&self, e: &Expr) -> Option<String> {
        match e {
            Expr::Field(f) if f.base.to_token_stream().to_string() == "st__" => {
                Some(f.member.to_token_stream().to_string())
            }
            Expr::Paren(p) => self.is_counter_field(&p.expr),
            Expr::Binary(b)
                if matches!(
                    b.op,
                    syn::BinOp::Add(_) | syn::BinOp::Sub(_) | syn::BinOp::Mul(_) | syn::BinOp::Div(_) | syn::BinOp::Rem(_)
                ) =>
            {
                self.is_counter_field(&b.left).or_else(|| self.is_counter_field(&b.right))
            }
            _ => None,
        }
    }
}
impl VisitMut for Counters<'_> {
    fn visit_expr_mut(&mut self, e: &mut Expr) {
        if let Expr::Path(p) = e {
            for c in self.0 {
                if p.path.is_ident(c) {
                    *e = syn::parse_str(&format!("st__.{c}")).unwrap();
                    return;
                }
            }
        }
        syn::visit_mut::visit_expr_mut(self, e);
        if let Expr::Binary(b) = e {
            let l = self.is_counter_field(&b.left).is_some();
            let r = self.is_counter_field(&b.right).is_some();
            for (is_c, other) in [(l, &mut b.right), (r, &mut b.left)] {
                if is_c {
                    if let Expr::Lit(syn::ExprLit { lit: syn::Lit::Int(i), .. }) = &**other {
                        if i.suffix().is_empty() {
                            **other =
                                syn::parse_str(&format!("i32lit({})", i.base10_digits())).unwrap();
                        }
                    }
                }
            }
        }
    }
}

fn state_stmts(cx: &Cx, stmts: &[Stmt], counters: &[String]) -> R {
    let Some((first, rest)) = stmts.split_first() else {
        return Ok("(pure st__)".into());
    };
    let rest_s = state_stmts(cx, rest, counters)?;
    Ok(match first {
        Stmt::Local(l) => {
            let Pat::Ident(pi) = &l.pat else {
                return Err("loop body: unsupported let pattern".into());
            };
            let init = l.init.as_ref().ok_or("loop body: let without init")?;
            if init.diverge.is_some() {
                return Err("loop body: let-else".into());
            }
            format!("(do\n let {} := {}\n {rest_s})", pi.ident, cx.v(&init.expr)?)
        }
        Stmt::Expr(Expr::Binary(b), _) if matches!(b.op, syn::BinOp::AddAssign(_)) => {
            let Expr::Field(f) = &*b.left else {
                return Err(format!(
                    "loop body: `+=` on something that is not a counter: {}",
                    b.left.to_token_stream()
                ));
            };
            let c = f.member.to_token_stream().to_string();
            if f.base.to_token_stream().to_string() != "st__" || !counters.contains(&c) {
                return Err("loop body: `+=` on a non-counter".into());
            }
            let rhs = cx.v(&b.right)?;
            format!(
                "(do\n let st__ := {{ st__ with {c} := (← RArith.add dbg st__.{c} {rhs}) }}\n {rest_s})"
            )
        }
        Stmt::Expr(Expr::If(i), _) if !matches!(*i.cond, Expr::Let(_)) => {
            let c = cx.v(&i.cond)?;
            let then = state_stmts(cx, &i.then_branch.stmts, counters)?;
            let els = match &i.else_branch {
                None => "(pure st__)".to_string(),
                Some((_, e)) => match &**e {
                    Expr::Block(b) => state_stmts(cx, &b.block.stmts, counters)?,
                    other @ Expr::If(_) => {
                        state_stmts(cx, &[Stmt::Expr(other.clone(), None)], counters)?
                    }
                    _ => return Err("loop body: unsupported else".into()),
                },
            };
            format!("(do\n let st__ ← (do\n if {c} then {then}\n else {els})\n {rest_s})")
        }
        // `if let P = E { … } else { … }` / `match E { P => { … } … }` over counter updates
        Stmt::Expr(Expr::If(i), _) => {
            let Expr::Let(l) = &*i.cond else { unreachable!() };
            let scrut = cx.v(&l.expr)?;
            let pat = cx.pat(&l.pat)?;
            let then = state_stmts(cx, &i.then_branch.stmts, counters)?;
            let els = match &i.else_branch {
                None => "(pure st__)".to_string(),
                Some((_, e)) => match &**e {
                    Expr::Block(b) => state_stmts(cx, &b.block.stmts, counters)?,
                    other @ Expr::If(_) => {
                        state_stmts(cx, &[Stmt::Expr(other.clone(), None)], counters)?
                    }
                    _ => return Err("loop body: unsupported else".into()),
                },
            };
            format!("(do\n let st__ ← (do match {scrut} with\n | {pat} => {then}\n | _ => {els})\n {rest_s})")
        }
        Stmt::Expr(Expr::Match(mm), _) => {
            if mm.arms.iter().any(|a| a.guard.is_some()) {
                return Err("loop body: guarded match arm".into());
            }
            let scrut = cx.v(&mm.expr)?;
            let mut arms = String::new();
            for a in &mm.arms {
                let body = match &*a.body {
                    Expr::Block(b) => state_stmts(cx, &b.block.stmts, counters)?,
                    other => state_stmts(cx, &[Stmt::Expr(other.clone(), Some(Default::default()))], counters)?,
                };
                arms.push_str(&format!("\n | {} => {body}", cx.pat(&a.pat)?));
            }
            format!("(do\n let st__ ← (do match {scrut} with{arms})\n {rest_s})")
        }
        other => {
            return Err(format!(
                "loop body: unsupported statement: {}",
                other.to_token_stream()
            ));
        }
    })
}

fn run_tests(testing: &syn::File) -> R {
    let mut f = find::func(testing, "run_tests", None)?;
    rewrite(&mut f.block)?;
    drop_display_lets(&mut f.block.stmts);
    let cx = base_cx();

    let mut counters: Vec<(String, String)> = vec![];
    let mut pre = vec![];
    let mut the_loop = None;
    let mut tail = None;
    let n = f.block.stmts.len();
    for (i, s) in f.block.stmts.iter().enumerate() {
        match s {
            Stmt::Local(l) => {
                if let Pat::Type(pt) = &l.pat {
                    return Err(format!(
                        "run_tests: counter `{}` has the explicit type `{}`: the model's counters are i32 (integer fallback); another width changes when the count wraps",
                        pt.pat.to_token_stream(),
                        pt.ty.to_token_stream()
                    ));
                }
                let Pat::Ident(pi) = &l.pat else {
                    return Err("run_tests: unsupported let pattern".into());
                };
                let init = l.init.as_ref().ok_or("run_tests: let without init")?;
                match &*init.expr {
                    Expr::Lit(syn::ExprLit { lit: syn::Lit::Int(k), .. })
                        if pi.mutability.is_some() && k.suffix().is_empty() =>
                    {
                        if the_loop.is_some() {
                            return Err("run_tests: counter declared after the loop".into());
                        }
                        counters.push((pi.ident.to_string(), k.base10_digits().to_string()));
                    }
                    e => {
                        if pi.mutability.is_some() || the_loop.is_some() {
                            return Err(format!(
                                "run_tests: unsupported let: {}",
                                s.to_token_stream()
                            ));
                        }
                        pre.push(format!(" let {} := {}", pi.ident, cx.v(e)?));
                    }
                }
            }
            Stmt::Expr(Expr::ForLoop(fl), _) => {
                if the_loop.is_some() {
                    return Err("run_tests: more than one loop".into());
                }
                the_loop = Some(fl.clone());
            }
            Stmt::Expr(e, None) if i + 1 == n => tail = Some(e.clone()),
            other => {
                return Err(format!(
                    "run_tests: unsupported statement: {}",
                    other.to_token_stream()
                ));
            }
        }
    }
    let mut fl = the_loop.ok_or("run_tests: no `for` loop")?;
    let mut tail = tail.ok_or("run_tests: no tail expression")?;
    let names: Vec<String> = counters.iter().map(|c| c.0.clone()).collect();
    Counters(&names).visit_block_mut(&mut fl.body);
    Counters(&names).visit_expr_mut(&mut tail);
    // the iterated expression must not mention the counters
    let iter = cx.v(&fl.expr)?;
    let (item_ty, pat) = match &*fl.pat {
        Pat::Tuple(t) if t.elems.len() == 2 => ("Nat × TestCase", cx.pat(&fl.pat)?),
        Pat::Ident(_) => ("TestCase", cx.pat(&fl.pat)?),
        other => {
            return Err(format!(
                "run_tests: unsupported loop pattern {}",
                other.to_token_stream()
            ));
        }
    };
    let body = state_stmts(&cx, &fl.body.stmts, &names)?;
    let tail_s = cx.m(&tail)?;

    let mut out = String::new();
    out.push_str("/-- the `let mut` counters of `run_tests` (`i32` by Rust's integer fallback) -/\nstructure run_tests_St where\n");
    for (c, _) in &counters {
        out.push_str(&format!("  {c} : I32\n"));
    }
    out.push_str("  deriving DecidableEq, Repr\n\n");
    let init: Vec<String> = counters
        .iter()
        .map(|(c, k)| format!("{c} := i32lit {k}"))
        .collect();
    out.push_str(&format!(
        "def run_tests_init : run_tests_St := {{ {} }}\n\n",
        init.join(", ")
    ));
    out.push_str(&format!(
        "/-- what `run_tests`' `for` iterates over, as a function of the collected tests -/\ndef run_tests_iter (tests : List TestCase) : List ({item_ty}) :=\n {iter}\n\n"
    ));
    out.push_str(&format!(
        "/-- one iteration of `run_tests`' loop -/\ndef run_tests_step {{ε : Type}} (dbg : Bool) (ctx : Unit) (st__ : run_tests_St) (item__ : {item_ty}) : Run ε run_tests_St :=\n (do match item__ with\n | {pat} => {body})\n\n"
    ));
    out.push_str(&format!(
        "/-- the final decision of `run_tests` -/\ndef run_tests_finish (dbg : Bool) (st__ : run_tests_St) : Res (RResult Unit Unit) :=\n {tail_s}\n\n"
    ));
    out.push_str(&format!(
        "/-- `run_tests` (src/codegen/testing.rs) -/\ndef run_tests {{ε : Type}} (dbg : Bool) (module : Module) (ctx : Unit) : Run ε (RResult Unit Unit) := (do\n{}\n let st__ ← List.foldlM (run_tests_step dbg ctx) run_tests_init (run_tests_iter tests)\n run_tests_finish dbg st__)\n\n",
        pre.join("\n")
    ));
    Ok(out)
}

// --------------------------------------------------------------------- CLI

fn lean_ty(t: &syn::Type) -> R {
    let s = t.to_token_stream().to_string().replace(' ', "");
    Ok(match s.as_str() {
        "PathBuf" => "TR.Path".into(),
        "String" => "Name".into(),
        other => return Err(format!("Command field type {other} not in the vocabulary")),
    })
}

fn command_enum(cli: &syn::File) -> R {
    struct F(Vec<syn::ItemEnum>);
    impl<'ast> Visit<'ast> for F {
        fn visit_item_enum(&mut self, e: &'ast syn::ItemEnum) {
            if e.ident == "Command" {
                self.0.push(e.clone());
            }
        }
    }
    let mut f = F(vec![]);
    f.visit_file(cli);
    if f.0.len() != 1 {
        return Err(format!("enum Command: {} definitions", f.0.len()));
    }
    let mut out = String::from("/-- `enum Command` (src/cli.rs) -/\ninductive Command where\n");
    for v in &f.0[0].variants {
        out.push_str(&format!("  | {}", v.ident));
        for fld in &v.fields {
            let n = fld
                .ident
                .as_ref()
                .ok_or("Command: tuple variant")?
                .to_string();
            out.push_str(&format!(" ({} : {})", crate::r2l::lean_ident(&n), lean_ty(&fld.ty)?));
        }
        out.push('\n');
    }
    out.push_str("  deriving DecidableEq, Repr\n\nstructure CliArgs where\n  command : Command\n\n");
    Ok(out)
}

fn cli_cx() -> Cx {
    let mut cx = base_cx();
    for (m, f) in [
        ("try_without_ctx", "W.try_without_ctx"),
        ("parse", "W.parse"),
        ("typecheck", "W.typecheck"),
        ("lower_to_mir", "W.lower_to_mir"),
        ("lower_to_lir", "W.lower_to_lir"),
        ("codegen", "W.codegen"),
        ("call", "W.call"),
        ("print_documentation", "W.print_documentation"),
        ("unwrap", "W.unwrap"),
    ] {
        cx.methods.insert(m.into(), Meth::Fallible(f.into()));
    }
    cx.methods
        .insert("run_tests".into(), Meth::FallibleDbg("Package_run_tests".into()));
    cx.methods
        .insert("get_function".into(), Meth::Pure("Package_get_function".into()));
    for (p, f) in [
        ("FileTree::read", "W.FileTree_read"),
        ("std::fs::read_to_string", "W.read_to_string"),
        ("print_highlighted", "W.print_highlighted"),
        ("try_", "Cli.try_"),
        ("throw_", "Cli.throw_"),
    ] {
        cx.fallible_fns.insert(p.into(), (f.into(), false));
    }
    cx.fallible_fns
        .insert("cli_inner".into(), ("cli_inner_result".into(), true));
    cx
}

fn cli_fns(cli: &syn::File) -> R {
    let mut out = String::new();
    let cx = cli_cx();
    // cli_inner
    let mut f = find::func(cli, "cli_inner", None)?;
    rewrite(&mut f.block)?;
    let mut rp = super::scalar::ExprReplacer::new(&[("Cli::parse()", "cli_args")]);
    rp.visit_block_mut(&mut f.block);
    rp.require("Cli::parse()", 1)?;
    // the final `Ok(())` is the unit of the CLI monad
    match f.block.stmts.last_mut() {
        Some(Stmt::Expr(e, None)) if e.to_token_stream().to_string().replace(' ', "") == "Ok(())" => {
            *e = syn::parse_str("()").unwrap();
        }
        _ => return Err("cli_inner: the function does not end in `Ok(())`".into()),
    }
    out.push_str(&helper_defs(cli, "src/cli.rs", &f.block, &cx, &mut vec![])?);
    let body = cx.block(&f.block.stmts)?;
    out.push_str(&format!(
        "/-- `cli_inner` (src/cli.rs); `Result<(), RotoReport>` is the error channel of `Cli` -/\ndef cli_inner (dbg : Bool) (W : World) (cli_args : CliArgs) (rt : Runtime) : Cli Unit :=\n {body}\n\n"
    ));
    out.push_str("def cli_inner_result (dbg : Bool) (W : World) (cli_args : CliArgs) (rt : Runtime) : Cli (RResult Unit CliErr) :=\n Run.reify (cli_inner dbg W cli_args rt)\n\n");
    // cli
    let mut f = find::func(cli, "cli", None)?;
    rewrite(&mut f.block)?;
    let mut rp = super::scalar::ExprReplacer::new(&[("cli_inner(rt)", "cli_inner(W, cli_args, rt)")]);
    rp.visit_block_mut(&mut f.block);
    rp.require("cli_inner(rt)", 1)?;
    let body = cx.block(&f.block.stmts)?;
    out.push_str(&format!(
        "/-- `cli` (src/cli.rs) -/\ndef cli (dbg : Bool) (W : World) (cli_args : CliArgs) (rt : Runtime) : Cli ExitCode :=\n {body}\n\n"
    ));
    Ok(out)
}

fn package_run_tests(pipeline: &syn::File) -> R {
    let mut f = find::func(pipeline, "run_tests", Some("Package<NoCtx>"))?;
    rewrite(&mut f.block)?;
    let cx = base_cx();
    let body = cx.block(&f.block.stmts)?;
    let mut out = format!(
        "/-- `Package<NoCtx>::run_tests` (src/pipeline.rs) -/\ndef Package_run_tests {{ε : Type}} (dbg : Bool) (self : Package) : Run ε (RResult Unit Unit) :=\n {body}\n\n"
    );
    // the sibling entry points: `Package<Ctx<C>>::run_tests(ctx)` and `Package::get_tests`
    let mut f = find::func(pipeline, "run_tests", Some("Package<Ctx<C>>"))?;
    rewrite(&mut f.block)?;
    let mut cx = base_cx();
    // `Ctx(ctx)` wraps the host's context value; the model's context is `Unit`
    cx.paths.insert("Ctx".into(), "id".into());
    let body = cx.block(&f.block.stmts)?;
    out.push_str(&format!(
        "/-- `Package<Ctx<C>>::run_tests` (src/pipeline.rs) -/\ndef Package_run_tests_ctx {{ε : Type}} (dbg : Bool) (self : Package) (ctx : Unit) : Run ε (RResult Unit Unit) :=\n {body}\n\n"
    ));
    let mut f = find::func(pipeline, "get_tests", Some("Package<Ctx>"))?;
    rewrite(&mut f.block)?;
    let body = base_cx().block(&f.block.stmts)?;
    out.push_str(&format!(
        "/-- `Package::get_tests` (src/pipeline.rs) -/\ndef Package_get_tests (dbg : Bool) (self : Package) : Res (List TestCase) :=\n {body}\n\n"
    ));
    Ok(out)
}

// ------------------------------------------------- Module::get_function (the look-up key)

/// `format!("<text>{ident}<text>…")` (plain `{ident}` placeholders only, no further
/// arguments) ↦ `str_concat([<text>, ident, …])`; any other `format!` is left alone (and
/// then refused by r2l as an unsupported macro).
struct FormatConcat;
impl VisitMut for FormatConcat {
    fn visit_expr_mut(&mut self, e: &mut Expr) {
        syn::visit_mut::visit_expr_mut(self, e);
        let Expr::Macro(m) = e else { return };
        if !m.mac.path.is_ident("format") {
            return;
        }
        use syn::parse::Parser;
        let Ok(args) = syn::punctuated::Punctuated::<Expr, syn::Token![,]>::parse_terminated.parse2(m.mac.tokens.clone()) else {
            return;
        };
        let mut args = args.into_iter();
        let Some(Expr::Lit(syn::ExprLit { lit: syn::Lit::Str(lit), .. })) = args.next() else { return };
        // positional `{}` placeholders take the remaining arguments (plain variables) in order
        let mut positional: Vec<String> = vec![];
        for a in args {
            let a = match a {
                Expr::Reference(r) => *r.expr,
                other => other,
            };
            match a {
                Expr::Path(p) if p.path.get_ident().is_some() => positional.push(p.path.get_ident().unwrap().to_string()),
                _ => return,
            }
        }
        positional.reverse();
        let s = lit.value();
        let mut pieces: Vec<String> = vec![];
        let mut text = String::new();
        let mut it = s.chars().peekable();
        while let Some(c) = it.next() {
            match c {
                '{' if it.peek() == Some(&'{') => {
                    it.next();
                    text.push('{');
                }
                '}' if it.peek() == Some(&'}') => {
                    it.next();
                    text.push('}');
                }
                '{' => {
                    let mut id = String::new();
                    loop {
                        match it.next() {
                            Some('}') => break,
                            Some(ch) => id.push(ch),
                            None => return,
                        }
                    }
                    if id.is_empty() {
                        match positional.pop() {
                            Some(a) => id = a,
                            None => return,
                        }
                    }
                    if syn::parse_str::<syn::Ident>(&id).is_err() {
                        return;
                    }
                    if !text.is_empty() {
                        pieces.push(format!("{text:?}"));
                        text.clear();
                    }
                    pieces.push(id);
                }
                '}' => return,
                c => text.push(c),
            }
        }
        if !text.is_empty() {
            pieces.push(format!("{text:?}"));
        }
        if !positional.is_empty() {
            return;
        }
        *e = syn::parse_str(&format!("str_concat([{}])", pieces.join(", "))).unwrap();
    }
}

/// How many times an identifier is bound by a `let` / closure parameter pattern.
struct Binds<'a>(&'a str, usize);
impl<'ast> Visit<'ast> for Binds<'_> {
    fn visit_pat_ident(&mut self, p: &'ast syn::PatIdent) {
        if p.ident == self.0 {
            self.1 += 1;
        }
        syn::visit::visit_pat_ident(self, p);
    }
}

/// Every `self.functions.<method>(args)` call.
struct TableCalls(Vec<(String, String)>);
impl<'ast> Visit<'ast> for TableCalls {
    fn visit_expr_method_call(&mut self, mc: &'ast syn::ExprMethodCall) {
        if mc.receiver.to_token_stream().to_string().replace(' ', "") == "self.functions" {
            let args: Vec<String> =
                mc.args.iter().map(|a| a.to_token_stream().to_string().replace(' ', "")).collect();
            self.0.push((mc.method.to_string(), args.join(",")));
        }
        syn::visit::visit_expr_method_call(self, mc);
    }
}

struct CallsOf<'a>(&'a str, Vec<String>);
impl<'ast> Visit<'ast> for CallsOf<'_> {
    fn visit_expr_method_call(&mut self, mc: &'ast syn::ExprMethodCall) {
        if mc.method == self.0 {
            let args: Vec<String> =
                mc.args.iter().map(|a| a.to_token_stream().to_string().replace(' ', "")).collect();
            self.1.push(args.join(","));
        }
        syn::visit::visit_expr_method_call(self, mc);
    }
}

fn let_named<'a>(stmts: &'a [Stmt], name: &str) -> Vec<(usize, &'a syn::Local)> {
    stmts
        .iter()
        .enumerate()
        .filter_map(|(i, s)| match s {
            Stmt::Local(l) => match &l.pat {
                Pat::Ident(pi) if pi.ident == name => Some((i, l)),
                Pat::Type(pt) => match &*pt.pat {
                    Pat::Ident(pi) if pi.ident == name => Some((i, l)),
                    _ => None,
                },
                _ => None,
            },
            _ => None,
        })
        .collect()
}

/// `Module::get_function` (src/codegen/mod.rs): the key it looks a name up under, and the
/// declaration-level facts that make the hand model `TR.get_function_at` (one table look-up
/// with that key, the handle is the looked-up entry's function) speak for the code:
///   * there is one `let name = <expr over the parameter name>;` (no statement before it
///     touches the table) — translated;
///   * `name` is bound nowhere else, `self.functions` is consulted by exactly one
///     `.get(&name)` (and `.keys()` for the error text);
///   * the `let` holding that look-up binds `function_info`, `let id = function_info.id;`
///     and the finalized function is `get_finalized_function(id)`, once.
/// Statements under `#[cfg(feature = "verif-hooks")]` are skipped.  Anything else: failure.
fn module_get_function(repo: &Path) -> R {
    let codegen = find::parse(repo, "src/codegen/mod.rs")?;
    let mut f = find::func(&codegen, "get_function", Some("Module<Ctx>"))?;
    f.block.stmts.retain(|s| {
        let attrs: &[syn::Attribute] = match s {
            Stmt::Local(l) => &l.attrs,
            Stmt::Expr(Expr::Block(b), _) => &b.attrs,
            Stmt::Expr(Expr::If(b), _) => &b.attrs,
            _ => &[],
        };
        !attrs.iter().any(|a| a.to_token_stream().to_string().contains("verif-hooks"))
    });
    // the parameter
    let params: Vec<String> = f
        .sig
        .inputs
        .iter()
        .filter_map(|a| match a {
            syn::FnArg::Typed(t) => Some(format!(
                "{}:{}",
                t.pat.to_token_stream(),
                t.ty.to_token_stream().to_string().replace(' ', "")
            )),
            _ => None,
        })
        .collect();
    if params != ["name:&str"] {
        return Err(format!("Module::get_function: parameters {params:?} are not (name: &str)"));
    }
    let stmts = &f.block.stmts;
    let names = let_named(stmts, "name");
    let mut nb = Binds("name", 0);
    nb.visit_block(&f.block);
    if names.len() != 1 || nb.1 != 1 {
        return Err(format!(
            "Module::get_function: expected one `let name = …;` and no other binding of `name` (found {} top-level, {} in all)",
            names.len(),
            nb.1
        ));
    }
    // statements before it (a lock acquisition, a `let` of something else) must not touch the table
    let mut before = TableCalls(vec![]);
    for st in &stmts[..names[0].0] {
        before.visit_stmt(st);
    }
    if !before.0.is_empty() {
        return Err(format!("Module::get_function: `self.functions` is consulted before the key is computed ({:?})", before.0));
    }
    let init = names[0].1.init.as_ref().ok_or("Module::get_function: `let name` without initialiser")?;
    if init.diverge.is_some() {
        return Err("Module::get_function: `let name … else`".into());
    }
    let mut key_expr = (*init.expr).clone();
    FormatConcat.visit_expr_mut(&mut key_expr);
    let mut holder: syn::Block = syn::parse_str("{ 0 }").unwrap();
    holder.stmts = vec![Stmt::Expr(key_expr, None)];
    rewrite(&mut holder)?;
    let mut cx = base_cx();
    cx.paths.insert("str_concat".into(), "RStr.concat".into());
    cx.paths.insert("String::from".into(), "id".into());
    for m in ["to_string", "to_owned", "as_str", "into"] {
        cx.methods.insert(m.into(), Meth::Identity);
    }
    let Some(Stmt::Expr(key_expr, None)) = holder.stmts.first() else {
        return Err("Module::get_function: key expression lost".into());
    };
    let key = cx.m(key_expr)?;

    // the table is consulted once, with that key
    let mut tc = TableCalls(vec![]);
    tc.visit_block(&f.block);
    let lookups: Vec<&(String, String)> = tc.0.iter().filter(|(m, _)| m != "keys").collect();
    if lookups.len() != 1 || lookups[0].0 != "get" || lookups[0].1 != "&name" {
        return Err(format!(
            "Module::get_function: `self.functions` must be consulted by exactly one `.get(&name)` (found {:?})",
            tc.0
        ));
    }
    let infos = let_named(stmts, "function_info");
    let mut lk = TableCalls(vec![]);
    if let [(_, l)] = infos.as_slice() {
        if let Some(i) = &l.init {
            lk.visit_expr(&i.expr);
        }
    }
    if !lk.0.iter().any(|(m, _)| m == "get") {
        return Err("Module::get_function: the look-up is not bound by `let function_info = self.functions.get(&name)…`".into());
    }
    let ids = let_named(stmts, "id");
    let id_ok = match ids.as_slice() {
        [(_, l)] => l
            .init
            .as_ref()
            .is_some_and(|i| i.expr.to_token_stream().to_string().replace(' ', "") == "function_info.id"),
        _ => false,
    };
    let mut fin = CallsOf("get_finalized_function", vec![]);
    fin.visit_block(&f.block);
    if !id_ok || fin.1 != ["id"] {
        return Err(format!(
            "Module::get_function: the handle must be `get_finalized_function(id)` with `let id = function_info.id;` (found {:?})",
            fin.1
        ));
    }
    let mut out = format!(
        "/-- the key `Module::get_function(name)` looks up in `Module.functions` (src/codegen/mod.rs: the first `let name = …;`) -/\ndef get_function_key (name : Name) : Name := Id.run\n {key}\n\n"
    );
    // ---- the exits of the function, in source order (statement by statement; anything that is
    // not one of these forms is an extraction failure):
    //   look-up   `let function_info = self.functions.get(&name).ok_or_else(|| FunctionRetrievalError::V {…})?;`
    //   no-sig    `let Some(sig) = &sig else { return Err(FunctionRetrievalError::V {…}) };`
    //   params    `F::check_args(…, &sig.parameter_types)?;`
    //   return    `check_roto_type_reflect::<F::Return>(…, &sig.return_type).map_err(|e| FunctionRetrievalError::V(…))?;`
    //   plain `let x = <expr without `?`/`return`>;`        (sig, id, func_ptr)
    //   done      tail `Ok(TypedFunc {…})`
    fn ts(t: &impl ToTokens) -> String {
        t.to_token_stream().to_string().replace(' ', "")
    }
    fn variant_in(tokens: &str) -> Result<&'static str, String> {
        let vs: Vec<&str> = tokens.match_indices("FunctionRetrievalError::").map(|(i, m)| &tokens[i + m.len()..]).collect();
        match vs.as_slice() {
            [v] if v.starts_with("DoesNotExist") => Ok("FnErr.doesNotExist"),
            [v] if v.starts_with("TypeMismatch") => Ok("FnErr.typeMismatch"),
            _ => Err(format!("Module::get_function: cannot tell which FunctionRetrievalError is built in `{tokens}`")),
        }
    }
    struct Exits(usize, usize);
    impl<'ast> Visit<'ast> for Exits {
        fn visit_expr_try(&mut self, t: &'ast syn::ExprTry) {
            self.0 += 1;
            syn::visit::visit_expr_try(self, t);
        }
        fn visit_expr_return(&mut self, r: &'ast syn::ExprReturn) {
            self.1 += 1;
            syn::visit::visit_expr_return(self, r);
        }
    }
    let mut ex = Exits(0, 0);
    ex.visit_block(&f.block);
    if (ex.0, ex.1) != (3, 1) {
        return Err(format!("Module::get_function: expected three `?` and one `return` (found {} and {})", ex.0, ex.1));
    }
    let mut missing = None; // error of the failed look-up
    let mut nosig = None;
    let mut checks: Vec<(&str, &str)> = vec![]; // (which part of the signature, error) in source order
    let mut done = false;
    for (i, st) in stmts.iter().enumerate() {
        if done {
            return Err("Module::get_function: statement after the final `Ok(TypedFunc {…})`".into());
        }
        match st {
            Stmt::Local(l) if i == names[0].0 => {
                let _ = l;
            }
            Stmt::Local(l) => {
                let pat = ts(&l.pat);
                let init = l.init.as_ref().ok_or("Module::get_function: let without initialiser")?;
                let e = ts(&init.expr);
                if let Some((_, els)) = &init.diverge {
                    let body = ts(els);
                    if pat != "Some(sig)" || e != "&sig" || !body.starts_with("{returnErr(FunctionRetrievalError::") {
                        return Err(format!("Module::get_function: unsupported let-else `{pat} = {e}`"));
                    }
                    if missing.is_none() || !checks.is_empty() {
                        return Err("Module::get_function: the `signature` test is not between the look-up and the type checks".into());
                    }
                    nosig = Some(variant_in(&body)?);
                } else if pat == "function_info" {
                    if !e.starts_with("self.functions.get(&name).ok_or_else(||") || !e.ends_with("?") || missing.is_some() {
                        return Err(format!("Module::get_function: unsupported look-up `{e}`"));
                    }
                    missing = Some(variant_in(&e)?);
                } else {
                    let mut x = Exits(0, 0);
                    x.visit_expr(&init.expr);
                    let ok = match pat.as_str() {
                        "sig" => e == "&function_info.signature",
                        "id" => e == "function_info.id",
                        _ => (x.0, x.1) == (0, 0) && !e.contains("self.functions"),
                    };
                    if !ok {
                        return Err(format!("Module::get_function: unsupported `let {pat} = {e}`"));
                    }
                }
            }
            Stmt::Expr(Expr::Try(t), Some(_)) => {
                let e = ts(&t.expr);
                if nosig.is_none() {
                    return Err("Module::get_function: a type check before the `signature` test".into());
                }
                if e.starts_with("F::check_args(") && e.ends_with(",&sig.parameter_types)") {
                    // the error is built inside `check_args` (src/runtime): a `TypeMismatch` (hand)
                    checks.push(("params", "FnErr.typeMismatch"));
                } else if e.starts_with("check_roto_type_reflect::<F::Return>(") && e.contains(",&sig.return_type,).map_err(|e|") || e.contains(",&sig.return_type).map_err(|e|") && e.starts_with("check_roto_type_reflect::<F::Return>(") {
                    let clo = &e[e.find(".map_err(").unwrap()..];
                    checks.push(("ret", variant_in(clo)?));
                } else {
                    return Err(format!("Module::get_function: unsupported `?` statement `{e}`"));
                }
            }
            Stmt::Expr(e, None) if i + 1 == stmts.len() => {
                if !ts(e).starts_with("Ok(TypedFunc{func:func_ptr,") {
                    return Err(format!("Module::get_function: the tail is not `Ok(TypedFunc {{ func: func_ptr, … }})`: {}", ts(e)));
                }
                done = true;
            }
            other => {
                return Err(format!("Module::get_function: unsupported statement: {}", ts(other)));
            }
        }
    }
    let missing = missing.ok_or("Module::get_function: no look-up statement")?;
    let nosig = nosig.ok_or("Module::get_function: no `let Some(sig) = &sig else …`")?;
    let mut kinds: Vec<&str> = checks.iter().map(|c| c.0).collect();
    kinds.sort();
    if !done || kinds != ["params", "ret"] {
        return Err(format!("Module::get_function: expected one parameter check and one return-type check (found {kinds:?})"));
    }
    let mut body = String::from("(RResult.Ok ⟨get_function_key name, info⟩)");
    for (what, err) in checks.iter().rev() {
        body = format!("(if info.sig.{what} = want.{what} then {body} else RResult.Err {err})");
    }
    out.push_str(&format!(
        "/-- `Module::get_function::<F>(name)` (src/codegen/mod.rs).  GENERATED statement by statement: ONE look-up of the generated key (`None` ↦ the error of the `ok_or_else` closure); `signature: None` (compiler-generated glue; such entries are not in the model's table) ↦ `{nosig}`; then the checks of the parameter types and of the return type in source order, each with the error its `?` propagates (the one of `check_args` is built inside that function: hand); the handle is the looked-up entry's function (`get_finalized_function(function_info.id)`, shape-checked) -/\ndef Module_get_function (self : Module) (want : Sig) (name : Name) : RResult TypedFunc FnErr :=\n match Table.find self.functions (get_function_key name) with\n | none => RResult.Err {missing}\n | some info => {body}\n\n"
    ));
    Ok(out)
}

/// `Package::get_function` (src/pipeline.rs): the requested type `F` is the model's `want`.
fn package_get_function(pipeline: &syn::File) -> R {
    let mut f = find::func(pipeline, "get_function", Some("Package<Ctx>"))?;
    rewrite(&mut f.block)?;
    struct AddWant(usize);
    impl VisitMut for AddWant {
        fn visit_expr_method_call_mut(&mut self, mc: &mut syn::ExprMethodCall) {
            syn::visit_mut::visit_expr_method_call_mut(self, mc);
            if mc.method == "get_function" && mc.turbofish.is_none() {
                let old: Vec<Expr> = mc.args.iter().cloned().collect();
                let mut args: Vec<Expr> = vec![syn::parse_str("want").unwrap()];
                args.extend(old);
                mc.args = args.into_iter().collect();
                self.0 += 1;
            }
        }
    }
    let mut aw = AddWant(0);
    aw.visit_block_mut(&mut f.block);
    if aw.0 != 1 {
        return Err(format!("Package::get_function: expected one inner `.get_function(…)`, found {}", aw.0));
    }
    let body = base_cx().m(&Expr::Block(syn::ExprBlock { attrs: vec![], label: None, block: f.block.clone() }))?;
    Ok(format!(
        "/-- `Package::get_function::<F>(name)` (src/pipeline.rs) -/\ndef Package_get_function (self : Package) (want : Sig) (name : Name) : RResult TypedFunc FnErr := Id.run\n {body}\n\n"
    ))
}

// ------------------------------------------------- how a test becomes a function

fn chars_lit(s: &str) -> String {
    let cs: Vec<String> = s.chars().map(|c| format!("{c:?}")).collect();
    format!("([{}] : Name)", cs.join(", "))
}

/// The single `format!("<prefix>{…}")` in `f`: its prefix.
fn format_prefix(f: &find::FnBody, what: &str) -> R {
    struct M(Vec<syn::Macro>);
    impl<'ast> Visit<'ast> for M {
        fn visit_macro(&mut self, m: &'ast syn::Macro) {
            if m.path.is_ident("format") {
                self.0.push(m.clone());
            }
        }
    }
    let mut m = M(vec![]);
    m.visit_block(&f.block);
    if m.0.len() != 1 {
        return Err(format!("{what}: expected one format!, found {}", m.0.len()));
    }
    let first = m.0[0]
        .tokens
        .clone()
        .into_iter()
        .next()
        .ok_or(format!("{what}: empty format!"))?;
    let lit: syn::LitStr = syn::parse2(first.into_token_stream())
        .map_err(|_| format!("{what}: format! does not start with a string literal"))?;
    let s = lit.value();
    let open = s.find('{').ok_or(format!("{what}: no placeholder"))?;
    let close = s.find('}').ok_or(format!("{what}: no placeholder"))?;
    if close + 1 != s.len() || s[open + 1..].contains('{') {
        return Err(format!("{what}: format string `{s}` is not `<prefix>{{name}}`"));
    }
    Ok(s[..open].to_string())
}

fn sig_ty(tokens: &str) -> &'static str {
    match tokens {
        "Type::verdict(Type::unit(),Type::unit())" => "Ty.verdictUnitUnit",
        "Type::unit()" => "Ty.unit",
        _ => "(Ty.other 0)",
    }
}

fn test_items(repo: &Path) -> R {
    let tc = find::parse(repo, "src/typechecker/function.rs")?;
    let mir = find::parse(repo, "src/mir/lower.rs")?;
    let mut out = String::new();
    // type checker
    let f = find::func(&tc, "test", None)?;
    let p = format_prefix(&f, "typechecker test")?;
    out.push_str(&format!(
        "/-- the name under which the type checker declares `test <ident>` (src/typechecker/function.rs) -/\ndef test_fn_name_typechecker (ident : Name) : Name := {} ++ ident\n\n",
        chars_lit(&p)
    ));
    struct S(Vec<syn::ExprStruct>);
    impl<'ast> Visit<'ast> for S {
        fn visit_expr_struct(&mut self, s: &'ast syn::ExprStruct) {
            if s.path.is_ident("Signature") {
                self.0.push(s.clone());
            }
        }
    }
    let mut s = S(vec![]);
    s.visit_block(&f.block);
    if s.0.len() != 1 {
        return Err(format!("typechecker test: {} Signature literals", s.0.len()));
    }
    let mut params = None;
    let mut ret = None;
    for fld in &s.0[0].fields {
        let n = fld.member.to_token_stream().to_string();
        let v = fld.expr.to_token_stream().to_string().replace(' ', "");
        match n.as_str() {
            "parameter_types" => params = Some(v),
            "return_type" => ret = Some(v),
            _ => {}
        }
    }
    let params = params.ok_or("typechecker test: no parameter_types")?;
    let ret = ret.ok_or("typechecker test: no return_type")?;
    if params != "Vec::new()" {
        return Err(format!("typechecker test: parameter_types = {params} is not `Vec::new()`"));
    }
    out.push_str(&format!(
        "/-- the signature the type checker gives a test -/\ndef test_sig_typechecker : Sig := ⟨[], {}⟩\n\n",
        sig_ty(&ret)
    ));
    // MIR lowering
    let f = find::func(&mir, "test", Some("Lowerer"))?;
    let p = format_prefix(&f, "mir test")?;
    out.push_str(&format!(
        "/-- the name of the MIR item of `test <ident>` (src/mir/lower.rs) -/\ndef test_fn_name_mir (ident : Name) : Name := {} ++ ident\n\n",
        chars_lit(&p)
    ));
    let mut ret = None;
    let mut params = None;
    for st in &f.block.stmts {
        if let Stmt::Local(l) = st {
            if let (Pat::Ident(pi), Some(init)) = (&l.pat, &l.init) {
                let v = init.expr.to_token_stream().to_string().replace(' ', "");
                if pi.ident == "return_type" {
                    ret = Some(v);
                } else if pi.ident == "params" {
                    params = Some(v);
                }
            }
        }
    }
    let ret = ret.ok_or("mir test: no `let return_type`")?;
    let params = params.ok_or("mir test: no `let params`")?;
    if params != "ast::Params(Vec::new())" {
        return Err(format!("mir test: params = {params} is not `ast::Params(Vec::new())`"));
    }
    out.push_str(&format!(
        "/-- the signature the MIR lowerer gives a test -/\ndef test_sig_mir : Sig := ⟨[], {}⟩\n\n",
        sig_ty(&ret)
    ));
    Ok(out)
}

pub fn testrunner(repo: &Path) -> R {
    let testing = find::parse(repo, "src/codegen/testing.rs")?;
    let pipeline = find::parse(repo, "src/pipeline.rs")?;
    let cli = find::parse(repo, "src/cli.rs")?;
    let mut out = String::from(
        "/- GENERATED by /verif/extract (targets/c19.rs) from src/codegen/testing.rs, src/codegen/mod.rs, src/pipeline.rs, src/cli.rs, src/typechecker/function.rs, src/mir/lower.rs — do not edit. -/\nimport RotoV.Model.TestRunner\nset_option linter.unusedVariables false\nnamespace RotoV.Gen.TestRunner\nopen RotoV RotoV.TR\n\n",
    );
    out.push_str(&test_items(repo)?);
    out.push_str(&module_get_function(repo)?);
    out.push_str(&package_get_function(&pipeline)?);
    out.push_str(&testcase_run(&testing)?);
    out.push_str(&get_tests(&testing)?);
    out.push_str(&run_tests(&testing)?);
    out.push_str(&package_run_tests(&pipeline)?);
    out.push_str(&command_enum(&cli)?);
    out.push_str(&cli_fns(&cli)?);
    out.push_str("\nend RotoV.Gen.TestRunner\n");
    Ok(out)
}
