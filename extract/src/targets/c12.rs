//! Translator targets owned by property C12.
//!
//! `c12bounds` → `Generated/C12Bounds.lean`: the trait-bound lists that decide
//! whether `unsafe impl Sync for TypedFunc` is justified:
//!  * supertraits of `trait RegisterableFn` and the bounds on the closure type
//!    `F` in every `impl RegisterableFn … for F` of `runtime/func.rs` (the impls
//!    live inside two `macro_rules!` bodies; one entry per macro invocation),
//!  * `T::Transformed: …` of `Constant::new` (`runtime/items.rs`),
//!  * `ConstantValue::new<T: …>` and the `Arc<dyn …>` it wraps (`runtime/mod.rs`),
//!  * `type Transformed: …` of `trait Value` and `impl<T: …> Value for Val<T>`
//!    (`value/mod.rs`),
//!  * every `unsafe impl Send/Sync` in those files and `codegen/mod.rs`.
//! Anything that does not have the expected shape is an extraction failure.
use super::{Gen, Target};
use crate::find;
use proc_macro2::{Delimiter, TokenStream, TokenTree};
use quote::ToTokens;
use std::path::Path;
use syn::visit::Visit;

#[path = "c12_sharing.rs"]
mod sharing;
#[path = "c12_instr.rs"]
mod instr;
#[path = "c12_globals.rs"]
mod globals;
#[path = "c12_frame.rs"]
mod frame;

pub const TARGETS: &[Target] = &[
    ("c12bounds", "C12Bounds", c12bounds as Gen),
    ("c12sharing", "C12Sharing", sharing::c12sharing as Gen),
    ("c12instr", "C12Instr", instr::c12instr as Gen),
    ("c12globals", "C12Globals", globals::c12globals as Gen),
    ("c12frame", "C12Frame", frame::c12frame as Gen),
];

fn bound_name(s: &str) -> &'static str {
    match s.replace(' ', "").as_str() {
        "Send" => ".send",
        "Sync" => ".sync",
        "'static" => ".static",
        "Clone" => ".clone",
        "PartialEq" => ".partialEq",
        _ => ".other",
    }
}

fn lean_list(bs: &[String]) -> String {
    format!(
        "[{}]",
        bs.iter().map(|b| bound_name(b)).collect::<Vec<_>>().join(", ")
    )
}

fn param_bounds(
    bounds: &syn::punctuated::Punctuated<syn::TypeParamBound, syn::Token![+]>,
) -> Vec<String> {
    bounds.iter().map(|b| b.to_token_stream().to_string()).collect()
}

/// Split a flat token sequence `A + B + 'c` (up to the first top-level `,` or
/// the end) into bound texts. `Fn(..) -> R` stays one bound.
fn split_bounds(toks: &[TokenTree]) -> Vec<String> {
    let mut out = vec![];
    let mut cur = String::new();
    for t in toks {
        match t {
            TokenTree::Punct(p) if p.as_char() == '+' => {
                out.push(std::mem::take(&mut cur));
            }
            TokenTree::Punct(p) if p.as_char() == ',' => break,
            TokenTree::Punct(p) if p.as_char() == '\'' => cur.push('\''),
            other => {
                cur.push_str(&other.to_string());
            }
        }
    }
    if !cur.is_empty() {
        out.push(cur);
    }
    out
}

/// Inside a `macro_rules!` body: every `impl … RegisterableFn … for F where …
/// F: <bounds>,` — returns the bounds of `F` for each impl found.
fn impls_in_tokens(ts: TokenStream, out: &mut Vec<Vec<String>>) -> Result<(), String> {
    let toks: Vec<TokenTree> = ts.into_iter().collect();
    let mut i = 0;
    while i < toks.len() {
        if let TokenTree::Group(g) = &toks[i] {
            impls_in_tokens(g.stream(), out)?;
        }
        let is_impl = matches!(&toks[i], TokenTree::Ident(id) if id == "impl");
        if is_impl {
            // header: up to the next brace group
            let mut j = i + 1;
            while j < toks.len()
                && !matches!(&toks[j], TokenTree::Group(g) if g.delimiter() == Delimiter::Brace)
            {
                j += 1;
            }
            let header = &toks[i..j.min(toks.len())];
            let mentions = header
                .iter()
                .any(|t| matches!(t, TokenTree::Ident(id) if id == "RegisterableFn"));
            let for_pos = header
                .iter()
                .position(|t| matches!(t, TokenTree::Ident(id) if id == "for"));
            if mentions {
                let Some(fp) = for_pos else {
                    return Err("impl mentioning RegisterableFn without `for`".into());
                };
                let TokenTree::Ident(self_ty) = &header[fp + 1] else {
                    return Err("RegisterableFn impl for a non-identifier type".into());
                };
                let self_ty = self_ty.to_string();
                // where-clause predicates `<self_ty> : bounds ,`
                let wp = header
                    .iter()
                    .position(|t| matches!(t, TokenTree::Ident(id) if id == "where"))
                    .ok_or("RegisterableFn impl without where clause")?;
                let mut found = None;
                let mut k = wp + 1;
                let mut at_pred_start = true;
                while k + 1 < header.len() {
                    if at_pred_start {
                        if let (TokenTree::Ident(id), TokenTree::Punct(p)) =
                            (&header[k], &header[k + 1])
                        {
                            if *id == self_ty && p.as_char() == ':' {
                                if found.is_some() {
                                    return Err(format!(
                                        "two predicates on {self_ty} in one RegisterableFn impl"
                                    ));
                                }
                                found = Some(split_bounds(&header[k + 2..]));
                            }
                        }
                    }
                    at_pred_start =
                        matches!(&header[k], TokenTree::Punct(p) if p.as_char() == ',');
                    k += 1;
                }
                let Some(b) = found else {
                    return Err(format!(
                        "RegisterableFn impl: no where-predicate on the self type {self_ty}"
                    ));
                };
                out.push(b);
            }
            i = j;
            continue;
        }
        i += 1;
    }
    Ok(())
}

struct UnsafeImpls(Vec<(String, String)>);
impl<'ast> Visit<'ast> for UnsafeImpls {
    fn visit_item_impl(&mut self, i: &'ast syn::ItemImpl) {
        if i.unsafety.is_some() {
            if let Some((_, p, _)) = &i.trait_ {
                let tr = p.segments.last().map(|s| s.ident.to_string()).unwrap_or_default();
                if tr == "Send" || tr == "Sync" {
                    let ty = match &*i.self_ty {
                        syn::Type::Path(tp) => tp
                            .path
                            .segments
                            .last()
                            .map(|s| s.ident.to_string())
                            .unwrap_or_default(),
                        other => other.to_token_stream().to_string(),
                    };
                    self.0.push((tr, ty));
                }
            }
        }
        syn::visit::visit_item_impl(self, i);
    }
    // do not descend into `#[cfg(test)] mod tests` style modules: they are
    // separate files here (codegen/tests.rs), which are not scanned
}

fn ty_name(t: &str) -> &'static str {
    match t {
        "TypedFunc" => ".typedFunc",
        "ModuleData" => ".moduleData",
        "FunctionDescription" => ".functionDescription",
        _ => ".other",
    }
}

pub fn c12bounds(repo: &Path) -> Result<String, String> {
    let func = find::parse(repo, "src/runtime/func.rs")?;
    let items = find::parse(repo, "src/runtime/items.rs")?;
    let rtmod = find::parse(repo, "src/runtime/mod.rs")?;
    let value = find::parse(repo, "src/value/mod.rs")?;
    let codegen = find::parse(repo, "src/codegen/mod.rs")?;

    // 1. trait RegisterableFn: supertraits
    let mut supers = None;
    for it in &func.items {
        if let syn::Item::Trait(t) = it {
            if t.ident == "RegisterableFn" {
                supers = Some(param_bounds(&t.supertraits));
            }
        }
    }
    let supers = supers.ok_or("trait RegisterableFn not found in runtime/func.rs")?;

    // 2. impls: macro bodies × invocations, plus plain impls
    let mut macro_impls: Vec<(String, Vec<Vec<String>>)> = vec![];
    let mut impls: Vec<Vec<String>> = vec![];
    let mut comments = vec![];
    for it in &func.items {
        match it {
            syn::Item::Macro(m) if m.mac.path.is_ident("macro_rules") => {
                let name = m.ident.as_ref().map(|i| i.to_string()).unwrap_or_default();
                let mut found = vec![];
                impls_in_tokens(m.mac.tokens.clone(), &mut found)?;
                if !found.is_empty() {
                    macro_impls.push((name, found));
                }
            }
            syn::Item::Macro(m) => {
                let name = m.mac.path.to_token_stream().to_string().replace(' ', "");
                if let Some((_, found)) = macro_impls.iter().find(|(n, _)| *n == name) {
                    for f in found {
                        impls.push(f.clone());
                    }
                    comments.push(name);
                }
            }
            syn::Item::Impl(i) => {
                let is_reg = i
                    .trait_
                    .as_ref()
                    .and_then(|(_, p, _)| p.segments.last())
                    .map(|s| s.ident == "RegisterableFn")
                    .unwrap_or(false);
                if is_reg {
                    let mut found = vec![];
                    impls_in_tokens(i.to_token_stream(), &mut found)?;
                    if found.is_empty() {
                        return Err("plain RegisterableFn impl without recognisable bounds".into());
                    }
                    impls.extend(found);
                    comments.push("impl".into());
                }
            }
            _ => {}
        }
    }
    if impls.is_empty() {
        return Err("no RegisterableFn impl found in runtime/func.rs".into());
    }
    // no impl of the trait anywhere else
    for rel in ["src/runtime/items.rs", "src/runtime/mod.rs", "src/value/mod.rs", "src/codegen/mod.rs", "src/lib.rs"] {
        let text = std::fs::read_to_string(repo.join(rel)).map_err(|e| format!("{rel}: {e}"))?;
        for (n, line) in text.lines().enumerate() {
            let l = line.trim_start();
            if l.starts_with("impl") && l.contains("RegisterableFn") && l.contains(" for ") {
                return Err(format!("unexpected RegisterableFn impl at {rel}:{}", n + 1));
            }
        }
    }

    // 3. Constant::new — where `T::Transformed: …`
    let cnew = find::func(&items, "new", Some("Constant"))?;
    let mut constant_new: Vec<String> = vec![];
    if let Some(w) = &cnew.sig.generics.where_clause {
        for p in &w.predicates {
            if let syn::WherePredicate::Type(pt) = p {
                let lhs = pt.bounded_ty.to_token_stream().to_string().replace(' ', "");
                if lhs == "T::Transformed" {
                    constant_new.extend(param_bounds(&pt.bounds));
                }
            }
        }
    }

    // 4. ConstantValue::new<T: …> and the struct's Arc<dyn …>
    let cvnew = find::func(&rtmod, "new", Some("ConstantValue"))?;
    let mut cv_new = vec![];
    for gp in &cvnew.sig.generics.params {
        if let syn::GenericParam::Type(tp) = gp {
            cv_new.extend(param_bounds(&tp.bounds));
        }
    }
    if let Some(w) = &cvnew.sig.generics.where_clause {
        for p in &w.predicates {
            if let syn::WherePredicate::Type(pt) = p {
                cv_new.extend(param_bounds(&pt.bounds));
            }
        }
    }
    let fields = find::struct_fields(&rtmod, "ConstantValue")?;
    let fty = fields.first().map(|f| f.1.clone()).ok_or("ConstantValue has no field")?;
    let cv_dyn: Vec<String> = if let Some(rest) = fty.strip_prefix("Arc<dyn") {
        rest.trim_end_matches('>').split('+').map(|s| s.to_string()).collect()
    } else {
        return Err(format!("ConstantValue wraps `{fty}`, expected Arc<dyn …>"));
    };

    // 5. trait Value { type Transformed: … } and impl<T: …> Value for Val<T>
    let mut transformed = None;
    let mut val_impl = None;
    for it in &value.items {
        match it {
            syn::Item::Trait(t) if t.ident == "Value" => {
                for ti in &t.items {
                    if let syn::TraitItem::Type(ty) = ti {
                        if ty.ident == "Transformed" {
                            transformed = Some(param_bounds(&ty.bounds));
                        }
                    }
                }
            }
            syn::Item::Impl(i) => {
                let is_value = i
                    .trait_
                    .as_ref()
                    .and_then(|(_, p, _)| p.segments.last())
                    .map(|s| s.ident == "Value")
                    .unwrap_or(false);
                let self_ty = i.self_ty.to_token_stream().to_string().replace(' ', "");
                if is_value && self_ty == "Val<T>" {
                    let mut b = vec![];
                    for gp in &i.generics.params {
                        if let syn::GenericParam::Type(tp) = gp {
                            if tp.ident == "T" {
                                b.extend(param_bounds(&tp.bounds));
                            }
                        }
                    }
                    if let Some(w) = &i.generics.where_clause {
                        for p in &w.predicates {
                            if let syn::WherePredicate::Type(pt) = p {
                                if pt.bounded_ty.to_token_stream().to_string() == "T" {
                                    b.extend(param_bounds(&pt.bounds));
                                }
                            }
                        }
                    }
                    val_impl = Some(b);
                }
            }
            _ => {}
        }
    }
    let transformed = transformed.ok_or("trait Value / type Transformed not found")?;
    let val_impl = val_impl.ok_or("impl Value for Val<T> not found")?;

    // 6. unsafe impl Send / Sync
    let mut ui = UnsafeImpls(vec![]);
    for f in [&func, &items, &rtmod, &value, &codegen] {
        ui.visit_file(f);
    }
    let sends: Vec<&str> = ui.0.iter().filter(|(t, _)| t == "Send").map(|(_, n)| ty_name(n)).collect();
    let syncs: Vec<&str> = ui.0.iter().filter(|(t, _)| t == "Sync").map(|(_, n)| ty_name(n)).collect();

    let mut s = String::new();
    s.push_str("/- GENERATED by /verif/extract (target c12bounds) from src/runtime/func.rs, src/runtime/items.rs, src/runtime/mod.rs, src/value/mod.rs, src/codegen/mod.rs — do not edit. -/\nimport RotoV.Model.Conc\nnamespace RotoV.Gen.C12Bounds\nopen RotoV.Conc.Bounds\n\n");
    s.push_str(&format!(
        "/-- impls found: {} (from: {}); unsafe impls: {:?} -/\n",
        impls.len(),
        comments.join(" "),
        ui.0
    ));
    s.push_str("def facts : Facts where\n");
    s.push_str(&format!("  registerableFnSuper := {}\n", lean_list(&supers)));
    s.push_str(&format!(
        "  registerableFnImpls := [{}]\n",
        impls.iter().map(|b| lean_list(b)).collect::<Vec<_>>().join(",\n    ")
    ));
    s.push_str(&format!("  constantNew := {}\n", lean_list(&constant_new)));
    s.push_str(&format!("  constantValueNew := {}\n", lean_list(&cv_new)));
    s.push_str(&format!("  constantValueDyn := {}\n", lean_list(&cv_dyn)));
    s.push_str(&format!("  valueTransformed := {}\n", lean_list(&transformed)));
    s.push_str(&format!("  valImpl := {}\n", lean_list(&val_impl)));
    s.push_str(&format!("  unsafeSend := [{}]\n", sends.join(", ")));
    s.push_str(&format!("  unsafeSync := [{}]\n", syncs.join(", ")));
    s.push_str("\nend RotoV.Gen.C12Bounds\n");
    Ok(s)
}
